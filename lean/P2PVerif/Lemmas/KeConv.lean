import P2PVerif.Lemmas.KeChan
/-! C07 convergence scenarios: symbolic evaluation of three reliable round trips between two channels, from fresh
    channels and after the initiating peer restarted. The responder side is kept general (`RespPre`) so that the
    same evaluation serves the fresh channel and the two stale states. -/
namespace P2PVerif.P2PKE
open P2PVerif

theorem validate16 : (Replay.validate Replay.Filter.empty 16 maxNonce).2 = true := by
  simp [Replay.validate, Replay.Filter.empty, maxNonce_eq, Replay.clear]

/-! ### sessions: a responder that belongs to another handshake rejects without changing -/

theorem Sess.foreign_initDone (s : Sess) (e eI eR : Eph) (tr : Hello) (sg : CSig) (now : Nat)
    (hI : s.isInit = false) (h3 : s.hs = 3) (hE : s.rEph = some e) (hne : e ≠ eI) :
    s.deliver (.initDone eI eR tr sg) now = (s, .err) := by
  unfold Sess.deliver
  split
  · rfl
  simp [Wire.counter, Sess.readHandshake, hI, h3, hE, Sess.afterFailedRead]
  cases s.hello <;> simp [Ne.symm hne]

theorem Sess.foreign_data (s : Sess) (e eI eR : Eph) (tr : Hello) (dir : Dir) (ctr : Nat) (p : Bytes) (now : Nat)
    (hI : s.isInit = false) (hE : s.rEph = some e) (hne : e ≠ eI) (hc : 4 ≤ ctr) :
    s.deliver (.data eI eR tr dir ctr p) now = (s, .err) := by
  unfold Sess.deliver
  split
  · rfl
  simp only [Wire.counter, reduceCtorEq, if_false]
  rw [if_neg (by omega)]
  split
  · rfl
  have : s.eI = e := by simp [Sess.eI, hI, hE]
  rw [if_neg (by rw [this]; intro h; exact hne h.1.symm)]

/-! ### sessions: the four handshake transitions, Send, and the first data message -/

def initS2 (key : KeyId) (eI t ra eR : Nat) (rk : KeyId) : Sess :=
  { isInit := true, key, eph := eI, hs := 2, nonce := 16, expiresAt := t + ra, hello := some (helloOf key t),
    rEph := some eR, rKey := some rk, rSig := some (.cb1 rk eI (helloOf key t)), helloTime := t }

def initS4 (key : KeyId) (eI t ra eR : Nat) (rk : KeyId) : Sess :=
  { initS2 key eI t ra eR rk with hs := 4 }

def respS3 (key : KeyId) (eph exp e : Nat) (h : Hello) : Sess :=
  { respS1 key eph exp e h with hs := 3, nonce := 16 }

theorem Sess.init_deliver_respHello (key : KeyId) (eI t ra eR : Nat) (rk : KeyId) (now : Nat) (hn : now ≤ t + ra) :
    (Sess.new true key eI t ra).deliver (.respHello eR eI (helloOf key t) rk (.cb1 rk eI (helloOf key t))) now =
    (initS2 key eI t ra eR rk,
     .hs (some (.initDone eI eR (helloOf key t) (.cb2 key eI eR (helloOf key t) rk (.cb1 rk eI (helloOf key t)))))) := by
  have hx : (Sess.new true key eI t ra).expired now = false :=
    Sess.expired_false _ _ (by simpa [Sess.new] using hn) (by simp [Sess.new])
  unfold Sess.deliver
  rw [hx]
  simp [Sess.new, Wire.counter, Sess.readHandshake, helloOf, Sess.handshake, initS2, noncePostHandshake]

theorem Sess.init_deliver_respDone (key : KeyId) (eI t ra eR : Nat) (rk : KeyId) (now : Nat) (hn : now ≤ t + ra) :
    (initS2 key eI t ra eR rk).deliver (.respDone eI eR (helloOf key t)) now = (initS4 key eI t ra eR rk, .hs none) := by
  have hx : (initS2 key eI t ra eR rk).expired now = false :=
    Sess.expired_false _ _ (by simpa [initS2] using hn) (by simp [initS2])
  unfold Sess.deliver
  rw [hx]
  simp [Wire.counter, Sess.readHandshake, helloOf, Sess.handshake, initS2, initS4, noncePostHandshake]

theorem Sess.resp_deliver_initDone (key : KeyId) (eph exp e : Nat) (h : Hello) (now : Nat) (hn : now ≤ exp) :
    (respS1 key eph exp e h).deliver (.initDone e eph h (.cb2 h.key e eph h key (.cb1 key e h))) now =
    (respS3 key eph exp e h, .hs (some (.respDone e eph h))) := by
  have hx : (respS1 key eph exp e h).expired now = false :=
    Sess.expired_false _ _ (by simpa [respS1] using hn) (by simp [respS1])
  unfold Sess.deliver
  rw [hx]
  simp [Wire.counter, Sess.readHandshake, Sess.handshake, respS1, respS3, noncePostHandshake]

theorem Sess.init_send (key : KeyId) (eI t ra eR : Nat) (rk : KeyId) (p : Bytes) (now : Nat) (hn : now ≤ t + ra) :
    ((initS4 key eI t ra eR rk).send p now).2 = some (.data eI eR (helloOf key t) .i2r 16 p) := by
  have hx : (initS4 key eI t ra eR rk).expired now = false :=
    Sess.expired_false _ _ (by simpa [initS4, initS2] using hn) (by simp [initS4, initS2])
  unfold Sess.send
  rw [hx]
  simp [initS4, initS2, Sess.canSend, maxNonce_eq, Sess.eI, Sess.eR, Sess.tr, Sess.outDir]

theorem Sess.resp_deliver_data (key : KeyId) (eph exp e : Nat) (h : Hello) (p : Bytes) (now : Nat) (hn : now ≤ exp) :
    ((respS3 key eph exp e h).deliver (.data e eph h .i2r 16 p) now).2 = .app p := by
  have hx : (respS3 key eph exp e h).expired now = false :=
    Sess.expired_false _ _ (by simpa [respS3, respS1] using hn) (by simp [respS3, respS1])
  have hv := validate16
  unfold Sess.deliver
  rw [hx]
  simp [Wire.counter, respS3, respS1, Sess.canReceive, Sess.eI, Sess.eR, Sess.tr, Sess.inDir, hv]

/-! ### channel: one `Deliver` / `Send` in the situations that occur in the scenarios -/

/-- the slot's session (if any) rejects `w` without changing -/
def Transp (ent : Option Entry) (w : Wire) (now : Nat) : Prop :=
  ∀ se, ent = some se → se.sess.deliver w now = (se.sess, .err)

theorem Transp.none (w : Wire) (now : Nat) : Transp none w now := fun _ h => by cases h

theorem Chan.setSlot_self (c : Chan) (slot : Nat) (se : Entry) (hg : c.getSlot slot = some se) :
    c.setSlot slot ⟨se.id, se.sess⟩ = c := by
  rcases slot with _ | _ | n <;> cases c <;> simp only [Chan.getSlot] at hg <;> subst hg <;> rfl

theorem Chan.deliverSlot_transp (c : Chan) (slot : Nat) (w : Wire) (now : Nat) (h : Transp (c.getSlot slot) w now) :
    c.deliverSlot slot w now = (c, none) := by
  rw [Chan.deliverSlot_eq]
  cases hg : c.getSlot slot with
  | none => rfl
  | some se =>
    simp only []
    by_cases hs : w.isInitHello = true ∧ se.id ≠ w
    · rw [if_pos hs]
    · rw [if_neg hs, h se hg]
      simp only [if_true]
      rw [Chan.setSlot_self c slot se hg]

/-- a handshake message for the prospective session that does not complete it -/
theorem Chan.deliver_next_hs (c : Chan) (lt : IdLt) (w : Wire) (eph now : Nat) (id : Wire) (s s' : Sess) (out : Wire)
    (hp : Transp c.prev w now) (hc : Transp c.cur w now) (hn : c.next = some ⟨id, s⟩) (hw : w.isInitHello = false)
    (hd : s.deliver w now = (s', .hs (some out))) (hr : s'.isReady = false) :
    c.deliver lt w eph now = ({ c with next := some ⟨id, s'⟩ }, { sent := some out }) := by
  unfold Chan.deliver
  rw [Chan.deliverSlot_transp c 0 w now hp]
  simp only []
  rw [Chan.deliverSlot_transp c 1 w now hc]
  simp only []
  rw [Chan.deliverSlot_eq]
  have hg : c.getSlot 2 = some ⟨id, s⟩ := hn
  rw [hg]
  simp only [hw, Bool.false_eq_true, false_and, if_false, hd, reduceCtorEq, hr, Bool.and_false]
  simp [Chan.finish, Chan.setSlot]

/-- the handshake message that completes the prospective session, which answers with `out` -/
theorem Chan.deliver_next_promote (c : Chan) (lt : IdLt) (w : Wire) (eph now : Nat) (id : Wire) (s s' : Sess)
    (out : Option Wire) (k : KeyId)
    (hp : Transp c.prev w now) (hc : Transp c.cur w now) (hn : c.next = some ⟨id, s⟩) (hw : w.isInitHello = false)
    (hd : s.deliver w now = (s', .hs out)) (hr0 : s.isReady = false) (hr : s'.isReady = true)
    (hk : s'.rKey = some k) (hck : c.checkKey k = true) :
    c.deliver lt w eph now =
    ({ c with remoteKey := some k, lastReceived := now, remoteTimestamp := s'.helloTime, prev := c.cur,
              cur := some ⟨id, s'⟩, next := none, rekeyPending := c.rekeyPending || s'.isInit, waiting := 0 },
     { sent := out }) := by
  have hck' : Chan.checkKey { c with next := some ⟨id, s'⟩ } k = true := hck
  unfold Chan.deliver
  rw [Chan.deliverSlot_transp c 0 w now hp]
  simp only []
  rw [Chan.deliverSlot_transp c 1 w now hc]
  simp only []
  rw [Chan.deliverSlot_eq]
  have hg : c.getSlot 2 = some ⟨id, s⟩ := hn
  rw [hg]
  simp only [hw, Bool.false_eq_true, false_and, if_false, hd, reduceCtorEq, hr, hr0, Bool.not_false, Bool.and_true,
    if_true, Chan.setSlot, Chan.onReady, hk, hck', Bool.not_true]
  cases out with
  | none =>
    simp only [Chan.finish]
    cases w <;> first | rfl | (simp [Wire.isInitHello, Wire.counter] at hw)
  | some o => simp [Chan.finish]

/-- data for the current session -/
theorem Chan.deliver_cur_app (c : Chan) (lt : IdLt) (w : Wire) (eph now : Nat) (id : Wire) (s : Sess) (p : Bytes)
    (hp : Transp c.prev w now) (hc : c.cur = some ⟨id, s⟩) (hw : w.isInitHello = false)
    (hd : (s.deliver w now).2 = .app p) (hr : s.isReady = true) :
    (c.deliver lt w eph now).2.app = some p := by
  unfold Chan.deliver
  rw [Chan.deliverSlot_transp c 0 w now hp]
  simp only []
  rw [Chan.deliverSlot_eq]
  have hg : c.getSlot 1 = some ⟨id, s⟩ := hc
  rw [hg]
  simp only [hw, Bool.false_eq_true, false_and, if_false, hd, reduceCtorEq, hr, Bool.not_true, Bool.false_and]
  simp [Chan.finish]

theorem Chan.send_cur (c : Chan) (p : Bytes) (now : Nat) (id : Wire) (s : Sess)
    (hprev : c.prev = none) (hcur : c.cur = some ⟨id, s⟩) (hnext : c.next = none)
    (hexp : now ≤ s.expiresAt) (hka : now - c.lastReceived ≤ c.keepAlive) :
    c.send p now = ({ c with cur := some ⟨id, (s.send p now).1⟩ }, some (s.send p now).2) := by
  have he : c.expire now = c := by
    unfold Chan.expire
    simp only [hprev, hcur, hnext]
    rw [if_neg (by omega)]
    simp only [hnext]
  unfold Chan.send
  simp only [he, hcur]

/-! ### the responder side of one reliable exchange -/

/-- what the responder side may still hold when a (new) initiator `(eI, t)` with key `kA` shows up: no previous
    session; a current session from another handshake; a prospective responder for an older hello -/
structure RespPre (B : Chan) (kA : KeyId) (eI t : Nat) : Prop where
  prev : B.prev = none
  cur : ∀ se, B.cur = some se → se.id ≠ .initHello eI (helloOf kA t) ∧ se.sess.isInit = false ∧ se.sess.hs = 3 ∧
    ∃ e, se.sess.rEph = some e ∧ e ≠ eI
  next : ∀ se, B.next = some se → se.id ≠ .initHello eI (helloOf kA t) ∧ se.sess.isInit = false ∧ se.sess.helloTime < t
  ts : B.remoteTimestamp ≤ t
  key : B.checkKey kA = true

theorem respS1_handshake (key : KeyId) (eph exp e : Nat) (h : Hello) :
    (respS1 key eph exp e h).handshake = some (.respHello eph e h key (.cb1 key e h)) := by
  simp [Sess.handshake, respS1]

theorem respS1_isInit (key : KeyId) (eph exp e : Nat) (h : Hello) : (respS1 key eph exp e h).isInit = false := rfl
theorem respS1_helloTime (key : KeyId) (eph exp e : Nat) (h : Hello) : (respS1 key eph exp e h).helloTime = h.t := rfl
theorem helloOf_t (k : KeyId) (t : Nat) : (helloOf k t).t = t := rfl
theorem helloOf_key (k : KeyId) (t : Nat) : (helloOf k t).key = k := rfl

theorem resp_step1 (B : Chan) (lt : IdLt) (kA : KeyId) (eI t eph now : Nat) (h : RespPre B kA eI t) :
    B.deliver lt (.initHello eI (helloOf kA t)) eph now =
    ({ B with next := some ⟨.initHello eI (helloOf kA t), respS1 B.key eph (now + B.rejectAfter) eI (helloOf kA t)⟩ },
     { sent := some (.respHello eph eI (helloOf kA t) B.key (.cb1 B.key eI (helloOf kA t))) }) := by
  rw [Chan.deliver_hello_new B lt eI kA t eph now (by rw [h.prev]; exact NoId.none _)
    (fun se hse => (h.cur se hse).1) (fun se hse => (h.next se hse).1) h.ts h.key]
  cases hn : B.next with
  | none =>
    simp [Chan.propose, hn, respS1_handshake, respS1_isInit]
  | some old =>
    obtain ⟨-, hi, ht⟩ := h.next old hn
    have hne : (old.sess.helloTime != t) = true := by simp; omega
    have hlt : ¬ t < old.sess.helloTime := by omega
    simp [Chan.propose, hn, respS1_handshake, respS1_isInit, respS1_helloTime, helloOf_t, hi, hne, hlt]

theorem resp_step2 (B : Chan) (lt : IdLt) (kA : KeyId) (eI t eR exp eph now : Nat) (h : RespPre B kA eI t)
    (hn : now ≤ exp) :
    Chan.deliver { B with next := some ⟨.initHello eI (helloOf kA t), respS1 B.key eR exp eI (helloOf kA t)⟩ } lt
      (.initDone eI eR (helloOf kA t) (.cb2 kA eI eR (helloOf kA t) B.key (.cb1 B.key eI (helloOf kA t)))) eph now =
    ({ B with remoteKey := some kA, lastReceived := now, remoteTimestamp := t, prev := B.cur,
              cur := some ⟨.initHello eI (helloOf kA t), respS3 B.key eR exp eI (helloOf kA t)⟩, next := none,
              waiting := 0 },
     { sent := some (.respDone eI eR (helloOf kA t)) }) := by
  refine (Chan.deliver_next_promote
    { B with next := some ⟨.initHello eI (helloOf kA t), respS1 B.key eR exp eI (helloOf kA t)⟩ } lt
    (.initDone eI eR (helloOf kA t) (.cb2 kA eI eR (helloOf kA t) B.key (.cb1 B.key eI (helloOf kA t)))) eph now
    (.initHello eI (helloOf kA t))
    (respS1 B.key eR exp eI (helloOf kA t)) (respS3 B.key eR exp eI (helloOf kA t))
    (some (.respDone eI eR (helloOf kA t))) kA ?_ ?_ rfl rfl ?_ rfl rfl rfl h.key).trans ?_
  · show Transp B.prev _ _
    rw [h.prev]; exact Transp.none _ _
  · intro se hse
    obtain ⟨-, hi, h3, e, he, hne⟩ := h.cur se hse
    exact Sess.foreign_initDone se.sess e eI eR _ _ now hi h3 he hne
  · exact Sess.resp_deliver_initDone B.key eR exp eI (helloOf kA t) now hn
  · simp [respS3, respS1, helloOf]

/-! ### the initiator side -/

/-- the initiating channel between its rekey timer and the RespHello -/
def initChan (kA : KeyId) (accA : KeyId → Bool) (ra ka ht : Nat) (nx : Option Entry) : Chan :=
  { key := kA, accept := accA, rejectAfter := ra, keepAlive := ka, hsTimeout := ht, next := nx, rekeyPending := true, hsPending := true }

/-- the initiating channel once established -/
def initDoneChan (kA : KeyId) (accA : KeyId → Bool) (ra ka ht eI t eR : Nat) (rk : KeyId) (lr : Nat) : Chan :=
  { key := kA, accept := accA, rejectAfter := ra, keepAlive := ka, hsTimeout := ht,
    cur := some ⟨.initHello eI (helloOf kA t), initS4 kA eI t ra eR rk⟩,
    remoteKey := some rk, remoteTimestamp := t, lastReceived := lr, rekeyPending := true, hsPending := true }

theorem init_step0 (kA : KeyId) (accA : KeyId → Bool) (ra ka ht : Nat) (lt : IdLt) (eI t : Nat) :
    (Chan.fresh kA accA ra ka ht).onRekey lt eI t =
      initChan kA accA ra ka ht (some ⟨.initHello eI (helloOf kA t), Sess.new true kA eI t ra⟩) := rfl

/-- at the time the initiator session was created it is neither expired nor too old -/
theorem init_expire (kA : KeyId) (accA : KeyId → Bool) (ra ka ht eI t : Nat) :
    (initChan kA accA ra ka ht (some ⟨.initHello eI (helloOf kA t), Sess.new true kA eI t ra⟩)).expire t =
    initChan kA accA ra ka ht (some ⟨.initHello eI (helloOf kA t), Sess.new true kA eI t ra⟩) := by
  have h : ¬ (t + ra < t ∨ t - (t + ra - ra) > ht) := by omega
  rw [Chan.expire_eq]
  have h1 : ∀ c : Chan, c.prev = none → c.expire1 t = c := by
    intro c hc; unfold Chan.expire1; rw [hc]
  have h2 : ∀ c : Chan, c.cur = none → c.expire2 t = c := by
    intro c hc; unfold Chan.expire2; rw [hc]
  rw [h1 _ rfl, h2 _ rfl]
  unfold Chan.expire3
  simp only [initChan, Sess.new]
  rw [if_neg h]

theorem init_onHandshakeAt (kA : KeyId) (accA : KeyId → Bool) (ra ka ht eI t : Nat) :
    (initChan kA accA ra ka ht (some ⟨.initHello eI (helloOf kA t), Sess.new true kA eI t ra⟩)).onHandshakeAt t =
    (initChan kA accA ra ka ht (some ⟨.initHello eI (helloOf kA t), Sess.new true kA eI t ra⟩),
     [.initHello eI (helloOf kA t)], false) := by
  unfold Chan.onHandshakeAt
  simp only [init_expire]
  rfl

theorem init_step1 (kA : KeyId) (accA : KeyId → Bool) (ra ka ht : Nat) (lt : IdLt) (eI t eR : Nat) (rk : KeyId)
    (eph now : Nat) (hn : now ≤ t + ra) :
    (initChan kA accA ra ka ht (some ⟨.initHello eI (helloOf kA t), Sess.new true kA eI t ra⟩)).deliver lt
      (.respHello eR eI (helloOf kA t) rk (.cb1 rk eI (helloOf kA t))) eph now =
    (initChan kA accA ra ka ht (some ⟨.initHello eI (helloOf kA t), initS2 kA eI t ra eR rk⟩),
     { sent := some (.initDone eI eR (helloOf kA t) (.cb2 kA eI eR (helloOf kA t) rk (.cb1 rk eI (helloOf kA t)))) }) :=
  Chan.deliver_next_hs _ lt _ eph now _ _ _ _ (Transp.none _ _) (Transp.none _ _) rfl rfl
    (Sess.init_deliver_respHello kA eI t ra eR rk now hn) rfl

theorem init_step2 (kA : KeyId) (accA : KeyId → Bool) (ra ka ht : Nat) (lt : IdLt) (eI t eR : Nat) (rk : KeyId)
    (eph now : Nat) (hn : now ≤ t + ra) (hacc : accA rk = true) :
    (initChan kA accA ra ka ht (some ⟨.initHello eI (helloOf kA t), initS2 kA eI t ra eR rk⟩)).deliver lt
      (.respDone eI eR (helloOf kA t)) eph now =
    (initDoneChan kA accA ra ka ht eI t eR rk now, {}) :=
  Chan.deliver_next_promote _ lt _ eph now _ _ _ none rk (Transp.none _ _) (Transp.none _ _) rfl rfl
    (Sess.init_deliver_respDone kA eI t ra eR rk now hn) rfl rfl rfl hacc

/-! ### three reliable round trips -/

/-- the responder side after the exchange -/
def respDoneChan (B : Chan) (kA : KeyId) (eI t eR : Nat) : Chan :=
  { B with remoteKey := some kA, lastReceived := t + 2, remoteTimestamp := t, prev := B.cur,
           cur := some ⟨.initHello eI (helloOf kA t), respS3 B.key eR (t + 1 + B.rejectAfter) eI (helloOf kA t)⟩,
           next := none, waiting := 0 }

set_option linter.unusedSimpArgs false in
theorem reliableSuffix_spec (kA : KeyId) (accA : KeyId → Bool) (ra ka ht : Nat) (lt : IdLt) (eI t eph : Nat) (B : Chan)
    (hB : RespPre B kA eI t) (hra : 2 ≤ ra) (hrb : 1 ≤ B.rejectAfter) (hacc : accA B.key = true) :
    reliableSuffix lt ((Chan.fresh kA accA ra ka ht).onRekey lt eI t) B eph t =
    (initDoneChan kA accA ra ka ht eI t (eph + 1) B.key (t + 2), respDoneChan B kA eI t (eph + 1)) := by
  unfold reliableSuffix
  rw [init_step0, init_onHandshakeAt]
  simp only [exchangeRound, Chan.deliverAll, List.foldl, List.nil_append]
  rw [resp_step1 B lt kA eI t (eph + 1) (t + 1) hB]
  simp only [Option.toList, List.foldl, List.nil_append]
  rw [init_step1 kA accA ra ka ht lt eI t (eph + 1) B.key eph (t + 1) (by omega)]
  simp only [Option.toList, List.foldl, List.nil_append]
  rw [resp_step2 B lt kA eI t (eph + 1) (t + 1 + B.rejectAfter) (eph + 3) (t + 2) hB (by omega)]
  simp only [Option.toList, List.foldl, List.nil_append]
  rw [init_step2 kA accA ra ka ht lt eI t (eph + 1) B.key (eph + 2) (t + 2) (by omega) hacc]
  rfl

theorem established_spec (kA : KeyId) (accA : KeyId → Bool) (ra ka ht : Nat) (lt : IdLt) (eI t eR : Nat) (B : Chan)
    (p : Bytes) (hB : RespPre B kA eI t) (hra : 4 ≤ ra) (hka : 2 ≤ ka) (hrb : 3 ≤ B.rejectAfter) :
    Established lt (initDoneChan kA accA ra ka ht eI t eR B.key (t + 2)) (respDoneChan B kA eI t eR) (t + 4) p := by
  refine ⟨rfl, rfl, { initDoneChan kA accA ra ka ht eI t eR B.key (t + 2) with
      cur := some ⟨.initHello eI (helloOf kA t), ((initS4 kA eI t ra eR B.key).send p (t + 4)).1⟩ },
    .data eI eR (helloOf kA t) .i2r 16 p, ?_, ?_⟩
  · rw [Chan.send_cur (initDoneChan kA accA ra ka ht eI t eR B.key (t + 2)) p (t + 4) (.initHello eI (helloOf kA t))
      (initS4 kA eI t ra eR B.key) rfl rfl rfl (by show t + 4 ≤ t + ra; omega)
      (by show t + 4 - (t + 2) ≤ ka; omega)]
    rw [Sess.init_send kA eI t ra eR B.key p (t + 4) (by omega)]
  · refine Chan.deliver_cur_app (respDoneChan B kA eI t eR) lt _ 0 (t + 4) (.initHello eI (helloOf kA t))
      (respS3 B.key eR (t + 1 + B.rejectAfter) eI (helloOf kA t)) p ?_ rfl rfl ?_ rfl
    · intro se hse
      obtain ⟨-, hi, h3, e, he, hne⟩ := hB.cur se hse
      exact Sess.foreign_data se.sess e eI eR _ _ 16 p _ hi he hne (by omega)
    · exact Sess.resp_deliver_data B.key eR (t + 1 + B.rejectAfter) eI (helloOf kA t) p (t + 4) (by omega)

/-! ### the scenarios -/

theorem RespPre.fresh (kA kB : KeyId) (ra ka ht eI t : Nat) :
    RespPre (Chan.fresh kB (fun k => k == kA) ra ka ht) kA eI t :=
  ⟨rfl, fun _ h => (by cases h), fun _ h => (by cases h), Nat.zero_le _, by simp [Chan.checkKey, Chan.fresh]⟩

/-- three reliable round trips against any admissible responder state establish the connection -/
theorem established_run (kA : KeyId) (accA : KeyId → Bool) (ra ka ht : Nat) (lt : IdLt) (eI t eph : Nat) (B : Chan)
    (p : Bytes) (now : Nat) (hB : RespPre B kA eI t) (hra : 4 ≤ ra) (hka : 2 ≤ ka) (hrb : 3 ≤ B.rejectAfter)
    (hacc : accA B.key = true) (hnow : now = t + 4) :
    Established lt (reliableSuffix lt ((Chan.fresh kA accA ra ka ht).onRekey lt eI t) B eph t).1
      (reliableSuffix lt ((Chan.fresh kA accA ra ka ht).onRekey lt eI t) B eph t).2 now p := by
  subst hnow
  rw [reliableSuffix_spec kA accA ra ka ht lt eI t eph B hB (by omega) (by omega) hacc]
  exact established_spec kA accA ra ka ht lt eI t (eph + 1) B p hB hra hka hrb

theorem establish_fresh (kA kB : KeyId) (ra ka ht : Nat) (lt : IdLt) (t0 : Nat) (p : Bytes) :
    EstablishFresh kA kB ra ka ht lt t0 p := by
  intro hra hka _hht
  simp only []
  exact established_run kA (fun k => k == kB) ra ka ht lt 100 t0 102 _ p (t0 + 4) (RespPre.fresh kA kB ra ka ht 100 t0)
    (by omega) (by omega) (by show 3 ≤ ra; omega) (by simp [Chan.fresh]) rfl

/-- (a) the responder after a completed exchange, facing a restarted initiator -/
theorem RespPre.established (kA kB : KeyId) (ra ka ht t0 : Nat) :
    RespPre (respDoneChan (Chan.fresh kB (fun k => k == kA) ra ka ht) kA 100 t0 103) kA 200 (t0 + 5) := by
  refine ⟨rfl, ?_, fun _ h => (by cases h), ?_, ?_⟩
  · intro se hse
    simp only [respDoneChan, Option.some.injEq] at hse
    subst hse
    refine ⟨?_, rfl, rfl, 100, rfl, by decide⟩
    simp
  · show t0 ≤ t0 + 5; omega
  · simp [Chan.checkKey, respDoneChan]

/-- (b) the responder that has only seen the first InitHello, facing a restarted initiator -/
theorem RespPre.half (kA kB : KeyId) (ra ka ht t0 exp : Nat) :
    RespPre { Chan.fresh kB (fun k => k == kA) ra ka ht with
      next := some ⟨.initHello 100 (helloOf kA t0), respS1 kB 102 exp 100 (helloOf kA t0)⟩ } kA 200 (t0 + 5) := by
  refine ⟨rfl, fun _ h => (by cases h), ?_, Nat.zero_le _, by simp [Chan.checkKey, Chan.fresh]⟩
  intro se hse
  simp only [Option.some.injEq] at hse
  subst hse
  refine ⟨by simp, rfl, ?_⟩
  show t0 < t0 + 5; omega

theorem establish_after_restart (kA kB : KeyId) (ra ka ht : Nat) (lt : IdLt) (t0 : Nat) (p : Bytes) :
    EstablishAfterRestart kA kB ra ka ht lt t0 p := by
  intro hra hka _hht
  simp only []
  constructor
  · rw [reliableSuffix_spec kA (fun k => k == kB) ra ka ht lt 100 t0 102 _ (RespPre.fresh kA kB ra ka ht 100 t0)
      (by omega) (by show 1 ≤ ra; omega) (by simp [Chan.fresh])]
    exact established_run kA (fun k => k == kB) ra ka ht lt 200 (t0 + 5) 202 _ p (t0 + 9)
      (RespPre.established kA kB ra ka ht t0) (by omega) (by omega) (by show 3 ≤ ra; omega)
      (by simp [Chan.fresh, respDoneChan]) rfl
  · rw [init_step0 kA _ ra ka ht lt 100 t0, init_onHandshakeAt]
    simp only [Chan.deliverAll, List.foldl, List.nil_append]
    rw [resp_step1 _ lt kA 100 t0 102 (t0 + 1) (RespPre.fresh kA kB ra ka ht 100 t0)]
    exact established_run kA (fun k => k == kB) ra ka ht lt 200 (t0 + 5) 202 _ p (t0 + 9)
      (RespPre.half kA kB ra ka ht t0 (t0 + 1 + ra)) (by omega) (by omega) (by show 3 ≤ ra; omega)
      (by simp [Chan.fresh]) rfl

end P2PVerif.P2PKE
