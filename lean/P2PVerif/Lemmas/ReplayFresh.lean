import P2PVerif.Lemmas.Replay
/-! Liveness half of the replay filter: a counter above everything seen so far is accepted.
    `Fresh f`: the ring has its 128 blocks and, in the block of `f.last`, no bit above `f.last` is set. -/
namespace P2PVerif.Replay

structure Fresh (f : Filter) : Prop where
  size : f.ring.size = 128
  hi : ∀ b, f.last % 64 < b → (f.ring.getD ((f.last / 64) % 128) 0).testBit b = false

theorem empty_fresh : Fresh Filter.empty := by
  refine ⟨(Array.size_replicate : (Array.replicate 128 0).size = 128), ?_⟩
  intro b _
  simp [Filter.empty, Array.getD_eq_getD_getElem?]

theorem clear_getD_zero (ring : Array Nat) (s n j : Nat) (hs : ring.size = 128)
    (h : ∃ i, s < i ∧ i ≤ s + n ∧ i % 128 = j) : (clear ring s n).getD j 0 = 0 := by
  induction n with
  | zero => obtain ⟨i, h1, h2, _⟩ := h; omega
  | succ n ih =>
    obtain ⟨i, h1, h2, h3⟩ := h
    have hj : j < 128 := by omega
    simp only [clear]
    by_cases hji : (s + (n + 1)) % 128 = j
    · rw [hji, Array.getD_eq_getD_getElem?,
        Array.getElem?_setIfInBounds_self_of_lt (by rw [clear_size, hs]; exact hj)]
      rfl
    · rw [Array.getD_eq_getD_getElem?, Array.getElem?_setIfInBounds_ne hji,
        ← Array.getD_eq_getD_getElem?]
      apply ih
      refine ⟨i, h1, ?_, h3⟩
      by_cases hi : i = s + (n + 1)
      · subst hi; exact absurd h3 hji
      · omega

theorem testBit_one_shift (bit b : Nat) (h : b ≠ bit) : (1 <<< bit).testBit b = false := by
  rw [Nat.one_shiftLeft, Nat.testBit_two_pow]
  simp; omega

theorem or_shift_ne (old bit : Nat) (h : old.testBit bit = false) : (old != (old ||| (1 <<< bit))) = true := by
  have : old ≠ old ||| (1 <<< bit) := by
    intro heq
    have := testBit_or_shift old bit
    rw [← heq, h] at this
    exact Bool.noConfusion this
  simpa using this

/-- the `last` field after `validate`: unchanged, or the counter (when it moved the window forward) -/
theorem validate_last (f : Filter) (c lim : Nat) :
    (validate f c lim).1.last = f.last ∨ ((validate f c lim).1.last = c ∧ f.last < c ∧ c < lim) := by
  unfold validate
  by_cases hlim : c ≥ lim
  · simp [hlim]
  · simp only [hlim, if_false]
    by_cases hgt : c > f.last
    · right; simp [hgt]; omega
    · simp only [hgt, if_false]
      by_cases hwin : f.last - c > windowSize
      · simp [hwin]
      · simp [hwin]

theorem validate_fresh (f : Filter) (c lim : Nat) (hf : Fresh f) : Fresh (validate f c lim).1 := by
  unfold validate
  by_cases hlim : c ≥ lim
  · simp [hlim, hf]
  · simp only [hlim, if_false]
    by_cases hgt : c > f.last
    · simp only [hgt, if_true]
      refine ⟨by simp [clear_size, hf.size], ?_⟩
      intro b hb
      replace hb : c % 64 < b := hb
      show ((((clear f.ring (f.last / 64) (min (c / 64 - f.last / 64) 128)).setIfInBounds (c / 64 % 128) _)).getD
        (c / 64 % 128) 0).testBit b = false
      rw [Array.getD_eq_getD_getElem?,
        Array.getElem?_setIfInBounds_self_of_lt (by rw [clear_size, hf.size]; omega)]
      simp only [Option.getD_some, Nat.testBit_or]
      rw [testBit_one_shift _ _ (by omega), Bool.or_false]
      by_cases hblk : c / 64 = f.last / 64
      · have h0 : min (c / 64 - f.last / 64) 128 = 0 := by omega
        rw [h0, hblk]
        simp only [clear]
        exact hf.hi b (by omega)
      · rw [clear_getD_zero _ _ _ _ hf.size]
        · simp
        · by_cases hfar : c / 64 - f.last / 64 ≤ 128
          · exact ⟨c / 64, by omega, by omega, rfl⟩
          · -- every block is cleared
            refine ⟨f.last / 64 + 1 + (c / 64 % 128 + 128 - (f.last / 64 + 1) % 128) % 128, by omega, by omega, by omega⟩
    · simp only [hgt, if_false]
      by_cases hwin : f.last - c > windowSize
      · simp [hwin, hf]
      · simp only [hwin, if_false]
        refine ⟨by simp [hf.size], ?_⟩
        intro b hb
        replace hb : f.last % 64 < b := hb
        show ((f.ring.setIfInBounds (c / 64 % 128) _).getD (f.last / 64 % 128) 0).testBit b = false
        have hw : f.last - c ≤ 127 * 64 := by
          have : windowSize = 127 * 64 := by decide
          omega
        by_cases hblk : c / 64 % 128 = f.last / 64 % 128
        · have hsame : c / 64 = f.last / 64 := by omega
          rw [← hblk, Array.getD_eq_getD_getElem?,
            Array.getElem?_setIfInBounds_self_of_lt (by rw [hf.size]; omega)]
          simp only [Option.getD_some, Nat.testBit_or]
          rw [testBit_one_shift _ _ (by omega), Bool.or_false, hblk]
          exact hf.hi b hb
        · rw [Array.getD_eq_getD_getElem?, Array.getElem?_setIfInBounds_ne hblk,
            ← Array.getD_eq_getD_getElem?]
          exact hf.hi b hb

/-- a counter above everything seen so far (and below the limit) is accepted -/
theorem validate_accepts (f : Filter) (c lim : Nat) (hf : Fresh f) (hgt : f.last < c) (hlim : c < lim) :
    (validate f c lim).2 = true := by
  unfold validate
  have h1 : ¬ c ≥ lim := by omega
  simp only [h1, if_false, show c > f.last from hgt, if_true]
  apply or_shift_ne
  by_cases hblk : c / 64 = f.last / 64
  · have h0 : min (c / 64 - f.last / 64) 128 = 0 := by omega
    rw [h0, hblk]
    simp only [clear]
    exact hf.hi _ (by omega)
  · rw [clear_getD_zero _ _ _ _ hf.size]
    · simp
    · by_cases hfar : c / 64 - f.last / 64 ≤ 128
      · exact ⟨c / 64, by omega, by omega, rfl⟩
      · refine ⟨f.last / 64 + 1 + (c / 64 % 128 + 128 - (f.last / 64 + 1) % 128) % 128, by omega, by omega, by omega⟩

end P2PVerif.Replay
