import P2PVerif.Gen.Src
import P2PVerif.Lemmas.SrcLoops
import P2PVerif.Lemmas.SrcMux
/-! The regenerated `oids` functions (f/x509/oids/oids.go): an algorithm identifier is stored as one 8-byte big-endian
    word per arc; `At` and `ASN1` read back exactly the arcs `New` was given. -/
namespace P2PVerif.Src
open P2PVerif P2PVerif.Go P2PVerif.SrcKad P2PVerif.SrcMux

/-- the 8 bytes `New` writes for one arc -/
def arc8 (x : Int) : Go.Bytes := hdr64 (Go.toU64 x)

theorem arc8_length (x : Int) : (arc8 x).length = 8 := rfl

theorem New_eq (xs : List Int) : oids.New xs = .ok { s := (xs.map arc8).flatten } := by
  unfold oids.New
  simp only [bind_ok]
  rw [Go.forEach_eq_pure _ (fun _ x (sb : Go.Bytes) => .next (sb ++ arc8 x))]
  · have : ∀ (l : List Int) (i : Int) (acc : Go.Bytes),
        Go.pureForEach (ρ := oids.OIDT) l i acc (fun _ x sb => .next (sb ++ arc8 x)) = .done (acc ++ (l.map arc8).flatten) := by
      intro l
      induction l with
      | nil => intro i acc; simp [Go.pureForEach]
      | cons x l ih => intro i acc; simp [Go.pureForEach, ih, List.append_assoc]
    rw [this]
    simp
  · intro j x s _
    simp [Go.bePutU64, Go.splice, arc8, hdr64]

theorem arcs_length (xs : List Int) : ((xs.map arc8).flatten).length = 8 * xs.length := by
  induction xs with
  | nil => rfl
  | cons x xs ih => simp only [List.map_cons, List.flatten_cons, List.length_append, ih, arc8_length, List.length_cons]; omega

theorem Len_New (xs : List Int) : oids.OID.Len { s := (xs.map arc8).flatten } = .ok (xs.length : Int) := by
  unfold oids.OID.Len
  simp only [pure_eq, Go.len, arcs_length]
  congr 1
  rw [show ((8 * xs.length : Nat) : Int) = 8 * (xs.length : Int) by omega]
  exact Int.mul_tdiv_cancel_left _ (by decide)

theorem beU64_hdr64 (c : UInt64) (rest : Go.Bytes) : Go.beU64 (hdr64 c ++ rest) = .ok c := by
  simp only [hdr64, List.cons_append, List.nil_append, Go.beU64, pure_eq, byteOf_toNat]
  congr 1
  have := c.toNat_lt
  have e : ((((((c.toNat / 72057594037927936 % 256 * 256 + c.toNat / 281474976710656 % 256) * 256 + c.toNat / 1099511627776 % 256) * 256
      + c.toNat / 4294967296 % 256) * 256 + c.toNat / 16777216 % 256) * 256 + c.toNat / 65536 % 256) * 256 + c.toNat / 256 % 256) * 256
      + c.toNat % 256 = c.toNat := by omega
  rw [e]; simp

theorem drop_arcs (xs : List Int) (k : Nat) : ((xs.map arc8).flatten).drop (8 * k) = ((xs.drop k).map arc8).flatten := by
  induction xs generalizing k with
  | nil => simp
  | cons x xs ih =>
    cases k with
    | zero => simp
    | succ k =>
      simp only [List.map_cons, List.flatten_cons, List.drop_succ_cons]
      rw [show 8 * (k + 1) = 8 + 8 * k by omega, ← List.drop_drop, List.drop_left' (arc8_length x)]
      exact ih k

/-- `At` reads back the arc `New` stored (as the 64-bit word it was stored as) -/
theorem At_New (xs : List Int) (k : Nat) (hk : k < xs.length) :
    oids.OID.At { s := (xs.map arc8).flatten } (k : Int) = .ok (Go.toU64 (xs[k])) := by
  unfold oids.OID.At
  have hlen := arcs_length xs
  show (Go.slice ((xs.map arc8).flatten) ((k : Int) * 8) ((k : Int) * 8 + 8) >>= fun t_2 => Go.beU64 t_2) = _
  rw [Go.slice_ok _ _ _ (by omega) (by omega) (by rw [hlen]; omega)]
  simp only [bind_ok]
  have h1 : ((k : Int) * 8).toNat = 8 * k := by omega
  have h2 : ((k : Int) * 8 + 8 - (k : Int) * 8).toNat = 8 := by omega
  rw [h1, h2, drop_arcs, List.drop_eq_getElem_cons hk]
  simp only [List.map_cons, List.flatten_cons]
  rw [List.take_append_of_le_length (by simp [arc8_length]), List.take_of_length_le (by simp [arc8_length])]
  have := beU64_hdr64 (Go.toU64 xs[k]) []
  simpa [arc8] using this

end P2PVerif.Src

namespace P2PVerif.Src
open P2PVerif P2PVerif.Go P2PVerif.SrcKad P2PVerif.SrcMux

/-- a `for i := i0; i < n; i++` loop on fuel whose body is a total step: the fold over the index range -/
theorem loop_counter {α ρ : Type} (n : Nat) (step : α → Nat → α)
    (cond : α × Int → Go.M Bool) (body : α × Int → Go.M (Go.Ctl (α × Int) ρ)) (post : α × Int → Go.M (α × Int))
    (hc : ∀ acc (i : Nat), cond (acc, (i : Int)) = .ok (decide ((i : Int) < (n : Int))))
    (hb : ∀ acc (i : Nat), i < n → body (acc, (i : Int)) = .ok (.next (step acc i, (i : Int))))
    (hp : ∀ acc (i : Nat), post (acc, (i : Int)) = .ok (acc, ((i + 1 : Nat) : Int))) :
    ∀ (k i : Nat) (acc : α) (fuel : Nat), i + k = n → k < fuel →
      Go.loop fuel (acc, (i : Int)) cond body post = .ok (.done ((List.range' i k).foldl step acc, (n : Int))) := by
  intro k
  induction k with
  | zero =>
    intro i acc fuel hik hf
    cases fuel with
    | zero => omega
    | succ f =>
      have : ¬ ((i : Int) < (n : Int)) := by omega
      simp only [Go.loop, hc, bind_ok, this, decide_false, Bool.false_eq_true, if_false, List.range'_zero, List.foldl_nil, pure_eq]
      congr 3
      omega
  | succ k ih =>
    intro i acc fuel hik hf
    cases fuel with
    | zero => omega
    | succ f =>
      have hlt : (i : Int) < (n : Int) := by omega
      simp only [Go.loop, hc, bind_ok, hlt, decide_true, if_true, hb acc i (by omega), hp]
      rw [ih (i + 1) (step acc i) f (by omega) (by omega)]
      simp [List.range'_succ]

/-- `ASN1` yields the arcs `New` stored, each as `int(uint64(x))` -/
theorem ASN1_New (xs : List Int) (hlen : xs.length < 2 ^ 64) :
    oids.OID.ASN1 { s := (xs.map arc8).flatten } = .ok (xs.map (fun x => Go.intOfU64 (Go.toU64 x))) := by
  unfold oids.OID.ASN1
  have hL := fun cond body post hc hb hp =>
    loop_counter (ρ := List Int) xs.length (fun (acc : List Int) i => acc ++ [Go.intOfU64 (Go.toU64 (xs.getD i 0))])
      cond body post hc hb hp xs.length 0 [] Go.fuel (by omega) (by unfold Go.fuel; omega)
  simp only [Int.natCast_zero] at hL
  simp only [bind_ok]
  rw [hL _ _ _ ?hc ?hb ?hp]
  case hc => intro acc i; simp only [Len_New, bind_ok, pure_eq]
  case hb =>
    intro acc i hi
    simp only [At_New xs i hi, bind_ok, pure_eq, List.getD_eq_getElem?_getD, List.getElem?_eq_getElem hi, Option.getD_some]
  case hp => intro acc i; simp only [pure_eq]; rfl
  simp only [bind_ok, pure_eq]
  congr 1
  have : ∀ (k i : Nat) (acc : List Int), i + k = xs.length →
      (List.range' i k).foldl (fun (acc : List Int) i => acc ++ [Go.intOfU64 (Go.toU64 (xs.getD i 0))]) acc
        = acc ++ ((xs.drop i).map (fun x => Go.intOfU64 (Go.toU64 x))) := by
    intro k
    induction k with
    | zero => intro i acc h; simp [List.drop_eq_nil_of_le (by omega : xs.length ≤ i)]
    | succ k ih =>
      intro i acc h
      have hi : i < xs.length := by omega
      rw [List.range'_succ, List.foldl_cons, ih (i + 1) _ (by omega), List.drop_eq_getElem_cons hi]
      simp only [List.getD_eq_getElem?_getD, List.getElem?_eq_getElem hi, Option.getD_some, List.map_cons, List.append_assoc,
        List.singleton_append]
  simpa using this xs.length 0 [] (by omega)

/-- for arcs that are non-negative Go `int`s, `ASN1 (New xs) = xs` -/
theorem ASN1_New_id (xs : List Int) (hlen : xs.length < 2 ^ 64) (h : ∀ x ∈ xs, 0 ≤ x ∧ x < 9223372036854775808) :
    (oids.New xs >>= oids.OID.ASN1) = .ok xs := by
  rw [New_eq]
  simp only [bind_ok, ASN1_New xs hlen]
  congr 1
  have : ∀ x, 0 ≤ x ∧ x < 9223372036854775808 → Go.intOfU64 (Go.toU64 x) = x := by
    intro x ⟨h0, h1⟩
    unfold Go.intOfU64 Go.toU64
    have e : (x % 18446744073709551616).toNat = x.toNat := by omega
    rw [e, u64_ofNat_toNat _ (by omega)]
    have : x.toNat < 9223372036854775808 := by omega
    simp only [this, if_true]
    omega
  clear hlen
  induction xs with
  | nil => rfl
  | cons x xs ih =>
    simp only [List.map_cons]
    rw [this x (h x (by simp)), ih (fun y hy => h y (by simp [hy]))]

end P2PVerif.Src
