import P2PVerif.Model.Replay
namespace P2PVerif.Replay

/-- bit for counter c is set in ring -/
def bitSet (ring : Array Nat) (c : Nat) : Prop :=
  (ring.getD ((c / 64) % 128) 0).testBit (c % 64) = true

structure Inv (f : Filter) (S : List Nat) : Prop where
  size : f.ring.size = 128
  le : ∀ c ∈ S, c ≤ f.last
  bits : ∀ c ∈ S, f.last - c ≤ windowSize → bitSet f.ring c

theorem clear_size (ring : Array Nat) (s n : Nat) : (clear ring s n).size = ring.size := by
  induction n with
  | zero => rfl
  | succ n ih => simp [clear, ih]

theorem clear_getD (ring : Array Nat) (s n j : Nat) (hj : j < 128) (hs : ring.size = 128)
    (h : ∀ i, s < i → i ≤ s + n → i % 128 ≠ j) :
    (clear ring s n).getD j 0 = ring.getD j 0 := by
  induction n with
  | zero => rfl
  | succ n ih =>
    have := h (s + (n+1)) (by omega) (by omega)
    simp only [clear]
    rw [Array.getD_eq_getD_getElem?, Array.getElem?_setIfInBounds_ne (by omega)]
    rw [← Array.getD_eq_getD_getElem?]
    exact ih (fun i h1 h2 => h i h1 (by omega))

end P2PVerif.Replay

namespace P2PVerif.Replay

theorem testBit_or_shift (old bit : Nat) : (old ||| (1 <<< bit)).testBit bit = true := by
  simp [Nat.testBit_or, Nat.testBit_shiftLeft]

theorem or_shift_eq_of_testBit (old bit : Nat) (h : old.testBit bit = true) :
    old ||| (1 <<< bit) = old := by
  apply Nat.eq_of_testBit_eq
  intro i
  simp only [Nat.testBit_or, Nat.testBit_shiftLeft]
  by_cases hi : i = bit
  · subst hi; simp [h]
  · have : (decide (i ≥ bit) && Nat.testBit 1 (i - bit)) = false := by
      by_cases hge : i ≥ bit
      · have : i - bit ≠ 0 := by omega
        have h1 : Nat.testBit 1 (i - bit) = false := by
          cases hh : Nat.testBit 1 (i - bit) with
          | false => rfl
          | true => exact absurd (Nat.testBit_one_eq_true_iff_self_eq_zero.mp hh) this
        simp [h1]
      · simp [hge]
    simp [this]

/-- the check-and-set step preserves the invariant and reports `false` on a set bit -/
theorem step_spec (f : Filter) (S : List Nat) (c : Nat) (hinv : Inv f S) (hle : c ≤ f.last) :
    let ib := (c / 64) % 128
    let old := f.ring.getD ib 0
    let new := old ||| (1 <<< (c % 64))
    Inv { f with ring := f.ring.setIfInBounds ib new } (c :: S) ∧
    (c ∈ S → f.last - c ≤ windowSize → (old != new) = false) := by
  intro ib old new
  have hib : ib < 128 := Nat.mod_lt _ (by decide)
  refine ⟨⟨by simp [hinv.size], ?_, ?_⟩, ?_⟩
  · intro x hx
    rcases List.mem_cons.mp hx with rfl | hx
    · exact hle
    · exact hinv.le x hx
  · intro x hx hw
    show bitSet _ x
    unfold bitSet
    by_cases hb : (x / 64) % 128 = ib
    · rw [hb, Array.getD_eq_getD_getElem?, Array.getElem?_setIfInBounds_self_of_lt (by rw [hinv.size]; exact hib)]
      simp only [Option.getD_some]
      by_cases hbit : x % 64 = c % 64
      · rw [hbit]; exact testBit_or_shift _ _
      · rcases List.mem_cons.mp hx with rfl | hx
        · exact absurd rfl hbit
        · have := hinv.bits x hx hw
          unfold bitSet at this
          rw [hb] at this
          rw [Array.getD_eq_getD_getElem?] at this
          simp [new, Nat.testBit_or, this, old, Array.getD_eq_getD_getElem?]
    · rcases List.mem_cons.mp hx with rfl | hx
      · exact absurd rfl hb
      · have := hinv.bits x hx hw
        unfold bitSet at this
        rw [Array.getD_eq_getD_getElem?, Array.getElem?_setIfInBounds_ne (Ne.symm hb), ← Array.getD_eq_getD_getElem?]
        exact this
  · intro hc hw
    have := hinv.bits c hc hw
    unfold bitSet at this
    have h2 : new = old := or_shift_eq_of_testBit _ _ this
    simp [h2]

end P2PVerif.Replay

namespace P2PVerif.Replay

theorem validate_spec (f : Filter) (S : List Nat) (c lim : Nat) (hinv : Inv f S) :
    Inv (validate f c lim).1 (if (validate f c lim).2 then c :: S else S) ∧
    ((validate f c lim).2 = true → c ∉ S) := by
  unfold validate
  by_cases hlim : c ≥ lim
  · simp [hlim, hinv]
  · simp only [hlim, if_false]
    by_cases hgt : c > f.last
    · -- window moves forward
      simp only [hgt, if_true]
      have hnot : c ∉ S := fun h => by have := hinv.le c h; omega
      let f1 : Filter := { last := c, ring := clear f.ring (f.last / 64) (min (c / 64 - f.last / 64) 128) }
      have hinv1 : Inv f1 S := by
        refine ⟨by simp [f1, clear_size, hinv.size], ?_, ?_⟩
        · intro x hx; have := hinv.le x hx; show x ≤ c; omega
        · intro x hx hw
          have hxl := hinv.le x hx
          have hw' : c - x ≤ windowSize := hw
          unfold windowSize ringBlocks blockBits at hw'
          have hold := hinv.bits x hx (by unfold windowSize ringBlocks blockBits; omega)
          unfold bitSet at hold ⊢
          show ((clear f.ring (f.last / 64) (min (c / 64 - f.last / 64) 128)).getD (x / 64 % 128) 0).testBit (x % 64) = true
          rw [clear_getD _ _ _ _ (Nat.mod_lt _ (by decide)) hinv.size]
          · exact hold
          · intro i h1 h2 heq
            omega
      have := step_spec f1 S c hinv1 (Nat.le_refl _)
      simp only at this
      refine ⟨?_, fun _ => hnot⟩
      split
      · exact this.1
      · -- bit was already set: invariant for S still holds on updated ring
        exact ⟨this.1.size, fun x hx => this.1.le x (List.mem_cons_of_mem _ hx),
               fun x hx hw => this.1.bits x (List.mem_cons_of_mem _ hx) hw⟩
    · simp only [hgt, if_false]
      by_cases hwin : f.last - c > windowSize
      · simp [hwin, hinv]
      · simp only [hwin, if_false]
        have := step_spec f S c hinv (by omega)
        simp only at this
        refine ⟨?_, ?_⟩
        · split
          · exact this.1
          · exact ⟨this.1.size, fun x hx => this.1.le x (List.mem_cons_of_mem _ hx),
               fun x hx hw => this.1.bits x (List.mem_cons_of_mem _ hx) hw⟩
        · intro hok hc
          have h2 := this.2 hc (by omega)
          rw [h2] at hok
          exact Bool.noConfusion hok

/-- C02 (replay half): over ANY sequence of counters, no counter value is accepted twice. -/
theorem run_nodup (f : Filter) (S : List Nat) (lim : Nat) (cs : List Nat) (hinv : Inv f S) :
    (run f lim cs).2.Nodup ∧ ∀ c ∈ (run f lim cs).2, c ∉ S := by
  induction cs generalizing f S with
  | nil => simp [run]
  | cons c cs ih =>
    have hv := validate_spec f S c lim hinv
    simp only [run]
    cases hok : (validate f c lim).2
    · simp only [hok] at hv
      have := ih (validate f c lim).1 S (by simpa using hv.1)
      simpa using this
    · simp only [hok] at hv
      have := ih (validate f c lim).1 (c :: S) (by simpa using hv.1)
      have hc : c ∉ S := hv.2 trivial
      refine ⟨?_, ?_⟩
      · simp only [if_true, List.nodup_cons]
        exact ⟨fun h => by have := this.2 c h; simp at this, this.1⟩
      · intro x hx
        simp only [if_true, List.mem_cons] at hx
        rcases hx with rfl | hx
        · exact hc
        · have := this.2 x hx; simp at this; exact this.2

theorem empty_inv : Inv Filter.empty [] :=
  { size := (Array.size_replicate : (Array.replicate 128 0).size = 128), le := (fun _ h => nomatch h), bits := fun _ h _ => nomatch h }

theorem accepted_at_most_once (lim : Nat) (cs : List Nat) : (run Filter.empty lim cs).2.Nodup :=
  (run_nodup _ _ lim cs empty_inv).1

end P2PVerif.Replay
