import P2PVerif.Model.Distance
/-! p/kademlia/cache.go: the bucketed cache. Buckets are association lists (Go: maps), times are `Nat`
    with 0 = Go's zero `time.Time`. Map iteration order only matters for the choice among equally new
    entries in `bucket.evict`; the executable step takes the implementation's choice and checks it. -/
namespace P2PVerif.Kad
open P2PVerif

structure Entry where
  key : Bytes
  val : Bytes
  created : Nat
  expires : Nat
deriving DecidableEq, Repr

structure Bucket where
  entries : List Entry := []
  minExp : Nat := 0
deriving DecidableEq, Repr

structure Cache where
  locus : Bytes
  minPer : Nat
  max : Nat
  count : Nat := 0
  buckets : List Bucket := []
deriving Repr

/-- `Entry.IsExpired` -/
def Entry.isExpired (e : Entry) (now : Nat) : Bool := e.expires != 0 && e.expires < now

def Bucket.get (b : Bucket) (key : Bytes) : Option Entry := b.entries.find? (·.key == key)

/-- `updateMinExpires` -/
def updMin (m x : Nat) : Nat := if x = 0 then m else if m = 0 ∨ x < m then x else m

/-- `bucket.put` -/
def Bucket.put (b : Bucket) (e : Entry) : Bucket :=
  { entries := if b.entries.any (·.key == e.key) then b.entries.map (fun x => if x.key == e.key then e else x)
               else b.entries ++ [e],
    minExp := updMin b.minExp e.expires }

/-- `bucket.delete` -/
def Bucket.delete (b : Bucket) (key : Bytes) : Bucket × Option Entry :=
  match b.get key with
  | none => (b, none)
  | some e =>
    let es := b.entries.filter (·.key != key)
    ({ entries := es, minExp := es.foldl (fun m x => updMin m x.expires) 0 }, some e)

/-- `bucket.expire` -/
def Bucket.expire (b : Bucket) (now : Nat) : Bucket × List Entry :=
  ({ b with entries := b.entries.filter (fun e => !e.isExpired now) }, b.entries.filter (·.isExpired now))

def Cache.new (locus : Bytes) (max minPer : Nat) : Cache := { locus, minPer, max }

/-- `NewCache` panics unless this holds -/
def Cache.newOk (locus : Bytes) (max minPer : Nat) : Bool := minPer * 8 * locus.length ≤ max

def Cache.get (c : Cache) (key : Bytes) : Option Entry :=
  match c.buckets[bucketIndex c.locus key]? with
  | some b => b.get key
  | none => none

def Cache.entries (c : Cache) : List Entry := (c.buckets.map (·.entries)).flatten

/-- index of the first bucket holding more than `minPer` entries (`Cache.evict`'s loop) -/
def firstOver (minPer : Nat) : List Bucket → Nat → Option Nat
  | [], _ => none
  | b :: bs, i => if b.entries.length > minPer then some i else firstOver minPer bs (i + 1)

def maxCreated (es : List Entry) : Nat := es.foldl (fun m e => Nat.max m e.created) 0

inductive UpdRes
  | ok (c : Cache) (evicted : Option Entry) (added : Bool)
  /-- the implementation's reported victim is not one the code could have chosen -/
  | inadmissible
deriving Repr

/-- `Cache.Update` with the new entry already computed by the caller's function (`e.key = key`).
    `victimKey` is the key of the entry the implementation reports as evicted (used only when an eviction
    happens, to resolve the choice among equally new entries of the victim bucket). -/
def Cache.update (c : Cache) (e : Entry) (victimKey : Bytes) : UpdRes :=
  if c.max = 0 then .ok c none false else
  let lz := bucketIndex c.locus e.key
  let bs := c.buckets ++ List.replicate (lz + 1 - c.buckets.length) {}
  let b := bs[lz]?.getD {}
  let existed := (b.get e.key).isSome
  let bs := bs.set lz (b.put e)
  let count := if existed then c.count else c.count + 1
  if count > c.max then
    match firstOver c.minPer bs 0 with
    | some n =>
      let vb := bs[n]?.getD {}
      match vb.get victimKey with
      | some v =>
        if v.created = maxCreated vb.entries then
          .ok { c with buckets := bs.set n { vb with entries := vb.entries.filter (·.key != victimKey) }, count := count - 1 }
            (some v) (e.key != v.key)
        else .inadmissible
      | none => .inadmissible
    | none =>
      -- every bucket is within its protected minimum: the entry just added is the one that goes
      let nb := b.put e
      .ok { c with buckets := bs.set lz { nb with entries := nb.entries.filter (·.key != e.key) }, count := count - 1 }
        (some e) false
  else .ok { c with buckets := bs, count := count } none (!existed)

/-- `Cache.Delete` -/
def Cache.delete (c : Cache) (key : Bytes) : Cache × Option Entry :=
  let i := bucketIndex c.locus key
  match c.buckets[i]? with
  | none => (c, none)
  | some b =>
    match b.delete key with
    | (_, none) => (c, none)
    | (b', some e) => ({ c with buckets := c.buckets.set i b', count := c.count - 1 }, some e)

/-- `Cache.Expire` : buckets whose recorded minimum expiry is before `now` (or unset) are swept -/
def Cache.expire (c : Cache) (now : Nat) : Cache × List Entry :=
  let rs := c.buckets.map (fun b => if b.minExp < now then b.expire now else (b, []))
  let out := (rs.map (·.2)).flatten
  ({ c with buckets := rs.map (·.1), count := c.count - out.length }, out)

/-- insertion sort by distance from `k` (the order `slices.SortFunc` must produce, up to ties) -/
def insertBy (k : Bytes) (e : Entry) : List Entry → List Entry
  | [] => [e]
  | x :: xs => if distanceCmp k x.key e.key == .gt then e :: x :: xs else x :: insertBy k e xs

def sortBy (k : Bytes) (es : List Entry) : List Entry := es.foldr (insertBy k) []

/-- the bucket visiting order of `Cache.ForEach` for a query sharing `z` leading bits with the locus,
    `d = Distance(locus, k)`, `n` buckets: bucket z and the buckets above it whose bit of `d` is set
    (ascending), then the buckets above z whose bit is clear (descending), then the buckets below z
    (descending). -/
def visitOrder (d : Bytes) (z n : Nat) : List Nat :=
  ((List.range n).filter (fun i => z ≤ i ∧ bitOr1 d i)) ++
  ((List.range n).reverse.filter (fun i => z < i ∧ !bitOr1 d i)) ++
  ((List.range n).reverse.filter (fun i => i < z))

/-- `Cache.ForEach` run to completion -/
def Cache.forEach (c : Cache) (k : Bytes) : List Entry :=
  let d := distance c.locus k
  let z := leadingZeros d
  (visitOrder d z c.buckets.length).flatMap (fun i => sortBy k ((c.buckets[i]?.getD {}).entries))

/-- `Cache.Closest` -/
def Cache.closest (c : Cache) (k : Bytes) : Option Entry := (c.forEach k).head?

/-- `Cache.ForEachCloser`: stops at the first entry that is not closer to `x` than the locus is -/
def Cache.forEachCloser (c : Cache) (x : Bytes) : List Entry :=
  (c.forEach x).takeWhile (fun e => distanceLt x e.key c.locus)

/-- `HasPrefix` for `nbits ≤ 8 * prefix.length` (beyond that it panics): `x` is long enough and its first `nbits`
    bits are those of `prefix`. The XOR buffer is as long as `x` and zero past the end of `prefix`. -/
def hasPrefix (x pfx : Bytes) (nbits : Nat) : Bool :=
  decide (nbits ≤ x.length * 8) &&
  decide (nbits ≤ leadingZeros (distance x pfx ++ List.replicate (x.length - pfx.length) 0))

/-- the number of bytes of the prefix `ForEachMatching` orders by: the bytes that hold the first `nbits` bits -/
def matchLen (nbits : Nat) : Nat := let l := nbits / 8; if nbits % 8 > 0 then l + 1 else l

/-- `Cache.ForEachMatching` run to completion; `none` = the call panics (the slice `prefix[:l]` is out of range, or
    `HasPrefix` is asked for more bits than the prefix has while there is an entry to test) -/
def Cache.forEachMatching (c : Cache) (pfx : Bytes) (nbits : Nat) : Option (List Entry) :=
  if matchLen nbits > pfx.length then none
  else
    let es := c.forEach (pfx.take (matchLen nbits))
    if !es.isEmpty && decide (nbits > pfx.length * 8) then none
    else some (es.filter (fun e => hasPrefix e.key pfx nbits))

end P2PVerif.Kad
