import P2PVerif.Model.Util
import P2PVerif.Gen.Facts
/-! peer.go: PeerID text encoding — unpadded base64 over the order-preserving alphabet `Base64Alphabet`
    (regenerated into `Gen.Facts`), decoded strictly with the exact-length check of `UnmarshalText`. -/
namespace P2PVerif.B64
open P2PVerif

def alphabet : List Char := Gen.Facts.base64Alphabet.toList

/-- 6-bit groups of a byte string (`Encoding.Encode` without padding) -/
def encodeSextets : Bytes → List Nat
  | a :: b :: c :: rest => [a / 4, (a % 4) * 16 + b / 16, (b % 16) * 4 + c / 64, c % 64] ++ encodeSextets rest
  | [a, b] => [a / 4, (a % 4) * 16 + b / 16, (b % 16) * 4]
  | [a] => [a / 4, (a % 4) * 16]
  | [] => []

/-- strict decoding of 6-bit groups: unused trailing bits must be zero -/
def decodeSextets : List Nat → Option Bytes
  | s0 :: s1 :: s2 :: s3 :: rest =>
    match decodeSextets rest with
    | some r => some ([s0 * 4 + s1 / 16, (s1 % 16) * 16 + s2 / 4, (s2 % 4) * 64 + s3] ++ r)
    | none => none
  | [s0, s1, s2] => if s2 % 4 = 0 then some [s0 * 4 + s1 / 16, (s1 % 16) * 16 + s2 / 4] else none
  | [s0, s1] => if s1 % 16 = 0 then some [s0 * 4 + s1 / 16] else none
  | [_] => none
  | [] => some []

def charOf (alpha : List Char) (s : Nat) : Char := alpha.getD s '?'
def indexOf? (alpha : List Char) (c : Char) : Option Nat :=
  let i := alpha.idxOf c
  if i < alpha.length then some i else none

/-- `PeerID.MarshalText` -/
def marshalText (alpha : List Char) (id : Bytes) : List Char := (encodeSextets id).map (charOf alpha)

/-- `PeerID.UnmarshalText`: exact length, every character in the alphabet, canonical, 32 bytes out -/
def unmarshalText (alpha : List Char) (t : List Char) : Option Bytes :=
  if t.length ≠ 43 then none else
  match t.mapM (indexOf? alpha) with
  | none => none
  | some ss =>
    match decodeSextets ss with
    | some bs => if bs.length = Gen.Facts.peerIDSize then some bs else none
    | none => none

/-- `bytes.Compare` on texts (code points) -/
def cmpChars : List Char → List Char → Ordering
  | [], [] => .eq
  | [], _ :: _ => .lt
  | _ :: _, [] => .gt
  | a :: as, b :: bs => if a < b then .lt else if b < a then .gt else cmpChars as bs

end P2PVerif.B64
