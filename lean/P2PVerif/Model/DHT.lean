import P2PVerif.Model.Distance
/-! p/kademlia/dht.go: `dhtIterate` and the four iterative operations built on it.
    The remote side is an arbitrary, possibly stateful and adversarial responder: a function of the call
    index and the contacted node. The executable form takes fuel; termination is a separate theorem. -/
namespace P2PVerif.DHT
open P2PVerif P2PVerif.Kad

structure NodeInfo where
  id : Bytes
  info : Bytes := []
deriving DecidableEq, Repr

/-- stable insertion sort by distance from `key` (`slices.SortFunc` with `DistanceLt`; ties are equal ids
    or keys too short to tell two ids apart) -/
def insertNode (key : Bytes) (x : NodeInfo) : List NodeInfo → List NodeInfo
  | [] => [x]
  | y :: ys => if distanceLt key x.id y.id then x :: y :: ys else y :: insertNode key x ys

def sortNodes (key : Bytes) (ns : List NodeInfo) : List NodeInfo := ns.foldr (insertNode key) []

/-- the enqueue loop at the end of one round of `dhtIterate` -/
def enqueue (key : Bytes) (node : NodeInfo) (seen : List Bytes) (queue : List NodeInfo) (new : List NodeInfo) :
    List NodeInfo :=
  new.foldl (fun q nn =>
    if !distanceLt key nn.id node.id then q            -- ignore peers that aren't actually closer
    else if seen.contains nn.id then q                  -- already contacted
    else if q.any (·.id == nn.id) then q else q ++ [nn]) queue

/-- `dhtIterate`. `fn` is the caller's callback threaded through a state `σ`; it returns the new peers and
    whether to continue. `seen` are the ids already passed to `fn`. `none` = out of fuel. -/
def iterate {σ : Type} (key : Bytes) (n : Nat) (fn : σ → NodeInfo → σ × List NodeInfo × Bool) :
    Nat → List NodeInfo → List Bytes → σ → Option σ
  | 0, _, _, _ => none
  | fuel + 1, nodes, seen, st =>
    match (sortNodes key nodes).take n with
    | [] => some st
    | node :: rest =>
      if seen.contains node.id then iterate key n fn fuel rest seen st
      else
        let (st', new, cont) := fn st node
        if !cont then some st'
        else iterate key n fn fuel (enqueue key node (node.id :: seen) rest new) (node.id :: seen) st'

/-- what a contacted node answers -/
structure Resp where
  ok : Bool                      -- false: the Ask returned an error
  nodes : List NodeInfo := []    -- FindNodeRes.Nodes / GetRes.Closer / PutRes.Closer
  accepted : Bool := false       -- PutRes.Accepted
  value : Option Bytes := none   -- GetRes.Value
deriving Repr

/-- a responder: call index (0,1,2,… in the order the operation makes its calls) and contacted node -/
abbrev Responder := Nat → NodeInfo → Resp

/-- state shared by the four operations: the trace of contacted ids (most recent first) is ghost state -/
structure St where
  calls : Nat := 0
  asked : List Bytes := []           -- ids passed to Ask, most recent first
  visited : List Bytes := []         -- ids passed to the callback, most recent first
  closest : Option NodeInfo := none
  contacted : Nat := 0
  responded : Nat := 0
  accepted : Nat := 0
  acceptors : List Bytes := []
  responders : List Bytes := []
  value : Option Bytes := none
  from_ : Option Bytes := none
  added : Nat := 0
  addedIds : List Bytes := []
deriving Repr

def nearer (key : Bytes) (x : NodeInfo) : Option NodeInfo → Bool
  | none => true
  | some c => distanceLt key x.id c.id

def zeroID : Bytes := List.replicate 32 0

/-- `DHTFindNode`'s callback -/
def findNodeFn (target : Bytes) (validate : NodeInfo → Bool) (ask : Responder) (st : St) (node : NodeInfo) :
    St × List NodeInfo × Bool :=
  let st := { st with visited := node.id :: st.visited,
                      closest := if nearer target node st.closest then some node else st.closest }
  if (st.closest.map (·.id)) = some target then (st, [], false)
  else
    let r := ask st.calls node
    let st := { st with calls := st.calls + 1, asked := node.id :: st.asked }
    if !r.ok then (st, [], true)
    else ({ st with contacted := st.contacted + 1 }, r.nodes.filter validate, true)

def findNode (fuel : Nat) (initial : List NodeInfo) (target : Bytes) (validate : NodeInfo → Bool) (ask : Responder) :
    Option St :=
  if initial.isEmpty then some {} else iterate target 10 (findNodeFn target validate ask) fuel initial [] {}

/-- `DHTJoin`'s callback; `addPeer` is the caller's (here: true for an id not added before) -/
def joinFn (ask : Responder) (st : St) (node : NodeInfo) : St × List NodeInfo × Bool :=
  let isNew := !st.addedIds.contains node.id
  let st := { st with visited := node.id :: st.visited, added := if isNew then st.added + 1 else st.added,
                      addedIds := if isNew then node.id :: st.addedIds else st.addedIds }
  let r := ask st.calls node
  let st := { st with calls := st.calls + 1, asked := node.id :: st.asked }
  if !r.ok then (st, [], true) else (st, r.nodes, true)

def join (fuel : Nat) (initial : List NodeInfo) (target : Bytes) (ask : Responder) : Option St :=
  if initial.isEmpty then some {} else iterate target initial.length (joinFn ask) fuel initial [] {}

/-- `DHTGet`'s callback -/
def getFn (key : Bytes) (validate : Bytes → Bool) (ask : Responder) (st : St) (node : NodeInfo) :
    St × List NodeInfo × Bool :=
  let st := { st with visited := node.id :: st.visited }
  -- if we are getting further away than the node the value came from, stop
  if (match st.from_ with | some f => f != zeroID && distanceLt key f node.id | none => false) then (st, [], false)
  else
    let r := ask st.calls node
    let st := { st with calls := st.calls + 1, asked := node.id :: st.asked, contacted := st.contacted + 1 }
    if !r.ok then (st, [], true)
    else
      let st := { st with responded := st.responded + 1, responders := node.id :: st.responders,
                          closest := if st.responded = 0 || nearer key node st.closest then some node else st.closest }
      let st := match r.value with
        | some v => if validate v then { st with value := some v, from_ := some node.id } else st
        | none => st
      (st, r.nodes, true)

def get (fuel : Nat) (initial : List NodeInfo) (key : Bytes) (validate : Bytes → Bool) (ask : Responder) : Option St :=
  if initial.isEmpty then some {} else iterate key 3 (getFn key validate ask) fuel initial [] {}

/-- `DHTGet` returns an error iff no validated value was found (`From` is the zero id) -/
def getErr (st : St) : Bool := match st.from_ with | some f => f == zeroID | none => true

/-- `DHTPut`'s callback -/
def putFn (key : Bytes) (ask : Responder) (st : St) (node : NodeInfo) : St × List NodeInfo × Bool :=
  let st := { st with visited := node.id :: st.visited }
  let r := ask st.calls node
  let st := { st with calls := st.calls + 1, asked := node.id :: st.asked, contacted := st.contacted + 1 }
  if !r.ok then (st, [], true)
  else
    let st := { st with responded := st.responded + 1, responders := node.id :: st.responders }
    let st := if r.accepted then
        { st with accepted := st.accepted + 1, acceptors := node.id :: st.acceptors,
                  closest := if st.accepted = 0 || nearer key node st.closest then some node else st.closest }
      else st
    (st, r.nodes, true)

def put (fuel : Nat) (initial : List NodeInfo) (key : Bytes) (ask : Responder) : Option St :=
  if initial.isEmpty then some {} else iterate key (initial.length * 3 / 2) (putFn key ask) fuel initial [] {}

def putErr (minAccepted : Nat) (st : St) : Bool := st.accepted < (if minAccepted < 1 then 2 else minAccepted)

/-- `HandleFindNode` caps the number of nodes it returns -/
def findNodeLimit (reqLimit : Nat) : Nat := if reqLimit > 10 then 10 else reqLimit

/-- the four operations, uniformly -/
inductive Oper
  | findNode (target : Bytes) (validate : NodeInfo → Bool)
  | join (target : Bytes)
  | get (key : Bytes) (validate : Bytes → Bool)
  | put (key : Bytes)

def Oper.run (o : Oper) (fuel : Nat) (initial : List NodeInfo) (ask : Responder) : Option St :=
  match o with
  | .findNode t v => DHT.findNode fuel initial t v ask
  | .join t => DHT.join fuel initial t ask
  | .get k v => DHT.get fuel initial k v ask
  | .put k => DHT.put fuel initial k ask

def Oper.key : Oper → Bytes
  | .findNode t _ => t | .join t => t | .get k _ => k | .put k => k

end P2PVerif.DHT
