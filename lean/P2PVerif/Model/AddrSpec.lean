import P2PVerif.Model.Addr
/-! Specification-side predicates for the address model: the laws assumed of the standard library, validity
    of addresses, and which grammar an address belongs to. -/
namespace P2PVerif.Addr
open P2PVerif

/-- canonical IP text as the standard library prints it: it parses to itself, is non-empty and contains no
    newline or bracket.
    (Originally `env.ipParse ip = some ip ∧ '\n' ∉ ip ∧ '[' ∉ ip ∧ ']' ∉ ip`; non-emptiness was added because
    without it C16.parse_marshal is false for sshswarm, whose regular expression demands a non-empty host `(.+)`:
    see `Lemmas/AddrCounterexample.lean`. Every text `netip.Addr.String` prints for a parsed address is
    non-empty.) -/
def IPOK (env : Env) (ip : Str) : Prop :=
  env.ipParse ip = some ip ∧ ip ≠ [] ∧ '\n' ∉ ip ∧ '[' ∉ ip ∧ ']' ∉ ip

structure EnvOK (env : Env) : Prop where
  ip_out : ∀ t ip, env.ipParse t = some ip → IPOK env ip
  scan_nat : ∀ n, n < 65536 → env.scan16 (natStr n) = some n
  scan_lt : ∀ t n, env.scan16 t = some n → n < 65536

/-- `://` does not occur in `s` at an index ≥ 1 -/
def noSepInside (s : Str) : Prop := ∀ i, 1 ≤ i → ((s.drop i).take 3) ≠ [':', '/', '/']

def schemeOK (s : Str) : Prop := s ≠ [] ∧ '\n' ∉ s ∧ noSepInside s

def Valid (env : Env) : Addr → Prop
  | .mem n => -(2 ^ 63 : Int) ≤ n ∧ n < 2 ^ 63
  | .udp ip port => IPOK env ip ∧ port < 65536
  | .ssh fp ip port => fp ≠ [] ∧ (∀ c ∈ fp, fpChar c = true) ∧ IPOK env ip ∧ port < 65536
  | .idAt id a => id.length = 32 ∧ (∀ b ∈ id, b < 256) ∧ Valid env a
  | .scheme s a => schemeOK s ∧ Valid env a

def Fits : Gram → Addr → Prop
  | .mem, .mem _ => True
  | .udp, .udp _ _ => True
  | .ssh, .ssh _ _ _ => True
  | .idAt g, .idAt _ a => Fits g a
  | .mcons name g rest, .scheme s a => (s = name ∧ Fits g a) ∨ (s ≠ name ∧ Fits rest (.scheme s a))
  | _, _ => False

/-- a scheme table: a chain of `mcons` ending in `mnil` -/
def IsTable : Gram → Prop
  | .mnil => True
  | .mcons _ _ rest => IsTable rest
  | _ => False

/-- well-formed swarm stack: the continuation of every scheme table is a scheme table (the `Gram` type also
    contains junk such as `mcons name g ssh`, which no multiswarm corresponds to). -/
def GramOK : Gram → Prop
  | .idAt g => GramOK g
  | .mcons _ g rest => GramOK g ∧ IsTable rest ∧ GramOK rest
  | _ => True

end P2PVerif.Addr
