/-! golang.zx2c4.com/wireguard/replay: the RFC 6479 sliding-window filter used as `Session.rp`, modelled exactly. -/
namespace P2PVerif.Replay

def blockBits : Nat := 64
def ringBlocks : Nat := 128
def windowSize : Nat := (ringBlocks - 1) * blockBits

structure Filter where
  last : Nat
  ring : Array Nat
deriving Repr

def Filter.empty : Filter := { last := 0, ring := Array.replicate 128 0 }

/-- clear blocks `start+1 .. start+n` (indices mod 128) -/
def clear (ring : Array Nat) (start : Nat) : Nat → Array Nat
  | 0 => ring
  | n+1 => (clear ring start n).setIfInBounds ((start + (n+1)) % 128) 0

def validate (f : Filter) (counter limit : Nat) : Filter × Bool :=
  if counter ≥ limit then (f, false) else
  let indexBlock := counter / 64
  let step (f : Filter) : Filter × Bool :=
    let ib := indexBlock % 128
    let bit := counter % 64
    let old := f.ring.getD ib 0
    let new := old ||| (1 <<< bit)
    ({ f with ring := f.ring.setIfInBounds ib new }, old != new)
  if counter > f.last then
    let current := f.last / 64
    let diff := min (indexBlock - current) 128
    step { last := counter, ring := clear f.ring current diff }
  else if f.last - counter > windowSize then (f, false)
  else step f

def run (f : Filter) (limit : Nat) : List Nat → Filter × List Nat
  | [] => (f, [])
  | c :: cs =>
    let (f', ok) := validate f c limit
    let (f'', acc) := run f' limit cs
    (f'', if ok then c :: acc else acc)


end P2PVerif.Replay
