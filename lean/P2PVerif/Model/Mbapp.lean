import P2PVerif.Model.Util
import P2PVerif.Gen.Facts
/-! p/mbapp: the 24-byte header (message.go), the sender's split (`Swarm.send`), `MTU`, and the receiver's
    size check and reassembly (`handleMessage`, `fragLayer.handlePart`, `collector`, `bitMap`). -/
namespace P2PVerif.Mbapp
open P2PVerif

def headerSize : Nat := Gen.Facts.mbappHeaderSize
def maxParts : Nat := 65535

structure Hdr where
  isAsk : Bool := false
  isReply : Bool := false
  errCode : Nat := 0
  originTime : Nat := 0
  counter : Nat := 0
  totalSize : Nat := 0
  partIndex : Nat := 0
  partCount : Nat := 0
  timeout : Nat := 0
deriving Repr, DecidableEq

def be32 (v : Nat) : Bytes := [v / 16777216 % 256, v / 65536 % 256, v / 256 % 256, v % 256]
def val32 : Bytes → Nat
  | [a, b, c, d] => ((a * 256 + b) * 256 + c) * 256 + d
  | _ => 0

def Hdr.encode (h : Hdr) : Bytes :=
  be32 ((if h.isAsk then 2 ^ 31 else 0) + (if h.isReply then 2 ^ 30 else 0) + h.errCode % 256) ++
  be32 h.originTime ++ be32 h.counter ++ be32 h.totalSize ++
  be32 ((h.partIndex % 65536) * 65536 + h.partCount % 65536) ++ be32 h.timeout

/-- `ParseMessage` + the header getters -/
def decode (pkt : Bytes) : Option (Hdr × Bytes) :=
  if pkt.length < headerSize then none else
  let w (i : Nat) := val32 ((pkt.drop (4 * i)).take 4)
  some ({ isAsk := w 0 / 2 ^ 31 % 2 == 1, isReply := w 0 / 2 ^ 30 % 2 == 1, errCode := w 0 % 256,
          originTime := w 1, counter := w 2, totalSize := w 3,
          partIndex := w 4 / 65536, partCount := w 4 % 65536, timeout := w 5 }, pkt.drop headerSize)

/-- `Swarm.MTU()` -/
def mtu (innerMTU cfgMTU : Nat) : Int :=
  let limit : Int := ((innerMTU : Int) - headerSize) * maxParts
  if limit < cfgMTU then limit else cfgMTU

def chunks (n : Nat) (xs : Bytes) : List Bytes :=
  if h : n = 0 ∨ xs = [] then [] else xs.take n :: chunks n (xs.drop n)
termination_by xs.length
decreasing_by
  have : xs ≠ [] := fun e => h (Or.inr e)
  have : 0 < xs.length := List.length_pos_iff.mpr this
  simp only [List.length_drop]; omega

/-- `Swarm.send` behind the size check of `Tell`/`Ask`: the inner datagrams, or `none` for `ErrMTUExceeded`.
    `h` carries the mode bits, origin time, counter and timeout. -/
def send (innerMTU cfgMTU : Nat) (h : Hdr) (payload : Bytes) : Option (List Bytes) :=
  if (payload.length : Int) > mtu innerMTU cfgMTU then none else
  let partSize := innerMTU - headerSize
  if payload.length = 0 then some [({ h with partIndex := 0, partCount := 0, totalSize := 0 } : Hdr).encode]
  else if (innerMTU : Int) - headerSize < 1 ∨ payload.length > partSize * maxParts then none
  else
    let ps := chunks partSize payload
    if ps.length < 2 then some [({ h with partIndex := 0, partCount := ps.length, totalSize := payload.length } : Hdr).encode ++ payload]
    else some (ps.mapIdx (fun i p =>
      ({ h with partIndex := i, partCount := ps.length, totalSize := payload.length } : Hdr).encode ++ p))

/-- `collector` -/
structure Col where
  partCount : Nat
  buf : Bytes
  bits : List Bool
deriving Repr, DecidableEq

def Col.new (partCount totalSize : Nat) : Col :=
  { partCount, buf := List.replicate totalSize 0, bits := List.replicate partCount false }

/-- `copy(buf[offset:], data)` -/
def overwrite (buf : Bytes) (offset : Nat) (data : Bytes) : Bytes :=
  buf.take offset ++ data.take (buf.length - offset) ++ buf.drop (offset + data.length)

/-- `collector.addPart` -/
def Col.addPart (c : Col) (idx : Nat) (data : Bytes) : Col :=
  if idx ≥ c.partCount then c
  else if c.bits.getD idx false then c
  else
    let offset : Int := if idx = c.partCount - 1 then (c.buf.length : Int) - data.length else (data.length * idx : Nat)
    if offset < 0 ∨ offset ≥ c.buf.length then c
    else { c with buf := overwrite c.buf offset.toNat data, bits := c.bits.set idx true }

/-- collectors keyed by (remote, origin time, counter) -/
abbrev RState := List ((Nat × Nat × Nat) × Col)

def RState.get (st : RState) (k : Nat × Nat × Nat) : Option Col := (st.find? (·.1 == k)).map (·.2)
def RState.erase (st : RState) (k : Nat × Nat × Nat) : RState := st.filter (·.1 != k)
def RState.put (st : RState) (k : Nat × Nat × Nat) (c : Col) : RState := (k, c) :: st.erase k

/-- `handleMessage` + `fragLayer.handlePart`: one inner datagram from `remote`; returns header and body
    handed to the upper layer (tell / ask request / ask reply dispatch), if any. -/
def recv (cfgMTU : Nat) (st : RState) (remote : Nat) (pkt : Bytes) : RState × Option (Hdr × Bytes) :=
  match decode pkt with
  | none => (st, none)
  | some (h, body) =>
    if h.totalSize > cfgMTU then (st, none)
    else if h.partCount < 2 then (st, some (h, body))
    else
      let key := (remote, h.originTime, h.counter)
      let col := (st.get key).getD (Col.new h.partCount h.totalSize)
      let col := col.addPart h.partIndex body
      if col.bits.all id then (st.erase key, some (h, col.buf))
      else (st.put key col, none)

end P2PVerif.Mbapp
