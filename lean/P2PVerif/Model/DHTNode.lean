import P2PVerif.Model.Cache
import P2PVerif.Model.DHT
/-! p/kademlia/dht_node.go: the state of one DHT node (a peer cache and a data cache around one locus) and the
    handlers that answer the RPCs of the iterative operations in Model/DHT.lean.

Times are in the unit of the configuration (milliseconds in the `node` stream, which runs the node under the fake
clock so that every `time.Now()` in the handlers is known). Creation times of entries are then pairwise different,
which makes the eviction victim unique; the model computes it (`Cache.victimKey`). -/
namespace P2PVerif.DHT
open P2PVerif P2PVerif.Kad

/-- the entry `Cache.evict` removes when inserting `e` overflows the cache: the newest entry of the first bucket
    that holds more than the protected minimum (after `e` is in place) -/
def victimKey (c : Cache) (e : Entry) : Bytes :=
  let lz := bucketIndex c.locus e.key
  let bs := c.buckets ++ List.replicate (lz + 1 - c.buckets.length) {}
  let b := bs[lz]?.getD {}
  let bs := bs.set lz (b.put e)
  match firstOver c.minPer bs 0 with
  | some n =>
    let vb := bs[n]?.getD {}
    match vb.entries.find? (fun x => x.created == maxCreated vb.entries) with
    | some v => v.key
    | none => []
  | none => []

/-- `Cache.Update`/`Put` with the victim the implementation picks when creation times differ -/
def cacheUpdate (c : Cache) (e : Entry) : Cache × Option Entry × Bool :=
  match c.update e (victimKey c e) with
  | .ok c' ev added => (c', ev, added)
  | .inadmissible => (c, none, false)

structure Node where
  localID : Bytes
  peers : Cache
  /-- `max = 0` when the node is configured without a data cache -/
  data : Cache
  dataCacheSize : Nat
  maxPeerTTL : Nat
  maxDataTTL : Nat
deriving Repr

/-- `NewDHTNode`: when the peer cache is too small to protect one entry per bit of the id, the locus is cut -/
def Node.new (localID : Bytes) (peerSize dataSize maxPeerTTL maxDataTTL : Nat) : Node :=
  let locus := if peerSize < 1 * localID.length * 8 then localID.take (peerSize / 8) else localID
  { localID,
    peers := Cache.new locus peerSize 1,
    data := if dataSize > 0 then Cache.new locus dataSize 0 else Cache.new [] 0 0,
    dataCacheSize := dataSize,
    maxPeerTTL := if maxPeerTTL = 0 then 60000 else maxPeerTTL,
    maxDataTTL := if maxDataTTL = 0 then 300000 else maxDataTTL }

/-- `AddPeer` -/
def Node.addPeer (n : Node) (id info : Bytes) (now : Nat) : Node × Bool :=
  if id == n.localID then (n, false) else
  let created := match n.peers.get id with | some old => old.created | none => now
  let (c', _, added) := cacheUpdate n.peers { key := id, val := info, created, expires := now + n.maxPeerTTL }
  ({ n with peers := c' }, added)

/-- `RemovePeer` -/
def Node.removePeer (n : Node) (id : Bytes) : Node × Bool :=
  let (c', r) := n.peers.delete id
  ({ n with peers := c' }, r.isSome)

/-- `GetPeer` -/
def Node.getPeer (n : Node) (id : Bytes) : Option Bytes := (n.peers.get id).map (·.val)

def toInfo (e : Entry) : NodeInfo := { id := e.key, info := e.val }

/-- `ListNodeInfos`: the `limit` peers closest to `key`, nearest first -/
def Node.listNodeInfos (n : Node) (key : Bytes) (limit : Nat) : List NodeInfo := ((n.peers.forEach key).take limit).map toInfo

/-- `closerNodes`: the peers strictly closer to `key` than this node is -/
def Node.closerNodes (n : Node) (key : Bytes) : List NodeInfo := (n.peers.forEachCloser key).map toInfo

/-- `wasAccepted` -/
def wasAccepted (key : Bytes) (evicted : Option Entry) (added : Bool) : Bool :=
  added || match evicted with | none => true | some v => v.key != key

/-- `Put` (local) -/
def Node.put (n : Node) (key value : Bytes) (ttl now : Nat) : Node × Bool :=
  let (c', _, added) := cacheUpdate n.data { key, val := value, created := now, expires := now + ttl }
  ({ n with data := c' }, added)

/-- `HandlePut` -/
def Node.handlePut (n : Node) (key value : Bytes) (ttl now : Nat) : Node × Bool × List NodeInfo :=
  let ttl := if ttl > n.maxDataTTL then n.maxDataTTL else ttl
  let (c', ev, added) := cacheUpdate n.data { key, val := value, created := now, expires := now + ttl }
  let n' := { n with data := c' }
  (n', decide (n.dataCacheSize > 0) && wasAccepted key ev added, n'.closerNodes key)

/-- `Get` -/
def Node.get (n : Node) (key : Bytes) : Option Bytes := (n.data.get key).map (·.val)

/-- `HandleGet` -/
def Node.handleGet (n : Node) (key : Bytes) : Option Bytes × List NodeInfo := (n.get key, n.closerNodes key)

/-- `HandleFindNode`; the request's limit is a signed integer -/
def Node.handleFindNode (n : Node) (target : Bytes) (limit : Int) : List NodeInfo :=
  let l := if limit > 10 then 10 else limit
  n.listNodeInfos target l.toNat

inductive NOp
  | addPeer (id info : Bytes) (now : Nat)
  | removePeer (id : Bytes)
  | put (key value : Bytes) (ttl now : Nat)
  | handlePut (key value : Bytes) (ttl now : Nat)
deriving Repr

def Node.step (n : Node) : NOp → Node
  | .addPeer id info now => (n.addPeer id info now).1
  | .removePeer id => (n.removePeer id).1
  | .put k v ttl now => (n.put k v ttl now).1
  | .handlePut k v ttl now => (n.handlePut k v ttl now).1

def Node.run (n : Node) (ops : List NOp) : Node := ops.foldl Node.step n

end P2PVerif.DHT
