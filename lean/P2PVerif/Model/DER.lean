import P2PVerif.Model.Util
/-! f/x509/x509.go MarshalPublicKey / ParsePublicKey: the DER shape
    `SEQUENCE { SEQUENCE { OBJECT IDENTIFIER }, BIT STRING }` that encoding/asn1 emits for
    `struct{ pkix.AlgorithmIdentifier; asn1.BitString }`, and a strict parser for exactly that shape. -/
namespace P2PVerif.DER
open P2PVerif

structure Key where
  alg : List Nat     -- object identifier arcs
  data : Bytes
deriving DecidableEq, Repr

/-- minimal big-endian base-256 digits (empty for 0) -/
def be256 (n : Nat) : Bytes := if h : n = 0 then [] else be256 (n / 256) ++ [n % 256]
termination_by n
decreasing_by omega

/-- DER length octets -/
def derLen (n : Nat) : Bytes := if n < 128 then [n] else (128 + (be256 n).length) :: be256 n

def tlv (tag : Nat) (content : Bytes) : Bytes := tag :: derLen content.length ++ content

/-- base-128 digits, most significant first, without continuation bits (empty for 0) -/
def digits128 (n : Nat) : List Nat := if h : n = 0 then [] else digits128 (n / 128) ++ [n % 128]
termination_by n
decreasing_by omega

/-- `appendBase128Int`: continuation bit on every byte but the last -/
def base128 (n : Nat) : Bytes :=
  if n = 0 then [0] else
  let ds := digits128 n
  (ds.dropLast.map (· + 128)) ++ [ds.getLastD 0]

/-- what encoding/asn1 accepts as an object identifier both when marshalling and when parsing -/
def validOID : List Nat → Bool
  | a :: b :: rest => a ≤ 2 && (a = 2 || b < 40) && 40 * a + b < 2 ^ 31 && rest.all (· < 2 ^ 31)
  | _ => false

def oidContent : List Nat → Bytes
  | a :: b :: rest => base128 (40 * a + b) ++ rest.flatMap base128
  | _ => []

/-- what asn1.Marshal accepts as an object identifier (arcs ≥ 2^31 are emitted but cannot be parsed back) -/
def marshalOK : List Nat → Bool
  | a :: b :: _ => a ≤ 2 && (a = 2 || b < 40)
  | _ => false

/-- `MarshalPublicKey` (when asn1.Marshal refuses the OID nothing is appended) -/
def marshalKey (k : Key) : Bytes :=
  if marshalOK k.alg then tlv 0x30 (tlv 0x30 (tlv 0x06 (oidContent k.alg)) ++ tlv 0x03 (0 :: k.data)) else []

/-- strict DER length: minimal, long form only for ≥ 128; returns length and rest -/
def parseLen : Bytes → Option (Nat × Bytes)
  | [] => none
  | b :: rest =>
    if b < 128 then some (b, rest)
    else
      let n := b - 128
      if n = 0 ∨ rest.length < n then none else
      let ds := rest.take n
      let v := ds.foldl (fun acc d => acc * 256 + d) 0
      if ds.head? = some 0 ∨ v < 128 then none else some (v, rest.drop n)

/-- one TLV with the expected tag: content and rest -/
def parseTLV (tag : Nat) : Bytes → Option (Bytes × Bytes)
  | [] => none
  | t :: rest =>
    if t ≠ tag then none else
    match parseLen rest with
    | none => none
    | some (n, r) => if r.length < n then none else some (r.take n, r.drop n)

/-- base-128 integers of an OID body, minimally encoded, each < 2^31 -/
def parseBase128s : Nat → Bytes → Option (List Nat)
  | 0, _ => none
  | fuel + 1, bs =>
    let rec go (acc : Nat) (first : Bool) : Bytes → Option (Nat × Bytes)
      | [] => none
      | b :: rest =>
        if first ∧ b = 128 then none
        else if b < 128 then
          let v := acc * 128 + b
          if v < 2 ^ 31 then some (v, rest) else none
        else
          let v := acc * 128 + (b - 128)
          if v < 2 ^ 31 then go v false rest else none
    match bs with
    | [] => some []
    | _ =>
      match go 0 true bs with
      | none => none
      | some (v, rest) =>
        match parseBase128s fuel rest with
        | none => none
        | some vs => some (v :: vs)

def oidOfInts : List Nat → Option (List Nat)
  | [] => none
  | v :: rest => some ((if v < 80 then [v / 40, v % 40] else [2, v - 80]) ++ rest)

/-- strict parser for the shape `marshalKey` emits -/
def parseKey (input : Bytes) : Option Key :=
  match parseTLV 0x30 input with
  | some (body, []) =>
    match parseTLV 0x30 body with
    | some (algId, rest) =>
      match parseTLV 0x06 algId, parseTLV 0x03 rest with
      | some (oidBytes, []), some (bits, []) =>
        match parseBase128s (oidBytes.length + 1) oidBytes, bits with
        | some ints, 0 :: data =>
          match oidOfInts ints with
          | some alg => some { alg, data }
          | none => none
        | _, _ => none
      | _, _ => none
    | none => none
  | _ => none

/-- `EqualPublicKeys` -/
def equalKeys (a b : Key) : Bool := a.alg == b.alg && a.data == b.data

end P2PVerif.DER
