import P2PVerif.Model.Util
import P2PVerif.Model.Replay
import P2PVerif.Gen.Facts
/-! p/p2pke session.go + channel.go over a *symbolic* wire alphabet.

Cryptography is ideal: a handshake/AEAD term opens only for a party that holds the matching ephemeral
secrets and presents the same transcript/associated data; a signature verifies only for the signer,
purpose and data it was made over. Ephemerals are identified by the session that made them (`Eph`);
signing keys by `KeyId`. Everything else follows the code branch for branch (DESIGN.md section 5, C02/C03). -/
namespace P2PVerif.P2PKE
open P2PVerif

abbrev KeyId := Nat
abbrev Eph := Nat

def maxNonce : Nat := Gen.Facts.p2pkeMaxNonce
def noncePostHandshake : Nat := 16

/-- signature under purpose "p2pke/timestamp" -/
inductive TSig | ts (signer : KeyId) (t : Nat) | bogus
deriving DecidableEq, Repr

/-- the authenticated claim inside an InitHello: key, timestamp, signature over the timestamp -/
structure Hello where
  key : KeyId
  t : Nat
  sig : TSig
deriving DecidableEq, Repr

/-- signatures under purpose "p2pke/channel-binding": `cb1` is over the transcript after message 1 (initiator
    ephemeral + hello payload), `cb2` over the transcript after message 2 (plus responder ephemeral and its
    payload: key and cb1 signature). -/
inductive CSig
  | cb1 (signer : KeyId) (eI : Eph) (h : Hello)
  | cb2 (signer : KeyId) (eI eR : Eph) (h : Hello) (rk : KeyId) (rs : CSig)
  | bogus
deriving DecidableEq, Repr

inductive Dir | i2r | r2i
deriving DecidableEq, Repr

inductive Wire
  /-- counter 0, in the clear: ephemeral and claim -/
  | initHello (eI : Eph) (h : Hello)
  /-- counter 1: responder ephemeral in the clear, payload (key, cb1 signature) under DH(toward, eR) bound to
      the transcript `(toward, seen)` the responder saw -/
  | respHello (eR toward : Eph) (seen : Hello) (k : KeyId) (s : CSig)
  /-- counter 2, AEAD under the i→r key of (eI, eR, transcript) -/
  | initDone (eI eR : Eph) (tr : Hello) (s : CSig)
  /-- counter 3, AEAD under the r→i key -/
  | respDone (eI eR : Eph) (tr : Hello)
  /-- counter ≥ 4, AEAD with the header as associated data -/
  | data (eI eR : Eph) (tr : Hello) (dir : Dir) (ctr : Nat) (p : Bytes)
  /-- anything that fails every check: header counter `ctr`; `long` = at least 36 bytes (enough for Noise to
      read an ephemeral from it) -/
  | junk (tag : Nat) (ctr : Nat) (long : Bool)
  /-- shorter than the 4-byte header -/
  | short
deriving DecidableEq, Repr

/-- anything that fails every check: `tag` only distinguishes different byte strings, header counter `ctr`,
    `long` = the body is at least 32 bytes (enough for Noise to read an ephemeral from it) -/
def Wire.counter : Wire → Nat
  | .initHello .. => 0 | .respHello .. => 1 | .initDone .. => 2 | .respDone .. => 3
  | .data _ _ _ _ c _ => c | .junk _ c _ => c | .short => 0

/-- `IsInitHello`: at least a header, and counter 0 -/
def Wire.isInitHello (w : Wire) : Bool := w != .short && w.counter == 0

structure Sess where
  isInit : Bool
  key : KeyId
  eph : Eph
  hs : Nat := 0
  nonce : Nat := 0
  expiresAt : Nat
  /-- initiator: own claim; responder: the claim received -/
  hello : Option Hello := none
  rEph : Option Eph := none
  rKey : Option KeyId := none
  /-- the responder's cb1 signature (own for a responder, received for an initiator) -/
  rSig : Option CSig := none
  helloTime : Nat := 0
  /-- the Noise handshake state was advanced by a message that was then rejected (flynn/noise does not
      roll back a successfully read message): the session can no longer complete -/
  wedged : Bool := false
  rp : Replay.Filter := Replay.Filter.empty
deriving Repr

/-- `NewSession` -/
def Sess.new (isInit : Bool) (key : KeyId) (eph : Eph) (now rejectAfter : Nat) : Sess :=
  { isInit, key, eph, expiresAt := now + rejectAfter,
    hello := if isInit then some ⟨key, now, .ts key now⟩ else none,
    helloTime := if isInit then now else 0 }

def Sess.canSend (s : Sess) : Bool := (s.isInit && s.hs ≥ 3) || (!s.isInit && s.hs ≥ 2)
def Sess.canReceive (s : Sess) : Bool := s.hs ≥ 2
def Sess.isReady (s : Sess) : Bool := s.canSend && s.canReceive

/-- the transcript (initiator ephemeral, claim) both sides must agree on for any key to match -/
def Sess.eI (s : Sess) : Eph := if s.isInit then s.eph else s.rEph.getD 0
def Sess.eR (s : Sess) : Eph := if s.isInit then s.rEph.getD 0 else s.eph
def Sess.tr (s : Sess) : Hello := s.hello.getD ⟨0, 0, .bogus⟩
def Sess.outDir (s : Sess) : Dir := if s.isInit then .i2r else .r2i
def Sess.inDir (s : Sess) : Dir := if s.isInit then .r2i else .i2r

/-- `writeHandshake`: the cached handshake message for the current state (`msgCache[hsIndex]`) -/
def Sess.handshake (s : Sess) : Option Wire :=
  if s.hs ≥ 4 then none
  else if s.isInit ∧ s.hs = 0 then s.hello.map (.initHello s.eph)
  else if ¬s.isInit ∧ s.hs = 1 then
    match s.hello, s.rEph, s.rSig with
    | some h, some e, some sg => some (.respHello s.eph e h s.key sg)
    | _, _, _ => none
  else if s.isInit ∧ s.hs = 2 then
    match s.hello, s.rEph, s.rKey, s.rSig with
    | some h, some eR, some rk, some rs => some (.initDone s.eph eR h (.cb2 s.key s.eph eR h rk rs))
    | _, _, _, _ => none
  else if ¬s.isInit ∧ s.hs = 3 then
    match s.hello, s.rEph with
    | some h, some e => some (.respDone e s.eph h)
    | _, _ => none
  else none

inductive Res
  | err                         -- any error return
  | hs (out : Option Wire)      -- handshake message processed; the current handshake message, if any
  | app (p : Bytes)             -- application data
  | drop                        -- authentic but replayed: (false, nil, nil)
deriving DecidableEq, Repr

def Sess.expired (s : Sess) (now : Nat) : Bool := now > s.expiresAt || s.nonce ≥ maxNonce

/-- `readHandshake`: `none` = error -/
def Sess.readHandshake (s : Sess) (w : Wire) : Option Sess :=
  let c := w.counter
  if ¬s.isInit ∧ s.hs = 0 ∧ c = 0 then
    if s.wedged then none else
    match w with
    | .initHello eI h =>
      if h.sig = .ts h.key h.t then
        some { s with hs := 1, hello := some h, rEph := some eI, rKey := some h.key, helloTime := h.t,
                      rSig := some (.cb1 s.key eI h) }
      else none
    | _ => none
  else if s.isInit ∧ s.hs = 0 ∧ c = 1 then
    if s.wedged then none else
    match w, s.hello with
    | .respHello eR toward seen rk rs, some h =>
      if toward = s.eph ∧ seen = h ∧ rs = .cb1 rk s.eph h then
        some { s with hs := 2, nonce := noncePostHandshake, rEph := some eR, rKey := some rk, rSig := some rs }
      else none
    | _, _ => none
  else if ¬s.isInit ∧ s.hs = 1 ∧ c = 2 then
    match w, s.hello, s.rEph, s.rKey, s.rSig with
    | .initDone eI eR tr sg, some h, some e, some rk, some own =>
      if eI = e ∧ eR = s.eph ∧ tr = h ∧ sg = .cb2 rk e s.eph h s.key own then
        some { s with hs := 3, nonce := noncePostHandshake }
      else none
    | _, _, _, _, _ => none
  else if s.isInit ∧ s.hs = 2 ∧ c = 3 then
    match w, s.hello with
    | .respDone eI eR tr, some h =>
      if eI = s.eph ∧ some eR = s.rEph ∧ tr = h then some { s with hs := 4, nonce := noncePostHandshake } else none
    | _, _ => none
  else if ¬s.isInit ∧ s.hs = 3 ∧ c = 2 then
    -- a repeated InitDone is only acknowledged if it decrypts under this session's key
    match w, s.hello, s.rEph with
    | .initDone eI eR tr _, some h, some e => if eI = e ∧ eR = s.eph ∧ tr = h then some s else none
    | _, _, _ => none
  else if (s.isInit ∧ c % 2 = 1) ∨ (¬s.isInit ∧ c % 2 = 0) then some s
  else none

/-- state left behind by a *failed* `readHandshake` (the Noise state is not rolled back once a message has
    been read successfully): a responder that read an ephemeral from a long-enough counter-0 message whose claim
    it then rejected, an initiator that decrypted a RespHello whose signature it then rejected -/
def Sess.afterFailedRead (s : Sess) (w : Wire) : Sess :=
  if ¬s.isInit ∧ s.hs = 0 ∧ w.counter = 0 ∧ ¬s.wedged then
    match w with
    | .initHello .. => { s with wedged := true }
    | .junk _ _ true => { s with wedged := true }
    | _ => s
  else if s.isInit ∧ s.hs = 0 ∧ w.counter = 1 ∧ ¬s.wedged then
    match w, s.hello with
    | .respHello _ toward seen _ _, some h => if toward = s.eph ∧ seen = h then { s with wedged := true } else s
    | _, _ => s
  else s

/-- `Session.Deliver` -/
def Sess.deliver (s : Sess) (w : Wire) (now : Nat) : Sess × Res :=
  if s.expired now then (s, .err)
  else if w = .short then (s, .err)
  else
    let c := w.counter
    if c < 4 then
      match s.readHandshake w with
      | some s' => (s', .hs s'.handshake)
      | none => (s.afterFailedRead w, .err)
    else if !s.canReceive then (s, .err)
    else
      match w with
      | .data eI eR tr dir ctr p =>
        if eI = s.eI ∧ eR = s.eR ∧ tr = s.tr ∧ dir = s.inDir then
          let (rp, ok) := Replay.validate s.rp ctr maxNonce
          if ok then ({ s with rp, hs := 8 }, .app p) else ({ s with rp }, .drop)
        else (s, .err)
      | _ => (s, .err)

/-- `Session.Send`: the emitted term, or `none` for an error. The header carries `uint32(nonce)`. -/
def Sess.send (s : Sess) (p : Bytes) (now : Nat) : Sess × Option Wire :=
  if s.expired now then (s, none)
  else if !s.canSend then (s, none)
  else if s.nonce ≥ maxNonce then (s, none)
  else ({ s with nonce := s.nonce + 1 }, some (.data s.eI s.eR s.tr s.outDir (s.nonce % 2 ^ 32) p))

/-! ## Channel -/

/-- a session slot: the InitHello term the session was created from (its hash is the session id) -/
structure Entry where
  id : Wire
  sess : Sess
deriving Repr

structure Chan where
  key : KeyId
  /-- `AcceptKey` -/
  accept : KeyId → Bool
  rejectAfter : Nat
  keepAlive : Nat
  /-- `handshakeAttempts * HandshakeBackoff`: a prospective session older than this is given up -/
  hsTimeout : Nat
  prev : Option Entry := none
  cur : Option Entry := none
  next : Option Entry := none
  remoteKey : Option KeyId := none
  remoteTimestamp : Nat := 0
  lastReceived : Nat := 0
  /-- ephemerals are numbered by a counter the environment supplies at session creation -/
  rekeyPending : Bool := false
  hsPending : Bool := false
  /-- number of callers blocked in `getOrInit` -/
  waiting : Nat := 0

/-- `checkKey` -/
def Chan.checkKey (c : Chan) (k : KeyId) : Bool :=
  match c.remoteKey with
  | some rk => rk == k
  | none => c.accept k

/-- `onReadySession`; `false` = "session negotiated with wrong peer" -/
def Chan.onReady (c : Chan) (now : Nat) : Chan × Bool :=
  match c.next with
  | none => (c, true)
  | some se =>
    match se.sess.rKey with
    | none => ({ c with next := none }, false)
    | some k =>
      if !c.checkKey k then ({ c with next := none }, false)
      else ({ c with remoteKey := some k, lastReceived := now, remoteTimestamp := se.sess.helloTime,
                     prev := c.cur, cur := some se, next := none,
                     rekeyPending := c.rekeyPending || se.sess.isInit,
                     waiting := 0 }, true)                 -- `ready` is closed: every waiting caller returns

/-- result of `Channel.Deliver` -/
structure DRes where
  app : Option Bytes := none
  sent : Option Wire := none
deriving Repr

/-- the order of session ids (`bytes.Compare` of BLAKE2b hashes) is supplied by the environment -/
abbrev IdLt := Wire → Wire → Bool

/-- `proposeNewSession` -/
def Chan.propose (c : Chan) (lt : IdLt) (e : Entry) : Chan × Sess :=
  match c.next with
  | some old =>
    let keepOld : Bool :=
      if !old.sess.isInit && !e.sess.isInit && old.sess.helloTime != e.sess.helloTime then
        e.sess.helloTime < old.sess.helloTime      -- both from the peer's InitHellos: its most recent attempt wins
      else lt old.id e.id
    if keepOld then (c, old.sess) else
      ({ c with next := some e, rekeyPending := c.rekeyPending || e.sess.isInit }, e.sess)
  | none => ({ c with next := some e, rekeyPending := c.rekeyPending || e.sess.isInit }, e.sess)

/-- one slot of the loop in `Channel.Deliver`. Returns `some` when the loop ends at this slot. -/
def Chan.deliverSlot (c : Chan) (slot : Nat) (w : Wire) (now : Nat) : Chan × Option (Option DRes) :=
  let ent := match slot with | 0 => c.prev | 1 => c.cur | _ => c.next
  match ent with
  | none => (c, none)
  | some se =>
    if w.isInitHello ∧ se.id ≠ w then (c, none) else
    let readyBefore := se.sess.isReady
    let (s', r) := se.sess.deliver w now
    let se' : Entry := { se with sess := s' }
    let c := match slot with | 0 => { c with prev := some se' } | 1 => { c with cur := some se' } | _ => { c with next := some se' }
    match r with
    | .err => (c, none)
    | _ =>
      let promoted := !readyBefore && s'.isReady
      let (c, ok) := if promoted then c.onReady now else (c, true)
      if !ok then (c, some none)                     -- error return: nothing delivered, nothing sent
      else
        match r with
        | .app p =>
          let isCur : Bool := match c.cur with | some ce => ce.id == se.id && ce.sess.eph == s'.eph | none => false
          (if isCur then { c with lastReceived := now } else c, some (some { app := some p }))
        | .hs (some out) => (c, some (some { sent := some out }))
        | _ => (c, none)

/-- `newResp` then `proposeNewSession` for an InitHello that matched no session. `eph` is the fresh
    ephemeral of the session that would be created. -/
def Chan.newResp (c : Chan) (lt : IdLt) (w : Wire) (eph : Eph) (now : Nat) : Chan × DRes :=
  match w with
  | .initHello _ h =>
    if (c.prev.any (·.id = w)) || (c.cur.any (·.id = w)) || (c.next.any (·.id = w)) then (c, {})
    else if h.t < c.remoteTimestamp then (c, {})
    else if h.sig ≠ .ts h.key h.t then (c, {})
    else if !c.checkKey h.key then (c, {})
    else
      let s0 := Sess.new false c.key eph now c.rejectAfter
      match (s0.deliver w now).1, (s0.deliver w now).2 with
      | s1, .hs _ =>
        let (c, s) := c.propose lt { id := w, sess := s1 }
        (c, { sent := s.handshake })
      | _, _ => (c, {})
  | _ => (c, {})

/-- `Channel.Deliver` -/
def Chan.deliver (c : Chan) (lt : IdLt) (w : Wire) (eph : Eph) (now : Nat) : Chan × DRes :=
  match c.deliverSlot 0 w now with
  | (c, some r) => (c, r.getD {})
  | (c, none) =>
    match c.deliverSlot 1 w now with
    | (c, some r) => (c, r.getD {})
    | (c, none) =>
      match c.deliverSlot 2 w now with
      | (c, some r) => (c, r.getD {})
      | (c, none) => c.newResp lt w eph now

/-- `expireSessions` -/
def Chan.expire (c : Chan) (now : Nat) : Chan :=
  let c := match c.prev with
    | some e => if e.sess.expiresAt < now then { c with prev := none } else c
    | none => c
  let c := match c.cur with
    | some e => if e.sess.expiresAt < now ∨ now - c.lastReceived > c.keepAlive then { c with prev := c.cur, cur := none } else c
    | none => c
  match c.next with
  | some e =>
    -- expired, or handshaking for longer than the time-out (its creation time is `expiresAt - rejectAfter`)
    if e.sess.expiresAt < now ∨ now - (e.sess.expiresAt - c.rejectAfter) > c.hsTimeout then { c with next := none } else c
  | none => c

/-- `onRekey` -/
def Chan.onRekey (c : Chan) (lt : IdLt) (eph : Eph) (now : Nat) : Chan :=
  let c := { c.expire now with rekeyPending := false }
  match c.next with
  | some _ => c
  | none =>
    let s := Sess.new true c.key eph now c.rejectAfter
    match s.handshake with
    | some id => { (c.propose lt { id, sess := s }).1 with hsPending := true }
    | none => c

/-- `onHandshake`: the handshake messages of every session that is not ready -/
def Chan.onHandshake (c : Chan) : Chan × List Wire :=
  let outs := [c.prev, c.cur, c.next].filterMap (fun e =>
    match e with
    | some e => if !e.sess.isReady then e.sess.handshake else none
    | none => none)
  ({ c with hsPending := !outs.isEmpty }, outs)

/-- `onHandshake` at time `now`: sessions are expired first; the result says whether the channel starts over
    (the prospective session was given up and it was our own attempt, or a caller is waiting) -/
def Chan.onHandshakeAt (c : Chan) (now : Nat) : Chan × List Wire × Bool :=
  let c' := c.expire now
  let restart : Bool := match c.next, c'.next with
    | some n, none => n.sess.isInit || (c'.cur.isNone && decide (c.waiting > 0))
    | _, _ => false
  let (c'', outs) := c'.onHandshake
  (c'', outs, restart)

/-- a caller blocks in `getOrInit` (`Send`/`WaitReady` with a live context); `false` = it returns at once
    because there is a current session -/
def Chan.pend (c : Chan) (now : Nat) : Chan × Bool :=
  let c := c.expire now
  if c.cur.isSome then (c, false) else ({ c with waiting := c.waiting + 1 }, true)

/-- the context of a blocked caller is cancelled -/
def Chan.unpend (c : Chan) : Chan := { c with waiting := c.waiting - 1 }

/-- `Channel.Send` with a context that is already done: sends through the current session or reports that it
    would block (after arming the rekey timer if there is no prospective session) -/
def Chan.send (c : Chan) (p : Bytes) (now : Nat) : Chan × Option (Option Wire) :=
  let c := c.expire now
  match c.cur with
  | some e =>
    let (s', out) := e.sess.send p now
    ({ c with cur := some { e with sess := s' } }, some out)
  | none => ({ c with rekeyPending := c.rekeyPending || c.next.isNone }, none)

def Chan.isReadyNow (c : Chan) : Bool := c.cur.isSome

end P2PVerif.P2PKE
