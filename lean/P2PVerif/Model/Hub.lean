import P2PVerif.Model.Util
import P2PVerif.Gen.Facts
/-! s/swarmutil/hubs.go and queue.go as labelled transition systems.

One transition = one atomic Go action (a `select` picks one ready case; an unbuffered channel operation is a
rendezvous of a sender parked in a select with a receiver parked in a select; closing a channel is atomic).
Any number of goroutines call `Receive`/`ServeAsk` (receivers) and `Deliver` (deliverers); contexts are
cancelled and the hub is closed at arbitrary moments. WHICH cases each select offers, and what
`CloseWithError(nil)` stores, is read from the source on every run (`Gen.Facts.selects`, `closeNilGuard`);
the shape of each function (TellHub.Receive = closed check, non-blocking select, blocking select; AskHub.ServeAsk
= closed check, blocking select; Deliver = one select, then wait for the callback) is fixed here. -/
namespace P2PVerif.Hub
open P2PVerif

inductive Kind | tell | ask
deriving DecidableEq, Repr

/-- how a call returned. `nilErr` = it returned a nil error although the hub was closed. -/
inductive Res | ok | ctxErr | closedErr | nilErr
deriving DecidableEq, Repr

inductive RPc | start | sel1 | sel2 | inCb (d : Nat) | done (r : Res)
deriving DecidableEq, Repr

inductive DPc | sel | committed | done (r : Res) (n : Nat)
deriving DecidableEq, Repr

structure R where
  pc : RPc
  ctx : Bool := false
deriving Repr, DecidableEq

structure D where
  pc : DPc
  ctx : Bool := false
deriving Repr, DecidableEq

/-- the select skeleton -/
structure Skel where
  kind : Kind
  /-- first (non-blocking) select of TellHub.Receive -/
  s1Closed : Bool
  s1Chan : Bool
  /-- the blocking select of Receive / ServeAsk -/
  s2Ctx : Bool
  s2Closed : Bool
  s2Chan : Bool
  /-- Deliver's select -/
  dClosed : Bool
  dCtx : Bool
  dChan : Bool
  /-- CloseWithError(nil) stores ErrClosed -/
  nilGuard : Bool
deriving Repr, DecidableEq

def casesOf (fn : String) (idx : Nat) : List String :=
  match Gen.Facts.selects.find? (fun s => s.fn == fn && s.idx == idx) with
  | some s => s.cases
  | none => []

def guardOf (fn : String) : Bool := (Gen.Facts.closeNilGuard.lookup fn).getD false

/-- the skeleton of TellHub as the source has it now -/
def Skel.tell : Skel :=
  { kind := .tell,
    s1Closed := (casesOf "TellHub.Receive" 0).contains "recv:q.closed",
    s1Chan := (casesOf "TellHub.Receive" 0).contains "recv:q.delivers",
    s2Ctx := (casesOf "TellHub.Receive" 1).contains "recv:ctx.Done()",
    s2Closed := (casesOf "TellHub.Receive" 1).contains "recv:q.closed",
    s2Chan := (casesOf "TellHub.Receive" 1).contains "recv:q.delivers",
    dClosed := (casesOf "TellHub.Deliver" 0).contains "recv:q.closed",
    dCtx := (casesOf "TellHub.Deliver" 0).contains "recv:ctx.Done()",
    dChan := (casesOf "TellHub.Deliver" 0).contains "send:q.delivers",
    nilGuard := guardOf "TellHub.CloseWithError" }

/-- the skeleton of AskHub as the source has it now (ServeAsk has no non-blocking select) -/
def Skel.ask : Skel :=
  { kind := .ask, s1Closed := false, s1Chan := false,
    s2Ctx := (casesOf "AskHub.ServeAsk" 0).contains "recv:ctx.Done()",
    s2Closed := (casesOf "AskHub.ServeAsk" 0).contains "recv:q.closed",
    s2Chan := (casesOf "AskHub.ServeAsk" 0).contains "recv:q.reqs",
    dClosed := (casesOf "AskHub.Deliver" 0).contains "recv:q.closed",
    dCtx := (casesOf "AskHub.Deliver" 0).contains "recv:ctx.Done()",
    dChan := (casesOf "AskHub.Deliver" 0).contains "send:q.reqs",
    nilGuard := guardOf "AskHub.CloseWithError" }

/-- what the code must look like for the properties to hold: every blocking select offers the closed channel
    and the context, and a closed hub reports a non-nil error -/
def Skel.good (sk : Skel) : Bool :=
  sk.s2Ctx && sk.s2Closed && sk.s2Chan && sk.dClosed && sk.dCtx && sk.dChan && sk.nilGuard &&
  (sk.kind == .ask || (sk.s1Closed && sk.s1Chan))

structure St where
  closed : Bool := false
  rs : List R := []
  ds : List D := []
  /-- ghost: deliverers whose message entered a callback / whose callback returned, with the callback's result -/
  started : List Nat := []
  finished : List (Nat × Nat) := []
deriving Repr

inductive Lbl
  | spawnR | spawnD
  | cancelR (r : Nat) | cancelD (d : Nat)
  | close
  | rCheck (r : Nat)                      -- the closed check at the top of Receive / ServeAsk
  | rSel1Closed (r : Nat) | rSel1Default (r : Nat)
  | rendezvous (r d : Nat)                -- receiver r takes deliverer d's request
  | rSel2Ctx (r : Nat) | rSel2Closed (r : Nat)
  | cbReturn (r : Nat) (n : Nat)          -- the callback returns (n = its result, for asks)
  | dCtx (d : Nat) | dClosed (d : Nat) | dDone (d : Nat)
deriving Repr, DecidableEq

def setR (s : St) (i : Nat) (r : R) : St := { s with rs := s.rs.set i r }
def setD (s : St) (i : Nat) (d : D) : St := { s with ds := s.ds.set i d }

/-- what a call returns when it observes the closed channel -/
def Skel.closedRes (sk : Skel) : Res := if sk.nilGuard then .closedErr else .nilErr

def step (sk : Skel) (s : St) : Lbl → Option St
  | .spawnR => some { s with rs := s.rs ++ [{ pc := .start }] }
  | .spawnD => some { s with ds := s.ds ++ [{ pc := .sel }] }
  | .cancelR i => (s.rs[i]?).map fun r => setR s i { r with ctx := true }
  | .cancelD i => (s.ds[i]?).map fun d => setD s i { d with ctx := true }
  | .close => some { s with closed := true }
  | .rCheck i =>
    match s.rs[i]? with
    | some r =>
      if r.pc = .start then
        -- `if err := checkClosed(); err != nil { return err }`: with a nil stored error the check passes
        if s.closed ∧ sk.nilGuard then some (setR s i { r with pc := .done .closedErr })
        else some (setR s i { r with pc := if sk.kind = .tell then .sel1 else .sel2 })
      else none
    | none => none
  | .rSel1Closed i =>
    match s.rs[i]? with
    | some r => if r.pc = .sel1 ∧ s.closed = true ∧ sk.s1Closed = true then some (setR s i { r with pc := .done sk.closedRes }) else none
    | none => none
  | .rSel1Default i =>
    match s.rs[i]? with
    | some r =>
      -- default is taken only when no offered case is ready
      if r.pc = .sel1 ∧ ¬(s.closed = true ∧ sk.s1Closed = true) ∧
          ¬(sk.s1Chan = true ∧ s.ds.any (fun d => d.pc == .sel) = true) then
        some (setR s i { r with pc := .sel2 }) else none
    | none => none
  | .rendezvous i j =>
    match s.rs[i]?, s.ds[j]? with
    | some r, some d =>
      if ((r.pc = .sel1 ∧ sk.s1Chan = true) ∨ (r.pc = .sel2 ∧ sk.s2Chan = true)) ∧ d.pc = .sel ∧ sk.dChan = true then
        some { (setD (setR s i { r with pc := .inCb j }) j { d with pc := .committed }) with started := j :: s.started }
      else none
    | _, _ => none
  | .rSel2Ctx i =>
    match s.rs[i]? with
    | some r => if r.pc = .sel2 ∧ r.ctx = true ∧ sk.s2Ctx = true then some (setR s i { r with pc := .done .ctxErr }) else none
    | none => none
  | .rSel2Closed i =>
    match s.rs[i]? with
    | some r => if r.pc = .sel2 ∧ s.closed = true ∧ sk.s2Closed = true then
        some (setR s i { r with pc := .done sk.closedRes }) else none
    | none => none
  | .cbReturn i n =>
    match s.rs[i]? with
    | some r =>
      match r.pc with
      | .inCb j => some { (setR s i { r with pc := .done .ok }) with finished := (j, n) :: s.finished }
      | _ => none
    | none => none
  | .dCtx j =>
    match s.ds[j]? with
    | some d => if d.pc = .sel ∧ d.ctx = true ∧ sk.dCtx = true then some (setD s j { d with pc := .done .ctxErr 0 }) else none
    | none => none
  | .dClosed j =>
    match s.ds[j]? with
    | some d => if d.pc = .sel ∧ s.closed = true ∧ sk.dClosed = true then some (setD s j { d with pc := .done sk.closedRes 0 }) else none
    | none => none
  | .dDone j =>
    match s.ds[j]? with
    | some d =>
      match s.finished.lookup j with
      | some n => if d.pc = .committed then some (setD s j { d with pc := .done .ok n }) else none
      | none => none
    | none => none

def run (sk : Skel) : St → List Lbl → Option St
  | s, [] => some s
  | s, l :: ls => (step sk s l).bind fun s' => run sk s' ls

/-- labels a participant can take on its own (everything except the environment's spawn/cancel/close and the
    callback's return, which the application controls) -/
def internal : Lbl → Bool
  | .spawnR | .spawnD | .cancelR _ | .cancelD _ | .close | .cbReturn .. => false
  | _ => true

/-! ## the bounded queue (queue.go)

Slots (buffers) circulate between the free list, the queue and running callbacks. -/

structure QMsg where
  src : Nat
  dst : Nat
  payload : Bytes
deriving Repr, DecidableEq

structure Queue where
  cap : Nat
  mtu : Nat
  closed : Bool := false
  free : List Nat                      -- slot ids on the free list
  queue : List (Nat × QMsg) := []      -- (slot, contents), oldest first
  inCb : List (Nat × Nat × QMsg) := [] -- (receiver, slot, contents) while a callback runs
deriving Repr

def Queue.new (cap mtu : Nat) : Queue := { cap, mtu, free := List.range cap }

/-- `Deliver` / `DeliverVec` (the latter has no MTU check of its own): `false` = refused -/
def Queue.deliver (q : Queue) (m : QMsg) (checkMTU : Bool) : Queue × Bool :=
  if checkMTU ∧ m.payload.length > q.mtu then (q, false)
  else if q.closed then (q, false)
  else match q.free with
    | [] => (q, false)
    | s :: rest => ({ q with free := rest, queue := q.queue ++ [(s, m)] }, true)

/-- `Receive` takes the oldest message and enters the callback; `none` = nothing to take -/
def Queue.take (q : Queue) (r : Nat) : Option (Queue × QMsg) :=
  match q.queue with
  | [] => none
  | (s, m) :: rest => some ({ q with queue := rest, inCb := (r, s, m) :: q.inCb }, m)

/-- the callback of receiver `r` returns: its slot is zeroed and goes back to the free list -/
def Queue.cbReturn (q : Queue) (r : Nat) : Queue :=
  match q.inCb.find? (·.1 == r) with
  | some (_, s, _) => { q with inCb := q.inCb.filter (·.1 != r), free := q.free ++ [s] }
  | none => q

/-- `Purge` -/
def Queue.purge (q : Queue) : Queue × Nat :=
  ({ q with queue := [], free := q.free ++ q.queue.map (·.1) }, q.queue.length)

/-- `Close` (completes once every callback has returned): everything is discarded -/
def Queue.close (q : Queue) : Queue := { q with closed := true, queue := [], free := [] }

inductive QOp
  | deliver (m : QMsg) (vec : Bool)
  | take (r : Nat)
  | cbReturn (r : Nat)
  | cancel (r : Nat)          -- a Receive whose context is cancelled returns without touching the queue
  | purge
  | close
deriving Repr

def Queue.step (q : Queue) : QOp → Queue
  | .deliver m vec => (q.deliver m (!vec)).1
  | .take r => if q.closed then q else match q.take r with | some (q', _) => q' | none => q
  | .cbReturn r => q.cbReturn r
  | .cancel _ => q
  | .purge => q.purge.1
  | .close => if q.inCb.isEmpty then q.close else q

end P2PVerif.Hub
