import P2PVerif.Model.Varint
/-! p/p2pmux: the five mux/demux function pairs and the channel dispatch table of `muxCore`.
    Written from stringmux.go, varintmux.go, uint16mux.go, uint32mux.go, uint64mux.go, mux.go. -/
namespace P2PVerif.Mux
open P2PVerif

inductive Kind | str | varint | u16 | u32 | u64
deriving DecidableEq, Repr

/-- A channel id: a byte string for string muxes, a number for the integer muxes. -/
inductive Chan | s (c : Bytes) | n (c : Nat)
deriving DecidableEq, Repr

inductive DemuxRes | ok (c : Chan) (body : Bytes) | err
deriving DecidableEq, Repr

def be2 (c : Nat) : Bytes := [c / 256 % 256, c % 256]
def be4 (c : Nat) : Bytes := [c / 16777216 % 256, c / 65536 % 256, c / 256 % 256, c % 256]
def be8 (c : Nat) : Bytes :=
  [c / 72057594037927936 % 256, c / 281474976710656 % 256, c / 1099511627776 % 256, c / 4294967296 % 256,
   c / 16777216 % 256, c / 65536 % 256, c / 256 % 256, c % 256]

/-- the header each muxFunc prepends -/
def header : Kind → Chan → Bytes
  | .str, .s c => Varint.put c.length ++ c
  | .varint, .n c => Varint.put c
  | .u16, .n c => be2 c
  | .u32, .n c => be4 c
  | .u64, .n c => be8 c
  | _, _ => []

def mux (k : Kind) (c : Chan) (x : Bytes) : Bytes := header k c ++ x

/-- A channel id is well-typed for a mux kind (what the Go type system enforces). -/
def Chan.WF : Kind → Chan → Prop
  | .str, .s c => c.length < 2 ^ 64
  | .varint, .n c => c < 2 ^ 64
  | .u16, .n c => c < 2 ^ 16
  | .u32, .n c => c < 2 ^ 32
  | .u64, .n c => c < 2 ^ 64
  | _, _ => False

def demux : Kind → Bytes → DemuxRes
  | .str, x =>
    match Varint.get x with
    | .ok l n =>
      let rest := x.drop n
      -- `uint64(len(x)) < chanLength` : compared without converting the wire value to a signed int
      if rest.length < l then .err else .ok (.s (rest.take l)) (rest.drop l)
    | _ => .err
  | .varint, x =>
    match Varint.get x with
    | .ok v n => .ok (.n v) (x.drop n)
    | _ => .err
  | .u16, x =>
    match x with
    | b0 :: b1 :: rest => .ok (.n (b0 * 256 + b1)) rest
    | _ => .err
  | .u32, x =>
    match x with
    | b0 :: b1 :: b2 :: b3 :: rest => .ok (.n (((b0 * 256 + b1) * 256 + b2) * 256 + b3)) rest
    | _ => .err
  | .u64, x =>
    match x with
    | b0 :: b1 :: b2 :: b3 :: b4 :: b5 :: b6 :: b7 :: rest =>
      .ok (.n (((((((b0 * 256 + b1) * 256 + b2) * 256 + b3) * 256 + b4) * 256 + b5) * 256 + b6) * 256 + b7)) rest
    | _ => .err

/-- `muxCore.handleRecv`: a frame is handed to the swarm opened for the channel it demuxes to, if any. -/
def dispatch (k : Kind) (opened : List Chan) (frame : Bytes) : Option (Chan × Bytes) :=
  match demux k frame with
  | .ok c body => if c ∈ opened then some (c, body) else none
  | .err => none

/-- `muxedSwarm.MTU`: the inner MTU minus the header this channel's frames carry. -/
def mtu (k : Kind) (c : Chan) (innerMTU : Nat) : Int := (innerMTU : Int) - ((header k c).length : Int)

/-- `muxedSwarm.Tell` over an inner swarm that refuses frames longer than its MTU: the frame or the MTU error. -/
def tell (k : Kind) (c : Chan) (innerMTU : Nat) (x : Bytes) : Option Bytes :=
  if (mux k c x).length ≤ innerMTU then some (mux k c x) else none

end P2PVerif.Mux
