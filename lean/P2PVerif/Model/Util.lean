/-! Shared helpers for the executable models and the line-protocol driver (core Lean only). -/
namespace P2PVerif

/-- Bytes are `Nat`s (< 256 on every path that comes from the wire); payloads stay opaque. -/
abbrev Bytes := List Nat

def hexDigit? (c : Char) : Option Nat :=
  if '0' ≤ c ∧ c ≤ '9' then some (c.toNat - '0'.toNat)
  else if 'a' ≤ c ∧ c ≤ 'f' then some (c.toNat - 'a'.toNat + 10)
  else if 'A' ≤ c ∧ c ≤ 'F' then some (c.toNat - 'A'.toNat + 10)
  else none

def parseHexAux : List Char → Option Bytes
  | [] => some []
  | [_] => none
  | a :: b :: rest => do
    let x ← hexDigit? a
    let y ← hexDigit? b
    let r ← parseHexAux rest
    pure ((x * 16 + y) :: r)

/-- wire tokens are `x` followed by hex digits, so that the empty byte string is the token `x` -/
def parseHex (s : String) : Option Bytes :=
  match s.toList with
  | 'x' :: rest => parseHexAux rest
  | _ => none

def hexChar (n : Nat) : Char :=
  if n < 10 then Char.ofNat (n + '0'.toNat) else Char.ofNat (n - 10 + 'a'.toNat)

def toHex (bs : Bytes) : String :=
  String.ofList ('x' :: bs.flatMap (fun b => [hexChar (b / 16 % 16), hexChar (b % 16)]))

def words (line : String) : List String :=
  (line.trimAscii.toString.splitOn " ").filter (· ≠ "")

/-- split a protocol line `op args… | impl-result` -/
def splitLine (line : String) : List String × String :=
  match line.trimAscii.toString.splitOn " | " with
  | [l] => (words l, "")
  | l :: r => (words l, " | ".intercalate r)
  | [] => ([], "")

end P2PVerif
