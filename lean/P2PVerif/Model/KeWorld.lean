import P2PVerif.Model.P2PKE
/-! Executions of the P2PKE model: (1) any number of honest sessions against a symbolic (Dolev–Yao style)
    adversary that owns any number of signing keys and ephemerals and controls the transport; (2) one honest
    session pair under an arbitrary schedule of its own genuine messages; (3) one channel under an arbitrary
    sequence of operations and incoming terms. -/
namespace P2PVerif.P2PKE
open P2PVerif

/-! ## (1) World: honest sessions + adversary -/

/-- honest session `i` uses ephemeral `2*i`; odd ephemerals belong to the adversary -/
def advEph (e : Eph) : Bool := e % 2 == 1

structure World where
  sess : List Sess := []
  /-- every term an honest session has emitted -/
  wire : List Wire := []
  /-- log of honest `Send` calls: session index, emitted term, plaintext -/
  sends : List (Nat × Wire × Bytes) := []
  /-- log of application deliveries: session index, accepted term, plaintext -/
  apps : List (Nat × Wire × Bytes) := []
deriving Repr

def World.emit (W : World) : Option Wire → World
  | some w => { W with wire := w :: W.wire }
  | none => W

/-- a new honest session (its ephemeral is fresh); an initiator's InitHello goes onto the wire -/
def World.newSess (W : World) (isInit : Bool) (key : KeyId) (now rejectAfter : Nat) : World :=
  let s := Sess.new isInit key (2 * W.sess.length) now rejectAfter
  ({ W with sess := W.sess ++ [s] }).emit (if isInit then s.handshake else none)

/-- honest session `i` is handed `w` -/
def World.deliver (W : World) (i : Nat) (w : Wire) (now : Nat) : World :=
  match W.sess[i]? with
  | none => W
  | some s =>
    let (s', r) := s.deliver w now
    let W := { W with sess := W.sess.set i s' }
    match r with
    | .hs out => W.emit out
    | .app p => { W with apps := (i, w, p) :: W.apps }
    | _ => W

/-- honest session `i` asks for its current handshake message (retransmission) -/
def World.handshake (W : World) (i : Nat) : World :=
  match W.sess[i]? with
  | none => W
  | some s => W.emit s.handshake

/-- the application on top of honest session `i` sends `p` -/
def World.send (W : World) (i : Nat) (p : Bytes) (now : Nat) : World :=
  match W.sess[i]? with
  | none => W
  | some s =>
    let (s', out) := s.send p now
    let W := { W with sess := W.sess.set i s' }
    match out with
    | some w => { W with wire := w :: W.wire, sends := (i, w, p) :: W.sends }
    | none => W

def CSig.signer? : CSig → Option KeyId
  | .cb1 s _ _ => some s | .cb2 s _ _ _ _ _ => some s | .bogus => none

/-- channel-binding signatures the adversary can read: those inside payloads encrypted under a DH it
    takes part in -/
def learn : Wire → List CSig
  | .respHello eR toward _ _ s => if advEph eR || advEph toward then [s] else []
  | .initDone eI eR _ s => if advEph eI || advEph eR then [s] else []
  | _ => []

def World.advCS (W : World) : List CSig := W.wire.flatMap learn

/-- a channel-binding signature the adversary may put into a term it builds: one it has read, one made with
    a key it owns (`hk` marks the honest keys), or garbage -/
def advCanUse (hk : KeyId → Bool) (W : World) (s : CSig) : Prop :=
  s ∈ W.advCS ∨ s = .bogus ∨ ∃ k, s.signer? = some k ∧ hk k = false

/-- a timestamp signature it may use: any seen in the clear, one made with its own key, or garbage -/
def advCanUseTS (hk : KeyId → Bool) (W : World) (s : TSig) : Prop :=
  (∃ e h, Wire.initHello e h ∈ W.wire ∧ h.sig = s) ∨ s = .bogus ∨ ∃ k t, s = .ts k t ∧ hk k = false

/-- terms the adversary can put on the transport -/
inductive Buildable (hk : KeyId → Bool) (W : World) : Wire → Prop
  | replay (w) : w ∈ W.wire → Buildable hk W w
  | junk (t c l) : Buildable hk W (.junk t c l)
  | short : Buildable hk W .short
  /-- any public ephemeral (its own or a spliced honest one), any claimed key and time -/
  | hello (e : Eph) (h : Hello) : advCanUseTS hk W h.sig → Buildable hk W (.initHello e h)
  | resp (eR toward seen k s) : (advEph eR = true ∨ advEph toward = true) → advCanUse hk W s →
      Buildable hk W (.respHello eR toward seen k s)
  | done (eI eR tr s) : (advEph eI = true ∨ advEph eR = true) → advCanUse hk W s → Buildable hk W (.initDone eI eR tr s)
  | rdone (eI eR tr) : (advEph eI = true ∨ advEph eR = true) → Buildable hk W (.respDone eI eR tr)
  | data (eI eR tr dir c p) : (advEph eI = true ∨ advEph eR = true) → Buildable hk W (.data eI eR tr dir c p)

/-- reachable worlds: honest parties use honest keys; everything they receive is adversary-built -/
inductive Reach (hk : KeyId → Bool) : World → Prop
  | init : Reach hk {}
  | newSess (W isInit key now ra) : Reach hk W → hk key = true → Reach hk (W.newSess isInit key now ra)
  | deliver (W i w now) : Reach hk W → Buildable hk W w → Reach hk (W.deliver i w now)
  | handshake (W i) : Reach hk W → Reach hk (W.handshake i)
  | send (W i p now) : Reach hk W → Reach hk (W.send i p now)

/-! ## (2) one honest pair under a schedule of its own genuine messages -/

structure Pair where
  i : Sess
  r : Sess
  /-- every message either side has emitted so far, oldest first -/
  pool : List Wire := []
deriving Repr

def Pair.init (kI kR tI tR ra : Nat) : Pair :=
  let i := Sess.new true kI 0 tI ra
  { i, r := Sess.new false kR 2 tR ra, pool := i.handshake.toList }

inductive PAct
  | toI (k : Nat) (now : Nat)      -- pool message k is delivered to the initiator (also reflections / duplicates)
  | toR (k : Nat) (now : Nat)
  | hsI | hsR                       -- retransmission: ask for the current handshake message
  | sendI (p : Bytes) (now : Nat) | sendR (p : Bytes) (now : Nat)
deriving Repr

def Pair.add (P : Pair) (o : Option Wire) : Pair :=
  match o with | some w => { P with pool := P.pool ++ [w] } | none => P

def Pair.step (P : Pair) : PAct → Pair
  | .toI k now =>
    match P.pool[k]? with
    | none => P
    | some w => let (s, r) := P.i.deliver w now; ({ P with i := s }).add (match r with | .hs o => o | _ => none)
  | .toR k now =>
    match P.pool[k]? with
    | none => P
    | some w => let (s, r) := P.r.deliver w now; ({ P with r := s }).add (match r with | .hs o => o | _ => none)
  | .hsI => P.add P.i.handshake
  | .hsR => P.add P.r.handshake
  | .sendI p now => let (s, o) := P.i.send p now; ({ P with i := s }).add o
  | .sendR p now => let (s, o) := P.r.send p now; ({ P with r := s }).add o

def Pair.run (P : Pair) (acts : List PAct) : Pair := acts.foldl Pair.step P

/-- "each side's current handshake message is delivered once more, in sequence": initiator's to the responder,
    the responder's answer (its current handshake message) to the initiator, twice. -/
def Pair.exchange (P : Pair) (now : Nat) : Pair :=
  let round (P : Pair) : Pair :=
    let P := match P.i.handshake with
      | some w => { P with r := (P.r.deliver w now).1 }
      | none => P
    match P.r.handshake with
    | some w => { P with i := (P.i.deliver w now).1 }
    | none => P
  round (round P)

/-! ## (3) one channel under arbitrary operations -/

inductive COp
  | deliver (w : Wire) (eph : Eph) (now : Nat)
  | send (p : Bytes) (now : Nat)
  | rekey (eph : Eph) (now : Nat)
  | hs (now : Nat)
  | expire (now : Nat)
  | pend (now : Nat)
  | unpend
deriving Repr

structure COut where
  app : Option Bytes := none
  sent : List Wire := []
  blocked : Bool := false
deriving Repr

def Chan.step (c : Chan) (lt : IdLt) : COp → Chan × COut
  | .deliver w eph now => let (c', r) := c.deliver lt w eph now; (c', { app := r.app, sent := r.sent.toList })
  | .send p now =>
    match c.send p now with
    | (c', none) => (c', { blocked := true })
    | (c', some o) => (c', { sent := o.toList })
  | .rekey eph now => (c.onRekey lt eph now, {})
  | .hs now => let (c', outs, _) := c.onHandshakeAt now; (c', { sent := outs })
  | .expire now => (c.expire now, {})
  | .pend now => let (c', b) := c.pend now; (c', { blocked := b })
  | .unpend => (c.unpend, {})

def Chan.run (c : Chan) (lt : IdLt) (ops : List COp) : Chan := ops.foldl (fun c op => (c.step lt op).1) c

def Chan.fresh (key : KeyId) (accept : KeyId → Bool) (rejectAfter keepAlive hsTimeout : Nat) : Chan :=
  { key, accept, rejectAfter, keepAlive, hsTimeout }

/-! ### reliable exchange between two channels -/

/-- hand every message of `ws` to `c`, collecting what it sends in reply -/
def Chan.deliverAll (c : Chan) (lt : IdLt) (ws : List Wire) (eph now : Nat) : Chan × List Wire :=
  ws.foldl (fun (acc : Chan × List Wire) w =>
    let (c', r) := acc.1.deliver lt w eph now
    (c', acc.2 ++ r.sent.toList)) (c, [])

/-- one round trip: everything pending for B is delivered, then everything B answered is delivered to A;
    returns what A answered in turn -/
def exchangeRound (lt : IdLt) (A B : Chan) (toB : List Wire) (ephA ephB now : Nat) : Chan × Chan × List Wire :=
  let (B', toA) := B.deliverAll lt toB ephB now
  let (A', toB') := A.deliverAll lt toA ephA now
  (A', B', toB')

/-- A's handshake timer fires and the network is reliable for three round trips -/
def reliableSuffix (lt : IdLt) (A B : Chan) (eph now : Nat) : Chan × Chan :=
  let (A, out, _) := A.onHandshakeAt now
  let (A, B, o) := exchangeRound lt A B out eph (eph + 1) (now + 1)
  let (A, B, o) := exchangeRound lt A B o (eph + 2) (eph + 3) (now + 2)
  let (A, B, _) := exchangeRound lt A B o (eph + 4) (eph + 5) (now + 3)
  (A, B)

/-- both sides have a current session and a Send on A is delivered at B -/
def Established (lt : IdLt) (A B : Chan) (now : Nat) (p : Bytes) : Prop :=
  A.cur.isSome ∧ B.cur.isSome ∧
  ∃ A' w, A.send p now = (A', some (some w)) ∧ (B.deliver lt w 0 now).2.app = some p

/-- from fresh channels: A's pending Send arms its rekey timer; once the network is reliable the Send completes
    within three round trips (no timeout inside the window) -/
def EstablishFresh (kA kB : KeyId) (ra ka ht : Nat) (lt : IdLt) (t0 : Nat) (p : Bytes) : Prop :=
  10 ≤ ra → 10 ≤ ka → 10 ≤ ht →
  let A := (Chan.fresh kA (fun k => k == kB) ra ka ht).onRekey lt 100 t0
  let B := Chan.fresh kB (fun k => k == kA) ra ka ht
  let (A, B) := reliableSuffix lt A B 102 t0
  Established lt A B (t0 + 4) p

/-- the peer restarts with a fresh channel — after the connection was established, or after B had only seen
    A's first InitHello — and its new handshake completes within three round trips although B still holds the
    stale sessions -/
def EstablishAfterRestart (kA kB : KeyId) (ra ka ht : Nat) (lt : IdLt) (t0 : Nat) (p : Bytes) : Prop :=
  30 ≤ ra → 30 ≤ ka → 30 ≤ ht →
  let A0 := (Chan.fresh kA (fun k => k == kB) ra ka ht).onRekey lt 100 t0
  let B0 := Chan.fresh kB (fun k => k == kA) ra ka ht
  -- (a) restart after establishment
  (let (_, B) := reliableSuffix lt A0 B0 102 t0
   let A' := (Chan.fresh kA (fun k => k == kB) ra ka ht).onRekey lt 200 (t0 + 5)
   let (A', B) := reliableSuffix lt A' B 202 (t0 + 5)
   Established lt A' B (t0 + 9) p) ∧
  -- (b) restart after B saw only the first InitHello
  (let (A1, out, _) := A0.onHandshakeAt t0
   let (B, _) := B0.deliverAll lt out 102 (t0 + 1)
   let _ := A1
   let A' := (Chan.fresh kA (fun k => k == kB) ra ka ht).onRekey lt 200 (t0 + 5)
   let (A', B) := reliableSuffix lt A' B 202 (t0 + 5)
   Established lt A' B (t0 + 9) p)

/-- the remote key of the session in a slot -/
def slotKey : Option Entry → Option KeyId
  | some e => e.sess.rKey
  | none => none

end P2PVerif.P2PKE
