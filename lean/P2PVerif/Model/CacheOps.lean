import P2PVerif.Model.Cache
/-! Operation sequences over the cache model, and its well-formedness invariant. -/
namespace P2PVerif.Kad
open P2PVerif

inductive Op
  | update (e : Entry) (victim : Bytes)
  | delete (key : Bytes)
  | expire (now : Nat)
deriving Repr

/-- one step; an inadmissible victim choice (never produced by the implementation) leaves the cache unchanged -/
def Cache.apply (c : Cache) : Op → Cache
  | .update e v => match c.update e v with | .ok c' _ _ => c' | .inadmissible => c
  | .delete k => (c.delete k).1
  | .expire now => (c.expire now).1

def Cache.run (c : Cache) (ops : List Op) : Cache := ops.foldl Cache.apply c

/-- The last conjunct (`minExp = 0` only when no entry carries an expiry) was added to make the invariant
    inductive: without it `put` of an entry with `expires = x ≠ 0` into a bucket with `minExp = 0` that already
    holds an entry expiring before `x` sets `minExp := x`, above that entry's expiry. Such a bucket is not
    reachable (`delete` recomputes the minimum, `expire`/`evict` keep a lower bound), but it satisfies the
    first three conjuncts. -/
def Bucket.WF (locus : Bytes) (i : Nat) (b : Bucket) : Prop :=
  (b.entries.map (·.key)).Nodup ∧ (∀ e ∈ b.entries, bucketIndex locus e.key = i) ∧
  (b.minExp = 0 ∨ ∀ e ∈ b.entries, e.expires ≠ 0 → b.minExp ≤ e.expires) ∧
  (b.minExp = 0 → ∀ e ∈ b.entries, e.expires = 0)

structure Cache.WF (c : Cache) : Prop where
  count_eq : c.count = c.entries.length
  count_le : c.count ≤ c.max
  buckets : ∀ (i : Nat) (b : Bucket), c.buckets[i]? = some b → b.WF c.locus i

/-- all bytes are bytes -/
def validBytes (bs : Bytes) : Prop := ∀ b ∈ bs, b < 256

end P2PVerif.Kad
