import P2PVerif.Model.KeWorld
/-! Identity attribution in the three secure swarms (s/p2pkeswarm, s/quicswarm, s/sshswarm), as small decision
    models. Proof of possession inside TLS 1.3 (quic-go) and inside the SSH user-auth signature check
    (x/crypto/ssh) is ASSUMED: a step `sign k` / a completed TLS handshake with key `k` can only be produced by a
    holder of `k`'s private half. A peer identity is the fingerprint of a key; fingerprints are injective here
    (`KeyId` stands for both). -/
namespace P2PVerif.Secure
open P2PVerif P2PVerif.P2PKE

/-! ## sshswarm server: the x/crypto/ssh public-key user-auth loop (v0.9.0) seen from `newServer` -/

inductive AuthStep
  | query (k : KeyId)            -- "would this key be acceptable?" — no signature, anyone can send it for any key
  | sign (k : KeyId)             -- a valid signature by `k` over the session: only a holder of `k` can send it
  | badSign (k : KeyId)          -- an invalid signature for `k`
deriving DecidableEq, Repr

structure SshSrv where
  /-- results of `PublicKeyCallback` cached per key: the permissions it returned (here: the key stored in
      `Permissions.Extensions`) -/
  cache : List (KeyId × KeyId) := []
  /-- the closure variable of the unrepaired code: the key of the most recent callback invocation -/
  lastCallback : Option KeyId := none
  /-- set when authentication succeeded: the permissions of the key that was proven -/
  authed : Option KeyId := none
deriving Repr

/-- the callback of `newServer`: returns permissions carrying the key it was asked about -/
def SshSrv.callback (s : SshSrv) (k : KeyId) : SshSrv × KeyId :=
  match s.cache.lookup k with
  | some p => (s, p)                                     -- cached: the callback is not invoked again
  | none => ({ s with cache := (k, k) :: s.cache, lastCallback := some k }, k)

def SshSrv.step (s : SshSrv) : AuthStep → SshSrv
  | .query k => if s.authed.isSome then s else (s.callback k).1
  | .sign k =>
    if s.authed.isSome then s else
    let (s', perms) := s.callback k
    { s' with authed := some perms }                     -- `sconn.Permissions` = the candidate's permissions
  | .badSign k => if s.authed.isSome then s else (s.callback k).1

def SshSrv.run (steps : List AuthStep) : SshSrv := steps.foldl SshSrv.step {}

/-- the identity `newServer` records for the connection: the key in the authenticated permissions -/
def SshSrv.identity (s : SshSrv) : Option KeyId := s.authed

/-- what the unrepaired code recorded: the closure variable -/
def SshSrv.identityClosure (s : SshSrv) : Option KeyId := if s.authed.isSome then s.lastCallback else none

/-- the steps a peer holding exactly the keys `held` can produce -/
def stepsBy (held : KeyId → Bool) (steps : List AuthStep) : Prop :=
  ∀ st ∈ steps, match st with | .sign k => held k = true | _ => True

/-! ## quicswarm: dial with an expected identity, serve behind the allow function -/

/-- `withSession`: the connection's peer key was proven by TLS; the payload function runs only if its
    fingerprint is the identity in the destination address -/
def quicMayUse (dstID : KeyId) (provenKey : KeyId) : Bool := provenKey == dstID

/-- `serve`: an accepted connection is handled only if the allow function admits the proven identity; the
    source identity of every message on it is that proven key -/
def quicAccept (allow : KeyId → Bool) (provenKey : KeyId) : Option KeyId := if allow provenKey then some provenKey else none

/-! ## p2pkeswarm: one channel per transport address -/

/-- the acceptance predicate a channel is created with -/
inductive Created | inbound | outbound (dstID : KeyId)
deriving DecidableEq, Repr

def acceptOf (whitelist : KeyId → Bool) : Created → KeyId → Bool
  | .inbound, k => whitelist k
  | .outbound d, k => k == d

/-- `getFullAddr` after `WaitReady`: use the channel only if its remote key is the addressed identity -/
def keMayUse (dstID : KeyId) (c : Chan) : Bool :=
  match c.remoteKey with
  | some k => c.cur.isSome && k == dstID
  | none => false

/-- `handleMessage`: the source identity attached to application data is the channel's remote key, read after
    `Deliver` returned the data -/
def keSrcID (c : Chan) : Option KeyId := c.remoteKey

end P2PVerif.Secure
