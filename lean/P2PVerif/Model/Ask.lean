import P2PVerif.Model.Mbapp
/-! Ask plumbing that is not the hub itself: completing an ask into the caller's buffer (mbapp `ask.complete` +
    `Swarm.Ask`, sshswarm `Ask`, quicswarm `readFrame`), and quicswarm's length-prefixed frames. -/
namespace P2PVerif.Ask
open P2PVerif

/-- the bytes handed back to the asker, or `none` for `io.ErrShortBuffer` -/
def complete (resp : Bytes) (bufLen : Nat) : Option Bytes :=
  if resp.length ≤ bufLen then some resp else none

/-- quicswarm `writeFrame`: 32-bit big-endian length, then the payload -/
def writeFrame (payload : Bytes) : Bytes := Mbapp.be32 payload.length ++ payload

/-- quicswarm `readFrame` on a byte stream: payload and the rest of the stream; `none` for any error
    (short header, frame larger than `maxLen`, destination buffer of `dstLen` bytes too small, short body) -/
def readFrame (maxLen dstLen : Nat) (stream : Bytes) : Option (Bytes × Bytes) :=
  if stream.length < 4 then none else
  let l := Mbapp.val32 (stream.take 4)
  if l > maxLen then none
  else if dstLen < l then none
  else if (stream.drop 4).length < l then none
  else some ((stream.drop 4).take l, (stream.drop 4).drop l)

/-- mbapp `extractErrorCode`: a negative handler result becomes error code 0xff with an empty body -/
def extractErrorCode (n : Int) : Nat × Nat := if n ≥ 0 then (0, n.toNat) else (255, 0)

end P2PVerif.Ask
