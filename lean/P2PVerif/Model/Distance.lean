import P2PVerif.Model.Util
/-! p/kademlia/distance.go: LeadingZeros, XORBytes/Distance, DistanceCmp, DistanceLz, HasPrefix. -/
namespace P2PVerif.Kad
open P2PVerif

/-- `bits.LeadingZeros8` -/
def lz8 (b : Nat) : Nat :=
  if b ≥ 128 then 0 else if b ≥ 64 then 1 else if b ≥ 32 then 2 else if b ≥ 16 then 3
  else if b ≥ 8 then 4 else if b ≥ 4 then 5 else if b ≥ 2 then 6 else if b ≥ 1 then 7 else 8

/-- `LeadingZeros` -/
def leadingZeros : Bytes → Nat
  | [] => 0
  | b :: bs => if lz8 b < 8 then lz8 b else 8 + leadingZeros bs

/-- `Distance(a, b)`: byte-wise XOR, length `min (len a) (len b)` -/
def distance (a b : Bytes) : Bytes := List.zipWith (· ^^^ ·) a b

/-- `DistanceCmp(x, a, b)` as written: loop over the common prefix, then the length rules. -/
def distanceCmp : Bytes → Bytes → Bytes → Ordering
  | xi :: xs, ai :: as, bi :: bs =>
    if xi ^^^ ai < xi ^^^ bi then .lt
    else if xi ^^^ bi < xi ^^^ ai then .gt
    else distanceCmp xs as bs
  | [], _, _ => .eq
  | _ :: _, a, b => if a.length < b.length then .lt else if b.length < a.length then .gt else .eq

def distanceLt (x a b : Bytes) : Bool := distanceCmp x a b == .lt

/-- `bytes.Compare` -/
def lexCmp : Bytes → Bytes → Ordering
  | [], [] => .eq
  | [], _ :: _ => .lt
  | _ :: _, [] => .gt
  | a :: as, b :: bs => if a < b then .lt else if b < a then .gt else lexCmp as bs

/-- `DistanceLz(a,b)` -/
def distanceLz (a b : Bytes) : Nat := leadingZeros (distance a b)

/-- `Cache.bucketIndex`: XOR into a zeroed buffer as long as the locus, then count leading zeros.
    A key shorter than the locus therefore counts as if it continued with the locus' own bytes. -/
def bucketIndex (locus key : Bytes) : Nat :=
  leadingZeros (distance locus key ++ List.replicate (locus.length - key.length) 0)

/-- bit `i` (MSB first) of a byte string; `true` beyond its end (see `Cache.forEach`). -/
def bitOr1 (d : Bytes) (i : Nat) : Bool :=
  match d[i / 8]? with
  | some b => (b / 2 ^ (7 - i % 8)) % 2 == 1
  | none => true

end P2PVerif.Kad
