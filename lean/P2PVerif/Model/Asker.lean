import P2PVerif.Model.Ask
/-! p/mbapp asker.go + the ask paths of swarm.go (`Ask`, `handleAskReply`, `handleAskRequest`): how a reply finds the
    ask it answers.

An ask is identified by `(counter, origin time, destination)`; the counter is per `mbapp.New` instance and starts
at zero, the origin time is the sender's clock in milliseconds (32 bits). A reply carries the counter and origin
time of the request and is looked up under its source address. Times are milliseconds; the `ask` stream runs the
real swarm under the fake clock, so origin times and deadlines are known. -/
namespace P2PVerif.Mb
open P2PVerif

structure AskId where
  counter : Nat
  origin : Nat
  addr : Nat
deriving DecidableEq, Repr

/-- what an `Ask` call returned -/
inductive AskRes
  | ok (b : Bytes)
  | appErr (code : Nat) (b : Bytes)
  | short
  | ctx
deriving DecidableEq, Repr

structure Pend where
  /-- the caller (ghost) -/
  tag : Nat
  id : AskId
  /-- `len(resp)` -/
  cap : Nat
  deadline : Nat
deriving Repr

/-- one `mbapp.Swarm` seen from the asking side -/
structure Asker where
  counter : Nat := 0
  inflight : List Pend := []
  /-- ghost: what each finished `Ask` returned, most recent first -/
  results : List (Nat × AskRes) := []
  /-- ghost: every ask ever started on this swarm: caller, id, `len(resp)` -/
  issued : List (Nat × AskId × Nat) := []
deriving Repr

def maxAskWait : Nat := 30000

/-- `Ask` up to the point where it waits: a fresh counter, the clock as origin time, an entry in the table -/
def Asker.ask (a : Asker) (tag addr cap now timeout : Nat) : Asker × AskId :=
  let id : AskId := ⟨a.counter + 1, now % 2 ^ 32, addr⟩
  ({ a with counter := a.counter + 1,
            inflight := a.inflight.filter (·.id != id) ++ [{ tag, id, cap, deadline := now + min timeout maxAskWait }],
            issued := (tag, id, cap) :: a.issued }, id)

/-- `ask.complete` followed by the tail of `Ask`, for a response buffer of `cap` bytes -/
def completeCap (cap code : Nat) (body : Bytes) : AskRes :=
  if code > 0 then .appErr code (body.take cap)
  else if body.length > cap then .short
  else .ok body

def complete (p : Pend) (code : Nat) (body : Bytes) : AskRes := completeCap p.cap code body

/-- `handleAskReply`: the reply is looked up under (its counter, its origin time, its source) and removed -/
def Asker.reply (a : Asker) (src counter origin code : Nat) (body : Bytes) : Asker :=
  match a.inflight.find? (fun p => p.id == ⟨counter, origin, src⟩) with
  | none => a
  | some p => { a with inflight := a.inflight.filter (·.id != p.id), results := (p.tag, complete p code body) :: a.results }

/-- contexts whose deadline has passed: those asks return the context's error and leave the table -/
def Asker.expire (a : Asker) (now : Nat) : Asker :=
  { a with inflight := a.inflight.filter (fun p => now < p.deadline),
           results := ((a.inflight.filter (fun p => !(now < p.deadline))).map (fun p => (p.tag, AskRes.ctx))) ++ a.results }

/-- the caller cancels its context -/
def Asker.cancel (a : Asker) (tag : Nat) : Asker :=
  { a with inflight := a.inflight.filter (·.tag != tag),
           results := ((a.inflight.filter (·.tag == tag)).map (fun p => (p.tag, AskRes.ctx))) ++ a.results }

inductive AOp
  | ask (tag addr cap now timeout : Nat)
  | reply (src counter origin code : Nat) (body : Bytes)
  | expire (now : Nat)
  | cancel (tag : Nat)
deriving Repr

def Asker.step (a : Asker) : AOp → Asker
  | .ask tag addr cap now timeout => (a.ask tag addr cap now timeout).1
  | .reply src c o code body => a.reply src c o code body
  | .expire now => a.expire now
  | .cancel tag => a.cancel tag

def Asker.run (a : Asker) (ops : List AOp) : Asker := ops.foldl Asker.step a

/-- `handleAskRequest`: the reply a responder at address `self` produces for a request `(counter, origin)` from
    `src` whose handler returned `n` having written `out` into the response buffer: it goes back to `src`, echoes
    counter and origin time, and carries the handler's bytes (or its error code and nothing). -/
def respond (counter origin : Nat) (n : Int) (out : Bytes) : Nat × Nat × Nat × Bytes :=
  let (code, len) := Ask.extractErrorCode n
  (counter, origin, code, out.take len)

end P2PVerif.Mb
