import P2PVerif.Model.Frag
import P2PVerif.Model.Mbapp
/-! Schedules of inner datagrams against the two reassembly models: any interleaving, duplication and loss of
    the genuine fragments of any number of messages from any number of sources, with the periodic clean-up
    allowed to strike at any moment. -/
namespace P2PVerif.Reasm
open P2PVerif

/-- a told message together with the datagrams its `Tell` produced -/
structure FMsg where
  src : Nat
  id : Nat
  payload : Bytes
  frags : List Bytes
deriving Repr

/-- `m` is what a fragswarm sender with these MTUs emits for `payload` under message id `id` -/
def FMsg.genuine (innerMTU cfgMTU : Nat) (m : FMsg) : Prop :=
  m.id < 2 ^ 32 ∧ Frag.tell innerMTU cfgMTU m.id m.payload = some m.frags

inductive FEvent
  | recv (msg part : Nat)            -- the `part`-th datagram of the `msg`-th told message arrives (again)
  | cleanup (src id : Nat)           -- the clean-up loop drops a partial message
deriving Repr

/-- run a schedule; returns the final state and the deliveries, each tagged with the event index and the
    message whose datagram triggered it -/
def frun (msgs : List FMsg) : List FEvent → Frag.RState → List (Nat × Bytes) → Frag.RState × List (Nat × Bytes)
  | [], st, out => (st, out.reverse)
  | .recv mi pi :: evs, st, out =>
    match msgs[mi]? with
    | none => frun msgs evs st out
    | some m =>
      match m.frags[pi]? with
      | none => frun msgs evs st out
      | some pkt =>
        let (st', d) := Frag.recv st m.src pkt
        frun msgs evs st' (match d with | some p => (mi, p) :: out | none => out)
  | .cleanup s i :: evs, st, out => frun msgs evs (Frag.cleanup st (s, i)) out

structure MMsg where
  src : Nat
  hdr : Mbapp.Hdr          -- mode bits, origin time, counter, timeout as sent
  payload : Bytes
  frags : List Bytes
deriving Repr

def MMsg.genuine (innerMTU cfgMTU : Nat) (m : MMsg) : Prop :=
  m.hdr.originTime < 2 ^ 32 ∧ m.hdr.counter < 2 ^ 32 ∧ m.hdr.timeout < 2 ^ 32 ∧ m.hdr.errCode < 256 ∧
  m.payload.length < 2 ^ 32 ∧ (∀ b ∈ m.payload, b < 256) ∧
  Mbapp.send innerMTU cfgMTU m.hdr m.payload = some m.frags

inductive MEvent
  | recv (msg part : Nat)
  | cleanup (remote originTime counter : Nat)
deriving Repr

def mrun (cfgMTU : Nat) (msgs : List MMsg) :
    List MEvent → Mbapp.RState → List (Nat × Mbapp.Hdr × Bytes) → Mbapp.RState × List (Nat × Mbapp.Hdr × Bytes)
  | [], st, out => (st, out.reverse)
  | .recv mi pi :: evs, st, out =>
    match msgs[mi]? with
    | none => mrun cfgMTU msgs evs st out
    | some m =>
      match m.frags[pi]? with
      | none => mrun cfgMTU msgs evs st out
      | some pkt =>
        let (st', d) := Mbapp.recv cfgMTU st m.src pkt
        mrun cfgMTU msgs evs st' (match d with | some (h, p) => (mi, h, p) :: out | none => out)
  | .cleanup r o c :: evs, st, out => mrun cfgMTU msgs evs (st.erase (r, o, c)) out

end P2PVerif.Reasm
