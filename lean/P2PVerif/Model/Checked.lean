import P2PVerif.Model.Mux
import P2PVerif.Model.Frag
import P2PVerif.Model.Mbapp
import P2PVerif.Model.Ask
/-! Packet-facing entry points re-written with Go's *checked* slice and index expressions: every `x[a:b]`,
    `x[i]` and `make([]T, n)` can fault (`Except Fault`), exactly where the Go runtime would panic. The theorems
    of C08 state that these checked versions never fault and compute what the total models compute, for every
    input and every history — i.e. that each guard in the code covers the expression behind it. -/
namespace P2PVerif.Checked
open P2PVerif

inductive Fault | slice | index | negLen
deriving DecidableEq, Repr

/-- `x[a:]` with a signed offset -/
def sliceFrom (x : Bytes) (a : Int) : Except Fault Bytes :=
  if a < 0 ∨ a > x.length then .error .slice else .ok (x.drop a.toNat)

/-- `x[:b]` -/
def sliceTo (x : Bytes) (b : Int) : Except Fault Bytes :=
  if b < 0 ∨ b > x.length then .error .slice else .ok (x.take b.toNat)

/-- `x[a:b]` -/
def slice (x : Bytes) (a b : Int) : Except Fault Bytes :=
  if a < 0 ∨ b < a ∨ b > x.length then .error .slice else .ok ((x.take b.toNat).drop a.toNat)

/-- `l[i] = v` -/
def setIdx {α} (l : List α) (i : Int) (v : α) : Except Fault (List α) :=
  if i < 0 ∨ i ≥ l.length then .error .index else .ok (l.set i.toNat v)

/-- Go's `int(uint64)` conversion -/
def toInt64 (v : Nat) : Int := if v % 2 ^ 64 < 2 ^ 63 then (v % 2 ^ 64 : Nat) else (v % 2 ^ 64 : Nat) - (2 ^ 64 : Nat)

/-- `stringDemuxFunc` with its slice expressions (`x[n:]`, `x[:chanLength]`, `x[chanLength:]`); the guard is the
    unsigned comparison `uint64(len(x)) < chanLength` -/
def stringDemux (x : Bytes) : Except Fault Mux.DemuxRes :=
  match Varint.get x with
  | .ok l n => do
    let rest ← sliceFrom x n
    if rest.length < l then pure .err else
    let c ← sliceTo rest l
    let body ← if l < rest.length then sliceFrom rest l else pure []
    pure (.ok (.s c) body)
  | _ => pure .err

/-- `varintDemuxFunc`: `data[n:]` -/
def varintDemux (x : Bytes) : Except Fault Mux.DemuxRes :=
  match Varint.get x with
  | .ok v n => do let body ← sliceFrom x n; pure (.ok (.n v) body)
  | _ => pure .err

/-- fragswarm `parseMessage`: `x[n:]` inside the loop and at the end -/
def fragParse (x : Bytes) : Except Fault (Option (Nat × Nat × Nat × Bytes)) := do
  let x0 ← sliceFrom x 0
  match Varint.get x0 with
  | .ok f0 n0 =>
    let x1 ← sliceFrom x n0
    match Varint.get x1 with
    | .ok f1 n1 =>
      let x2 ← sliceFrom x (n0 + n1 : Nat)
      match Varint.get x2 with
      | .ok f2 n2 =>
        let part := f1 % 256
        let total := f2 % 256
        if part ≥ total then pure none else do
        let data ← sliceFrom x (n0 + n1 + n2 : Nat)
        pure (some (f0 % 2 ^ 32, part, total, data))
      | _ => pure none
    | _ => pure none
  | _ => pure none

/-- fragswarm `aggregator.addPart`: `make([][]byte, total)` and `a.parts[int(part)] = …` behind the guard
    `len(a.parts) != int(total) || int(part) >= len(a.parts)` -/
def aggAddPart (parts : List (Option Bytes)) (part total : Nat) (data : Bytes) : Except Fault (Option (List (Option Bytes))) :=
  if parts.length ≠ total ∨ part ≥ parts.length then pure none
  else do let p ← setIdx parts part (some data); pure (some p)

/-- mbapp `ParseMessage`: `data[:HeaderSize]`, `data[HeaderSize:]` behind `len(data) < HeaderSize`, and the
    header getters `h[n*4:(n+1)*4]` for words 0..5 -/
def mbDecode (pkt : Bytes) : Except Fault (Option (Mbapp.Hdr × Bytes)) :=
  if pkt.length < Mbapp.headerSize then pure none else do
  let h ← sliceTo pkt Mbapp.headerSize
  let body ← sliceFrom pkt Mbapp.headerSize
  let w0 ← slice h 0 4
  let w1 ← slice h 4 8
  let w2 ← slice h 8 12
  let w3 ← slice h 12 16
  let w4 ← slice h 16 20
  let w5 ← slice h 20 24
  let v := Mbapp.val32
  pure (some ({ isAsk := v w0 / 2 ^ 31 % 2 == 1, isReply := v w0 / 2 ^ 30 % 2 == 1, errCode := v w0 % 256,
                originTime := v w1, counter := v w2, totalSize := v w3,
                partIndex := v w4 / 65536, partCount := v w4 % 65536, timeout := v w5 }, body))

/-- mbapp `collector.addPart`: bitmap index behind `partIndex >= partCount`, and `copy(c.buf[offset:], data)`
    behind `offset < 0 || offset >= len(c.buf)` -/
def colAddPart (c : Mbapp.Col) (idx : Nat) (data : Bytes) : Except Fault Mbapp.Col :=
  if idx ≥ c.partCount then pure c
  else if idx ≥ c.bits.length then .error .index      -- bitMap.get panics past its length
  else if c.bits.getD idx false then pure c
  else
    let offset : Int := if idx = c.partCount - 1 then (c.buf.length : Int) - data.length else (data.length * idx : Nat)
    if offset < 0 ∨ offset ≥ c.buf.length then pure c
    else do
      let _tail ← sliceFrom c.buf offset
      pure { c with buf := Mbapp.overwrite c.buf offset.toNat data, bits := c.bits.set idx true }

/-- quicswarm `readFrame`: `dst[:l]` behind `len(dst) < int(l)` -/
def readFrameDst (dstLen l : Nat) : Except Fault (Option Nat) :=
  if dstLen < l then pure none else do
  let d ← sliceTo (List.replicate dstLen 0) l
  pure (some d.length)

/-- p2pke `ParseMessage` + header/body accessors: `m[:4]`, `m[4:]` behind `len(x) < 4`; `parseInitHello`:
    `body[len(body)-2:]` behind `len(body) < 2` and `body[start:len(body)-2]` behind `start < 0` -/
def keParse (x : Bytes) : Except Fault (Option (Bytes × Bytes)) :=
  if x.length < 4 then pure none else do
  let h ← sliceTo x 4
  let b ← sliceFrom x 4
  pure (some (h, b))

def keInitHelloPayload (body : Bytes) : Except Fault (Option Bytes) :=
  if body.length < 2 then pure none else do
  let lenBytes ← sliceFrom body ((body.length : Int) - 2)
  let l : Int := match lenBytes with | [a, b] => (a * 256 + b : Nat) | _ => 0
  let start : Int := (body.length : Int) - 2 - l
  if start < 0 then pure none else do
  let data ← slice body start ((body.length : Int) - 2)
  pure (some data)

end P2PVerif.Checked
