import P2PVerif.Model.Util
/-! `encoding/binary` PutUvarint / Uvarint over Nat-valued bytes, with Go's two failure results kept apart. -/
namespace P2PVerif.Varint

/-- `binary.PutUvarint` (also `AppendUvarint`) -/
def put (x : Nat) : List Nat :=
  if h : x < 128 then [x] else (x % 128 + 128) :: put (x / 128)
termination_by x
decreasing_by omega

/-- Result of `binary.Uvarint`: `ok v n` (n > 0), `short` (n = 0), `overflow i` (n = -(i+1)). -/
inductive Res | ok (v : Nat) (n : Nat) | short | overflow (i : Nat)
deriving DecidableEq, Repr

def getAux (acc s i : Nat) : List Nat → Res
  | [] => .short
  | b :: bs =>
    if i = 10 then .overflow i
    else if b < 128 then
      if i = 9 ∧ b > 1 then .overflow i else .ok ((acc + b * 2 ^ s) % 2 ^ 64) (i + 1)
    else getAux (acc + (b % 128) * 2 ^ s) (s + 7) (i + 1) bs

/-- `binary.Uvarint` -/
def get (bs : List Nat) : Res := getAux 0 0 0 bs

/-- `binary.PutVarint` (zig-zag) restricted to non-negative arguments, which is all the code passes -/
def putVarintNonneg (x : Nat) : List Nat := put (2 * x)

end P2PVerif.Varint
