import P2PVerif.Model.Varint
import P2PVerif.Gen.Facts
/-! s/fragswarm/fragswarm.go: framing (`newMessage`/`parseMessage`), the sender's split (`Tell`), `MTU`, and the
    receiver's reassembly (`handleTell` + `aggregator`). Payload bytes are opaque. -/
namespace P2PVerif.Frag
open P2PVerif

def overhead : Nat := Gen.Facts.fragOverhead
def maxParts : Nat := 255

/-- `newMessage` header: three uvarints -/
def header (id part total : Nat) : Bytes := Varint.put id ++ Varint.put part ++ Varint.put total

/-- `swarm.MTU()` (Go ints: may be negative when the inner MTU is below the overhead) -/
def mtu (innerMTU cfgMTU : Nat) : Int :=
  let limit : Int := ((innerMTU : Int) - overhead) * maxParts
  if limit < cfgMTU then limit else cfgMTU

/-- consecutive pieces of `n ≥ 1` elements, the last one possibly shorter; `[]` for the empty list -/
def chunks (n : Nat) (xs : Bytes) : List Bytes :=
  if h : n = 0 ∨ xs = [] then [] else xs.take n :: chunks n (xs.drop n)
termination_by xs.length
decreasing_by
  have : xs ≠ [] := fun e => h (Or.inr e)
  have : 0 < xs.length := List.length_pos_iff.mpr this
  simp only [List.length_drop]; omega

/-- `swarm.Tell`: the inner datagrams for one message, or `none` for `ErrMTUExceeded`.
    The `% 256` are the `uint8(part)` / `uint8(total)` conversions of the code. -/
def tell (innerMTU cfgMTU id : Nat) (payload : Bytes) : Option (List Bytes) :=
  if (payload.length : Int) > mtu innerMTU cfgMTU then none
  else if payload.length = 0 then some [header id 0 1]
  else
    let ps := chunks (innerMTU - overhead) payload
    if ps.length = 1 then some [header id 0 1 ++ payload]
    else some (ps.mapIdx (fun i p => header id (i % 256) (ps.length % 256) ++ p))

/-- `parseMessage` -/
def parse (x : Bytes) : Option (Nat × Nat × Nat × Bytes) :=
  match Varint.get x with
  | .ok f0 n0 =>
    match Varint.get (x.drop n0) with
    | .ok f1 n1 =>
      match Varint.get (x.drop (n0 + n1)) with
      | .ok f2 n2 =>
        let id := f0 % 2 ^ 32
        let part := f1 % 256
        let total := f2 % 256
        if part ≥ total then none else some (id, part, total, x.drop (n0 + n1 + n2))
      | _ => none
    | _ => none
  | _ => none

/-- `aggregator` -/
structure Agg where
  parts : List (Option Bytes)
deriving Repr, DecidableEq

/-- reassembly state: `aggs` keyed by (source, message id) -/
abbrev RState := List ((Nat × Nat) × Agg)

def RState.get (st : RState) (k : Nat × Nat) : Option Agg := (st.find? (·.1 == k)).map (·.2)
def RState.erase (st : RState) (k : Nat × Nat) : RState := st.filter (·.1 != k)
def RState.put (st : RState) (k : Nat × Nat) (a : Agg) : RState := (k, a) :: st.erase k

/-- `handleTell`: one inner datagram from `src`; returns the payload delivered upwards, if any -/
def recv (st : RState) (src : Nat) (pkt : Bytes) : RState × Option Bytes :=
  match parse pkt with
  | none => (st, none)
  | some (id, part, total, data) =>
    if total = 1 then (st, some data)
    else
      let key := (src, id)
      let agg := (st.get key).getD { parts := List.replicate total none }
      if agg.parts.length ≠ total ∨ part ≥ agg.parts.length then (st.put key agg, none)
      else
        let parts := agg.parts.set part (some data)
        if parts.all Option.isSome then (st.erase key, some (parts.flatMap (·.getD [])))
        else (st.put key { parts }, none)

/-- the periodic `cleanup`: drops one aggregator (the model lets it happen at any time) -/
def cleanup (st : RState) (k : Nat × Nat) : RState := st.erase k

end P2PVerif.Frag
