import P2PVerif.Model.KeWorld
/-! p/p2pke channel.go with its two timers (`rekeyTimer`, `handshakeTimer`, timer.go) and a clock.

`Chan` (Model/P2PKE.lean) is the channel with time as an input and the timer callbacks as explicit operations.
`TChan` adds what arms the timers: each `Reset(d)` in channel.go becomes a deadline `now + d`; a timer that fires
clears its deadline before its callback runs (timer.go `isPending`). Time is in the unit of the configuration
(milliseconds in the `ket` stream). The correspondence runs the real channel with its real timers under the fake
clock of testing/synctest, so deadlines, firing order and every emitted message are compared exactly. -/
namespace P2PVerif.P2PKE
open P2PVerif

structure TChan where
  chan : Chan
  /-- `RekeyAfterTime` -/
  rekeyAfter : Nat
  /-- `HandshakeBackoff` -/
  backoff : Nat
  /-- deadline of `rekeyTimer` when it is pending -/
  rekeyAt : Option Nat := none
  /-- deadline of `handshakeTimer` when it is pending -/
  hsAt : Option Nat := none

def TChan.fresh (key : KeyId) (accept : KeyId → Bool) (rejectAfter keepAlive rekeyAfter backoff : Nat) : TChan :=
  { chan := Chan.fresh key accept rejectAfter keepAlive (Gen.Facts.p2pkeHandshakeAttempts * backoff), rekeyAfter, backoff }

/-- the tail of `getOrInit` when there is no current session: initiate if nothing is in progress, otherwise make
    sure the handshake timer drives the prospective session -/
def TChan.arm (t : TChan) (c' : Chan) (now : Nat) : TChan :=
  if c'.next.isNone then { t with chan := c', rekeyAt := some now }
  else if t.hsAt.isNone then { t with chan := c', hsAt := some (now + t.backoff) }
  else { t with chan := c' }

/-- `Send` with a context that is already done -/
def TChan.send (t : TChan) (p : Bytes) (now : Nat) : TChan × Option (Option Wire) :=
  match t.chan.send p now with
  | (c', none) => (t.arm c' now, none)
  | (c', some o) => ({ t with chan := c' }, some o)

/-- a caller blocks in `getOrInit` -/
def TChan.pend (t : TChan) (now : Nat) : TChan × Bool :=
  match t.chan.pend now with
  | (c', true) => (t.arm c' now, true)
  | (c', false) => ({ t with chan := c' }, false)

def TChan.unpend (t : TChan) : TChan := { t with chan := t.chan.unpend }

def sameId (a b : Option Entry) : Bool :=
  match a, b with
  | some x, some y => x.id == y.id
  | _, _ => false

/-- `Deliver`: `onReadySession` re-arms the rekey timer — `RekeyAfterTime` ahead when our own attempt was promoted,
    one backoff ahead when the session was refused while callers wait -/
def TChan.deliver (t : TChan) (lt : IdLt) (w : Wire) (eph : Eph) (now : Nat) : TChan × DRes :=
  let c := t.chan
  let (c', r) := c.deliver lt w eph now
  let promoted : Bool := sameId c.next c'.cur && !sameId c.next c.cur
  let gone : Bool := c.next.isSome && c'.next.isNone
  let rekeyAt : Option Nat :=
    if promoted then (if (c.next.map (·.sess.isInit)).getD false then some (now + t.rekeyAfter) else t.rekeyAt)
    else if gone && decide (c.waiting > 0) then some (now + t.backoff)
    else t.rekeyAt
  ({ t with chan := c', rekeyAt }, r)

/-- the rekey timer fires -/
def TChan.fireRekey (t : TChan) (lt : IdLt) (eph : Eph) (now : Nat) : TChan :=
  let hadNext := (t.chan.expire now).next.isSome
  let c' := t.chan.onRekey lt eph now
  if hadNext then
    { t with chan := c', rekeyAt := none, hsAt := if t.hsAt.isNone then some (now + t.backoff) else t.hsAt }
  else
    { t with chan := c', rekeyAt := some (now + t.rekeyAfter), hsAt := some now }

/-- the handshake timer fires -/
def TChan.fireHs (t : TChan) (now : Nat) : TChan × List Wire :=
  let (c', outs, restart) := t.chan.onHandshakeAt now
  ({ t with chan := c', hsAt := if outs.isEmpty then none else some (now + t.backoff),
            rekeyAt := if restart then some now else t.rekeyAt }, outs)

/-- fire everything due up to `limit`, earliest deadline first. `tie` decides between the two timers of the
    channel when their deadlines coincide — the runtime does not order them: 0 = rekey callback first, 1 = handshake
    callback first, 2 = both callbacks started, the rekey callback got the lock first and its `Reset(0)` of the
    handshake timer scheduled a second run (timer.go lets the started callback and the rescheduled one both run).
    `tie` is read digit by digit in base 3, one digit per coincidence.
    Returns the emissions with their times and the next unused ephemeral. -/
def TChan.advance (t : TChan) (lt : IdLt) (limit : Nat) (tie : Nat) : Nat → Eph → TChan × List (Nat × Wire) × Eph
  | 0, eph => (t, [], eph)
  | fuel + 1, eph =>
    let rk := t.rekeyAt.filter (· ≤ limit)
    let hk := t.hsAt.filter (· ≤ limit)
    let fireR (a : Nat) (tie : Nat) :=
      let (t', ev, e') := (t.fireRekey lt eph a).advance lt limit tie fuel (eph + 1)
      (t', ev, e')
    let fireH (b : Nat) (tie : Nat) :=
      let (t1, outs) := t.fireHs b
      let (t', ev, e') := t1.advance lt limit tie fuel eph
      (t', outs.map (fun w => (b, w)) ++ ev, e')
    let fireBoth (a : Nat) (tie : Nat) :=
      let t1 := t.fireRekey lt eph a
      let (t2, o1) := t1.fireHs a
      let (t3, o2) := t2.fireHs a
      let (t', ev, e') := t3.advance lt limit tie fuel (eph + 1)
      (t', (o1 ++ o2).map (fun w => (a, w)) ++ ev, e')
    match rk, hk with
    | none, none => (t, [], eph)
    | some a, none => fireR a tie
    | none, some b => fireH b tie
    | some a, some b =>
      if a == b then
        (if tie % 3 == 0 then fireR a (tie / 3) else if tie % 3 == 1 then fireH b (tie / 3) else fireBoth a (tie / 3))
      else if a < b then fireR a tie else fireH b tie

/-- a channel with waiting callers has no current session and is never left without a pending timer that will
    act for them: either the rekey timer (it will initiate) or the handshake timer driving a prospective session
    (it retransmits, and gives the session up after `hsTimeout`, which starts over) -/
def TChan.NotStranded (t : TChan) : Prop :=
  t.chan.waiting > 0 → t.chan.cur = none ∧ (t.rekeyAt.isSome ∨ (t.chan.next.isSome ∧ t.hsAt.isSome))

instance (t : TChan) : Decidable t.NotStranded := by unfold TChan.NotStranded; infer_instance

/-! ## one channel under operations and a clock

Small steps: an operation of the application or the network at the current time, the passing of time, and a
timer firing at or after its deadline (callbacks may run late). -/

inductive TOp
  | send (p : Bytes)
  | pend
  | unpend
  | deliver (w : Wire) (eph : Eph)
  | tick (d : Nat)
  | fireRekey (eph : Eph)
  | fireHs
deriving Repr

structure TSt where
  t : TChan
  now : Nat := 0

/-- a timer callback runs only once its deadline has passed -/
def TSt.enabled (s : TSt) : TOp → Bool
  | .fireRekey _ => match s.t.rekeyAt with | some a => a ≤ s.now | none => false
  | .fireHs => match s.t.hsAt with | some b => b ≤ s.now | none => false
  | _ => true

def TSt.step (s : TSt) (lt : IdLt) (op : TOp) : TSt :=
  if !s.enabled op then s else
  match op with
  | .send p => { s with t := (s.t.send p s.now).1 }
  | .pend => { s with t := (s.t.pend s.now).1 }
  | .unpend => { s with t := s.t.unpend }
  | .deliver w eph => { s with t := (s.t.deliver lt w eph s.now).1 }
  | .tick d => { s with now := s.now + d }
  | .fireRekey eph => { s with t := s.t.fireRekey lt eph s.now }
  | .fireHs => { s with t := (s.t.fireHs s.now).1 }

def TSt.run (s : TSt) (lt : IdLt) (ops : List TOp) : TSt := ops.foldl (fun s op => s.step lt op) s

/-- the quantitative form of `NotStranded`: while callers wait, a timer that will act for them (the rekey timer,
    or the handshake timer together with a prospective session) is due no later than one backoff from now -/
def TSt.ActsSoon (s : TSt) : Prop :=
  s.t.chan.waiting > 0 →
    (∃ a, s.t.rekeyAt = some a ∧ a ≤ s.now + s.t.backoff) ∨
    (s.t.chan.next.isSome ∧ ∃ b, s.t.hsAt = some b ∧ b ≤ s.now + s.t.backoff)

end P2PVerif.P2PKE
