import P2PVerif.Model.Frag
import P2PVerif.Model.Mux
/-! Nestings of the framing layers: any stack of fragmenting swarms and multiplexer channels over a base swarm
    that carries datagrams of at most `base` bytes. `encode` is what a `Tell` on the top swarm puts on the base
    swarm (or the MTU error), `recv` what the receiving stack hands up for one base datagram. -/
namespace P2PVerif.Stack
open P2PVerif

inductive Layer
  | frag (cfgMTU : Nat)
  | mux (k : Mux.Kind) (c : Mux.Chan)
deriving Repr

/-- outermost layer first -/
abbrev Stack := List Layer

/-- `MTU()` of the stack (Go ints: may go negative over a tiny base) -/
def mtu : Stack → Nat → Int
  | [], base => base
  | .frag cfg :: rest, base =>
    let limit := (mtu rest base - Frag.overhead) * Frag.maxParts
    if limit < cfg then limit else cfg
  | .mux k c :: rest, base => mtu rest base - (Mux.header k c).length

/-- fragswarm `Tell` over an inner swarm whose MTU is the integer `inner` -/
def fragTell (inner : Int) (cfg id : Nat) (payload : Bytes) : Option (List Bytes) :=
  let limit := (inner - Frag.overhead) * Frag.maxParts
  let m : Int := if limit < cfg then limit else cfg
  if (payload.length : Int) > m then none
  else if payload.length = 0 then some [Frag.header id 0 1]
  else
    let ps := Frag.chunks (inner - Frag.overhead).toNat payload
    if ps.length = 1 then some [Frag.header id 0 1 ++ payload]
    else some (ps.mapIdx (fun i p => Frag.header id (i % 256) (ps.length % 256) ++ p))

/-- message-id counters, one per layer (only the fragmenting layers use theirs) -/
abbrev Ctrs := List Nat

/-- send every datagram of `ds` through the lower part of the stack, threading its counters -/
def encodeAll (enc : Ctrs → Bytes → Option (List Bytes × Ctrs)) : Ctrs → List Bytes → Option (List Bytes × Ctrs)
  | cs, [] => some ([], cs)
  | cs, d :: ds =>
    match enc cs d with
    | none => none
    | some (out, cs') =>
      match encodeAll enc cs' ds with
      | none => none
      | some (outs, cs'') => some (out ++ outs, cs'')

/-- a `Tell` on the top of the stack: the datagrams handed to the base swarm and the advanced counters, or
    `none` for `ErrMTUExceeded` (raised by whichever layer notices) -/
def encode : Stack → Nat → Ctrs → Bytes → Option (List Bytes × Ctrs)
  | [], base, cs, x => if x.length ≤ base then some ([x], cs) else none
  | .frag cfg :: rest, base, cs, x =>
    let id := cs.headD 0
    match fragTell (mtu rest base) cfg (id % 2 ^ 32) x with
    | none => none
    | some pieces =>
      match encodeAll (encode rest base) cs.tail pieces with
      | none => none
      | some (out, cs') => some (out, (id + 1) :: cs')
  | .mux k c :: rest, base, cs, x =>
    match encode rest base cs.tail (Mux.mux k c x) with
    | none => none
    | some (out, cs') => some (out, cs.headD 0 :: cs')

/-- receiver state: one reassembly table per layer (unused for mux layers) -/
abbrev RState := List Frag.RState

/-- one base datagram from `src` travels up the receiving stack; what the top swarm delivers -/
def recv : Stack → RState → Nat → Bytes → RState × List Bytes
  | [], st, _, x => (st, [x])
  | .frag _ :: rest, st, src, x =>
    let (stRest, ups) := recv rest st.tail src x
    let (fs, outs) := ups.foldl (fun (acc : Frag.RState × List Bytes) u =>
      let (fs', o) := Frag.recv acc.1 src u
      (fs', acc.2 ++ o.toList)) (st.headD [], [])
    (fs :: stRest, outs)
  | .mux k c :: rest, st, src, x =>
    let (stRest, ups) := recv rest st.tail src x
    (st.headD [] :: stRest, ups.filterMap (fun u =>
      match Mux.demux k u with
      | .ok c' body => if c' = c then some body else none
      | .err => none))

/-- feed a list of base datagrams in order -/
def recvAll (s : Stack) (st : RState) (src : Nat) (ds : List Bytes) : RState × List Bytes :=
  ds.foldl (fun (acc : RState × List Bytes) d => let (st', o) := recv s acc.1 src d; (st', acc.2 ++ o)) (st, [])

/-- channel ids are well typed for their multiplexer kind -/
def WF : Stack → Prop
  | [] => True
  | .frag _ :: rest => WF rest
  | .mux k c :: rest => c.WF k ∧ WF rest

def init (s : Stack) : RState := s.map (fun _ => [])

end P2PVerif.Stack
