import P2PVerif.Model.Base64
/-! Address text forms: memswarm, udpswarm, sshswarm, quicswarm / p2pkeswarm (`id@inner`), multiswarm
    (`scheme://inner`), at every nesting. Written from each MarshalText / ParseAddr.
    `net/netip` and `fmt.Sscan` are parameters (`Env`): the executable driver is handed their results by the
    harness (computed with the standard library itself), the theorems assume the stated laws about them. -/
namespace P2PVerif.Addr
open P2PVerif

abbrev Str := List Char

structure Env where
  /-- `netip.ParseAddr(host)` followed by `.String()`: the canonical text of the parsed IP -/
  ipParse : Str → Option Str
  /-- `fmt.Sscan(port, &uint16)` -/
  scan16 : Str → Option Nat

inductive Addr
  | mem (n : Int)
  | udp (ip : Str) (port : Nat)
  | ssh (fp : Str) (ip : Str) (port : Nat)
  | idAt (id : Bytes) (inner : Addr)          -- quicswarm.Addr, p2pkeswarm.Addr
  | scheme (s : Str) (inner : Addr)           -- multiswarm.Addr
deriving DecidableEq, Repr

/-- which swarm parses: `mcons name g rest` is a multiswarm whose scheme table maps `name` to `g` and
    otherwise continues with `rest` (`mnil` = empty table). -/
inductive Gram
  | mem | udp | ssh
  | idAt (inner : Gram)
  | mnil
  | mcons (name : Str) (g : Gram) (rest : Gram)
deriving Repr

def natStr (n : Nat) : Str := (toString n).toList
def intStr (n : Int) : Str := (toString n).toList

/-- `net.JoinHostPort` -/
def joinHostPort (host port : Str) : Str :=
  if host.contains ':' || host.contains '%' then '[' :: host ++ [']', ':'] ++ port else host ++ [':'] ++ port

def marshal : Addr → Str
  | .mem n => intStr n
  | .udp ip port => joinHostPort ip (natStr port)
  | .ssh fp ip port => fp ++ ['@'] ++ ip ++ [':'] ++ natStr port
  | .idAt id a => B64.marshalText B64.alphabet id ++ ['@'] ++ marshal a
  | .scheme s a => s ++ [':', '/', '/'] ++ marshal a

/-- decimal digits only, non-empty -/
def parseDigits (s : Str) : Option Nat :=
  if s.isEmpty || !s.all Char.isDigit then none else some (s.foldl (fun acc c => acc * 10 + (c.toNat - '0'.toNat)) 0)

/-- `strconv.Atoi` -/
def atoi (s : Str) : Option Int :=
  match s with
  | '-' :: r => (parseDigits r).bind (fun n => if n ≤ 2 ^ 63 then some (-(n : Int)) else none)
  | '+' :: r => (parseDigits r).bind (fun n => if n < 2 ^ 63 then some (n : Int) else none)
  | r => (parseDigits r).bind (fun n => if n < 2 ^ 63 then some (n : Int) else none)

/-- `strconv.ParseUint(s, 10, 16)` -/
def parseUint16 (s : Str) : Option Nat := (parseDigits s).bind (fun n => if n < 65536 then some n else none)

def lastIndexOf (c : Char) (s : Str) : Option Nat :=
  let r := s.reverse.idxOf c
  if r < s.length then some (s.length - 1 - r) else none

/-- `net.SplitHostPort` -/
def splitHostPort (hp : Str) : Option (Str × Str) :=
  match lastIndexOf ':' hp with
  | none => none
  | some i =>
    let port := hp.drop (i + 1)
    match hp with
    | '[' :: _ =>
      let e := hp.idxOf ']'
      if e ≥ hp.length then none
      else if e + 1 ≠ i then none
      else
        let host := (hp.take e).drop 1
        if (hp.drop 1).contains '[' || (hp.drop (e + 1)).contains ']' then none else some (host, port)
    | _ =>
      let host := hp.take i
      if host.contains ':' then none
      else if hp.contains '[' || hp.contains ']' then none else some (host, port)

/-- characters of the sshswarm fingerprint class `[A-z0-9\-_/:+]` -/
def fpChar (c : Char) : Bool :=
  ('A'.toNat ≤ c.toNat && c.toNat ≤ 'z'.toNat) || c.isDigit || c == '-' || c == '_' || c == '/' || c == ':' || c == '+'

/-- index of the first `://` at position ≥ 1 that is followed by at least one character -/
def findSchemeSep : Str → Nat → Option Nat
  | c0 :: c1 :: c2 :: c3 :: rest, i =>
    if i ≥ 1 ∧ c0 = ':' ∧ c1 = '/' ∧ c2 = '/' then some i else findSchemeSep (c1 :: c2 :: c3 :: rest) (i + 1)
  | _, _ => none

def parse (env : Env) : Gram → Str → Option Addr
  | .mem, t => (atoi t).map .mem
  | .udp, t =>
    match splitHostPort t with
    | none => none
    | some (host, port) =>
      match env.scan16 port, env.ipParse host with
      | some p, some ip => some (.udp ip p)
      | _, _ => none
  | .ssh, t =>
    -- ^([A-z0-9\-_/:+]+)@(.+):([0-9]+)$
    let fp := t.takeWhile fpChar
    match t.dropWhile fpChar with
    | '@' :: rest =>
      if fp.isEmpty || t.contains '\n' then none else
      match lastIndexOf ':' rest with
      | none => none
      | some i =>
        let host := rest.take i
        if host.isEmpty then none else
        match parseUint16 (rest.drop (i + 1)), env.ipParse host with
        | some p, some ip => some (.ssh fp ip p)
        | _, _ => none
    | _ => none
  | .idAt g, t =>
    let i := t.idxOf '@'
    if i ≥ t.length then none else
    match B64.unmarshalText B64.alphabet (t.take i), parse env g (t.drop (i + 1)) with
    | some id, some a => some (.idAt id a)
    | _, _ => none
  | .mnil, _ => none
  | .mcons name g rest, t =>
    -- ^(.+?)://(.+)$
    if t.contains '\n' then none else
    match findSchemeSep t 0 with
    | none => none
    | some i =>
      if t.take i = name then (parse env g (t.drop (i + 3))).map (.scheme name)
      else parse env rest t

end P2PVerif.Addr
