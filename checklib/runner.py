import sys, os, re, json, time, subprocess, shutil, fcntl, argparse, hashlib, tempfile

ROOT = os.path.dirname(os.path.dirname(os.path.abspath(__file__)))
LEAN = os.path.join(ROOT, "lean")
HARNESS = os.path.join(ROOT, "harness")
REPO = os.environ.get("VERIF_REPO", "/repo")
WORK = os.path.join(ROOT, ".work")
DRIVER = os.path.join(LEAN, ".lake", "build", "bin", "driver")
CORR = os.path.join(HARNESS, "bin", "corr")
CORR26 = os.path.join(HARNESS, "bin", "corr26")  # same package built with go1.26: streams that need the fake clock of testing/synctest
BUBBLE_STREAMS = {"ket", "node", "kesw", "ask", "fragt"}


def corr_bin(stream):
    return CORR26 if stream in BUBBLE_STREAMS else CORR

ALLOWED_AXIOMS = {"propext", "Quot.sound", "Classical.choice"}
FORBIDDEN = re.compile(r"\bsorry\b|\badmit\b|^axiom\s|native_decide|bv_decide|implemented_by|\bunsafe\s|maxHeartbeats 0")

GOENV = dict(os.environ, GOFLAGS="-mod=mod", GOPROXY="off", GOSUMDB="off", GOTOOLCHAIN="local",
             CGO_ENABLED="0")

TRUSTED_BASE = [
    "Lean 4.33.0 kernel (and leanchecker in the thorough tier)",
    "axioms allowed in property theorems: propext, Quot.sound, Classical.choice (audited by #print axioms on every run)",
    "fact extractor harness/cmd/extract (compiled against /repo on every run) for constants and select skeletons",
    "correspondence harness harness/cmd/corr + Lean driver: the hand-written model is tied to the code by behaviour on generated inputs",
    "Go runtime, standard library and third-party crypto are modelled, not verified (DESIGN.md section 3)",
]


def log(*a):
    print(*a, flush=True)


def sh(cmd, cwd=None, env=None, timeout=None, stdin=None):
    try:
        p = subprocess.run(cmd, cwd=cwd, env=env, stdout=subprocess.PIPE, stderr=subprocess.STDOUT,
                           timeout=timeout, stdin=stdin)
    except subprocess.TimeoutExpired as e:
        out = (e.stdout or b"").decode("utf-8", "replace")
        return 124, out + "\n(timed out after %ss)\n" % timeout
    return p.returncode, p.stdout.decode("utf-8", "replace")


class Lock:
    def __init__(self, name):
        os.makedirs(WORK, exist_ok=True)
        self.path = os.path.join(WORK, name + ".lock")

    def __enter__(self):
        self.f = open(self.path, "w")
        fcntl.flock(self.f, fcntl.LOCK_EX)

    def __exit__(self, *a):
        fcntl.flock(self.f, fcntl.LOCK_UN)
        self.f.close()


# ---------------------------------------------------------------- build steps

def build_harness(need26=True):
    """go build the harness against /repo's working tree with the verif hooks enabled."""
    with Lock("go"):
        shutil.copyfile(os.path.join(REPO, "go.sum"), os.path.join(HARNESS, "go.sum"))
        if REPO != "/repo":
            # a background run against a snapshot of the repository: point the harness module at it
            sh(["go", "mod", "edit", "-replace", "go.brendoncarroll.net/p2p=" + REPO], cwd=HARNESS, env=GOENV, timeout=60)
        os.makedirs(os.path.join(HARNESS, "bin"), exist_ok=True)
        if not os.path.isdir(os.path.join(HARNESS, "evilssh")):
            sh([os.path.join(HARNESS, "evilssh_src", "gen.sh")], cwd=HARNESS, env=GOENV, timeout=300)
        rc, out = sh(["go", "build", "-tags", "verif", "-o", os.path.join(HARNESS, "bin") + "/", "./cmd/..."],
                     cwd=HARNESS, env=GOENV, timeout=900)
        if rc != 0 and re.search(r"(signal: killed|out of memory|cannot allocate)", out):
            rc, out = sh(["go", "build", "-tags", "verif", "-o", os.path.join(HARNESS, "bin") + "/", "./cmd/..."],
                         cwd=HARNESS, env=GOENV, timeout=900)
        if rc == 0 and need26:
            rc, out = sh(["go1.26", "build", "-tags", "verif", "-o", CORR26, "./cmd/corr"], cwd=HARNESS, env=GOENV, timeout=1800)
    return rc == 0, out


CORR_RACE = os.path.join(HARNESS, "bin", "corr-race")


def build_race():
    """the correspondence harness built with the Go race detector (needs cgo); used by C14 only"""
    env = dict(GOENV, CGO_ENABLED="1")
    with Lock("go"):
        rc, out = sh(["go", "build", "-race", "-tags", "verif", "-o", CORR_RACE, "./cmd/corr"], cwd=HARNESS, env=env, timeout=1800)
    return rc == 0, out


def run_race(oracle, seed, n, tier):
    """one oracle under the race detector: the data races it reports whose stacks reach repository code.
    ORACLE-FAIL lines are ignored here (the detector slows everything down: timing verdicts belong to the normal run)."""
    env = dict(GOENV, GORACE="halt_on_error=0")
    rc, out = sh([CORR_RACE, oracle, "-mode", "oracle", "-seed", str(seed), "-n", str(n), "-tier", tier], cwd=HARNESS, env=env, timeout=3600)
    races = []
    for blk in out.split("WARNING: DATA RACE")[1:]:
        blk = blk.split("==================")[0]
        frames = re.findall(r"^  (\S+\(.*?\)|\S+)\n\s+(\S+:\d+)", blk, re.M)
        repo_frames = [f for f in frames if "go.brendoncarroll.net/p2p/" in f[0] and "/verif/" not in f[1]]
        if not repo_frames:
            continue
        top = [f[0] + " " + os.path.basename(f[1]) for f in repo_frames[:2]]
        races.append(("C14 data race (Go race detector, %s oracle): %s" % (oracle, " <-> ".join(top)), blk.strip()[:3000]))
    m = re.search(r"oracle cases=(\d+)", out)
    return races, (int(m.group(1)) if m else 0), out


def regen_facts():
    """Regenerate Gen/Facts.lean from /repo (content-compared so an unchanged tree reuses the .oleans)."""
    exe = os.path.join(HARNESS, "bin", "extract")
    rc, out = sh([exe, "-repo", REPO], cwd=HARNESS, env=GOENV, timeout=300)
    if rc != 0:
        return False, out
    path = os.path.join(LEAN, "P2PVerif", "Gen", "Facts.lean")
    old = open(path).read() if os.path.exists(path) else None
    if old != out:
        os.makedirs(os.path.dirname(path), exist_ok=True)
        with open(path, "w") as f:
            f.write(out)
    # the translated functions: Gen/Src.lean is regenerated from the Go source by harness/cmd/go2lean
    exe = os.path.join(HARNESS, "bin", "go2lean")
    tmp = os.path.join(WORK, "Src.lean.%d" % os.getpid())
    rc, out = sh([exe, "-repo", REPO, "-o", tmp], cwd=HARNESS, env=GOENV, timeout=600)
    if rc != 0:
        return False, "go2lean could not translate the current source (a construct outside its subset, or a function it is told to translate is gone):\n" + out
    out = open(tmp).read()
    os.remove(tmp)
    path = os.path.join(LEAN, "P2PVerif", "Gen", "Src.lean")
    old = open(path).read() if os.path.exists(path) else None
    if old != out:
        with open(path, "w") as f:
            f.write(out)
    return True, ""


def lake_build(targets):
    with Lock("lake"):
        rc, out = sh(["lake", "build"] + targets, cwd=LEAN, timeout=3600)
        if rc != 0 and "error:" not in out.replace("error: build failed", ""):
            # no Lean error message: the build was cut short (killed, out of memory under load); once more
            rc, out = sh(["lake", "build"] + targets, cwd=LEAN, timeout=3600)
        elif rc != 0 and re.search(r"(Killed|signal|out of memory|exited with code 1(37|43))", out):
            rc, out = sh(["lake", "build"] + targets, cwd=LEAN, timeout=3600)
    return rc == 0, out


def theorems_of(prop):
    """Property theorems = every `theorem` declared in Props/<prop>.lean (namespace P2PVerif.<prop>)."""
    path = os.path.join(LEAN, "P2PVerif", "Props", prop + ".lean")
    names = []
    ns = []
    for i, line in enumerate(open(path), 1):
        m = re.match(r"\s*namespace\s+(\S+)", line)
        if m:
            ns.append(m.group(1))
        m = re.match(r"\s*end\s+(\S+)", line)
        if m and ns and ns[-1] == m.group(1):
            ns.pop()
        m = re.match(r"\s*(?:private\s+|protected\s+)?theorem\s+(\S+)", line)
        if m:
            names.append((".".join(ns + [m.group(1)]), i))
    return names


def audit(prop):
    """#print axioms for every property theorem; returns {name: [axioms]} for those that exist."""
    names = theorems_of(prop)
    os.makedirs(os.path.join(LEAN, ".audit"), exist_ok=True)
    path = os.path.join(LEAN, ".audit", prop + ".lean")
    with open(path, "w") as f:
        f.write("import P2PVerif.Props.%s\n" % prop)
        for n, _ in names:
            f.write("#print axioms %s\n" % n)
    rc, out = sh(["lake", "env", "lean", path], cwd=LEAN, timeout=1200)
    res = {}
    for m in re.finditer(r"'([^']+)' depends on axioms: \[([^\]]*)\]", out):
        res[m.group(1)] = [a.strip() for a in m.group(2).replace("\n", " ").split(",") if a.strip()]
    for m in re.finditer(r"'([^']+)' does not depend on any axioms", out):
        res[m.group(1)] = []
    return names, res, out


def grep_forbidden():
    hits = []
    for dp, dn, fn in os.walk(LEAN):
        if ".lake" in dp or ".audit" in dp:
            continue
        for f in fn:
            if not f.endswith(".lean"):
                continue
            p = os.path.join(dp, f)
            incomment = 0
            for i, line in enumerate(open(p), 1):
                code = line
                # strip block comments (coarse but conservative: nested depth tracked per line)
                out = ""
                j = 0
                while j < len(code):
                    if code.startswith("/-", j):
                        incomment += 1
                        j += 2
                    elif code.startswith("-/", j) and incomment:
                        incomment -= 1
                        j += 2
                    else:
                        if not incomment:
                            out += code[j]
                        j += 1
                out = out.split("--")[0]
                if FORBIDDEN.search(out):
                    hits.append("%s:%d: %s" % (os.path.relpath(p, ROOT), i, line.strip()))
    return hits


# ---------------------------------------------------------------- streams

def run_driver(stream, ops_path):
    with open(ops_path, "rb") as f:
        rc, out = sh([DRIVER, stream], stdin=f, timeout=3600)
    mism = [l for l in out.splitlines() if l.startswith("MISMATCH")]
    m = re.search(r"done lines=(\d+) mismatches=(\d+)", out)
    if not m:
        return None, mism, out
    return (int(m.group(1)), int(m.group(2))), mism, out


def run_stream(stream, seed, n, tier, tag, extra=None):
    os.makedirs(WORK, exist_ok=True)
    ops = os.path.join(WORK, "%s.%s.ops" % (tag, stream))
    stats = os.path.join(WORK, "%s.%s.stats.json" % (tag, stream))
    for p in (ops, stats):
        if os.path.exists(p):
            os.remove(p)
    cmd = [corr_bin(stream), stream, "-seed", str(seed), "-n", str(n), "-tier", tier, "-out", ops, "-stats", stats] + (extra or [])
    rc, out = sh(cmd, cwd=HARNESS, env=GOENV, timeout=7200)
    if rc != 0 or not os.path.exists(stats):
        return {"stream": stream, "error": "harness exited %d: %s" % (rc, out[-2000:]), "ops": ops}
    st = json.load(open(stats))
    res, mism, dout = run_driver(stream, ops)
    r = {"stream": stream, "ops": ops, "stats": st, "mismatches": mism}
    if res is None:
        r["error"] = "driver failed: " + dout[-2000:]
    else:
        r["lines"], r["nmismatch"] = res
    return r


def replay_ops(stream, lines, tag):
    """Re-execute op lines on the implementation (corr -replay) and compare with the model again."""
    src = os.path.join(WORK, "%s.%s.replay-in.ops" % (tag, stream))
    with open(src, "w") as f:
        for l in lines:
            f.write(l + "\n")
    ops = os.path.join(WORK, "%s.%s.replay.ops" % (tag, stream))
    rc, out = sh([corr_bin(stream), stream, "-replay", src, "-out", ops], cwd=HARNESS, env=GOENV, timeout=1800)
    if rc != 0:
        return None, ["harness replay failed: " + out[-1000:]], ops
    res, mism, dout = run_driver(stream, ops)
    return res, mism, ops


def tag_other(prop, line):
    """An oracle shared by several properties tags a failure with the properties it speaks for ("ORACLE-FAIL C04 ..." or
    "ORACLE-FAIL C01,C04 ..."); an untagged failure speaks for every property that runs the oracle."""
    m = re.match(r"ORACLE-FAIL (C\d\d(?:,C\d\d)*) ", line)
    return bool(m) and prop not in m.group(1).split(",")


def run_oracle(stream, seed, n, tier, tag, infile=None):
    """Property oracle on the implementation alone. Lines starting with ORACLE-FAIL are property failures."""
    cmd = [corr_bin(stream), stream, "-mode", "oracle", "-seed", str(seed), "-n", str(n), "-tier", tier]
    if infile:
        cmd += ["-replay", infile]
    rc, out = sh(cmd, cwd=HARNESS, env=GOENV, timeout=3600)
    fails = [l for l in out.splitlines() if l.startswith("ORACLE-FAIL")]
    m = re.search(r"oracle cases=(\d+)", out)
    return fails, (int(m.group(1)) if m else 0), out


def search_n(cfg, oracle, tier):
    """Cases for an oracle run inside the violation search: several times its normal sample, within what a slow
    oracle (real sockets, sleeps, fake-clock minutes) can do in a few minutes."""
    base = cfg.get("oracle_n_by", {}).get(oracle, cfg.get("oracle_n", {})).get(tier, 4000 if tier == "quick" else 100000)
    return max(20, min(20000 if tier == "quick" else 200000, 4 * base))


def ddmin_prefix(stream, lines, bad_index, tag, budget=60, keep_first=False):
    """Shrink a stateful op list: keep the failing line last, remove chunks of the prefix while the
    implementation and the model still disagree on the last line."""
    head = lines[:1] if keep_first and bad_index > 0 else []
    prefix = lines[len(head):bad_index]
    last = lines[bad_index]

    def fails(pre):
        res, mism, _ = replay_ops(stream, head + pre + [last], tag + ".dd")
        return res is not None and any(("line=%d " % (len(head) + len(pre) + 1)) in m for m in mism)

    if not fails(prefix):
        return lines[:bad_index + 1]
    lines = None
    n = 2
    tries = 0
    while len(prefix) >= 1 and tries < budget:
        chunk = max(1, len(prefix) // n)
        removed = False
        for i in range(0, len(prefix), chunk):
            cand = prefix[:i] + prefix[i + chunk:]
            tries += 1
            if fails(cand):
                prefix = cand
                n = max(n - 1, 2)
                removed = True
                break
            if tries >= budget:
                break
        if not removed:
            if chunk == 1:
                break
            n = min(len(prefix), n * 2)
    return head + prefix + [last]


# ---------------------------------------------------------------- known findings

def load_known():
    p = os.path.join(ROOT, "known_findings.json")
    if not os.path.exists(p):
        return []
    return json.load(open(p)).get("findings", [])


def match_known(known, prop, signature):
    for k in known:
        if k.get("status") != "known" or k.get("property") != prop:
            continue
        if re.search(k["match"], signature):
            return k
    return None


# ---------------------------------------------------------------- main

def main(argv):
    from props import PROPS
    ap = argparse.ArgumentParser()
    ap.add_argument("prop")
    ap.add_argument("--tier", default=os.environ.get("VERIF_TIER", "quick"))
    ap.add_argument("--replay")
    args = ap.parse_args(argv)
    prop = args.prop
    if prop not in PROPS:
        log("unknown property", prop)
        return 2
    cfg = PROPS[prop]
    tier = args.tier if args.tier in ("quick", "thorough") else "quick"
    try:
        seed = int(os.environ.get("VERIF_SEED", "1"))
    except ValueError:
        seed = 1
    t0 = time.time()
    tag = "%s.%s.%d" % (prop, tier, os.getpid())
    os.makedirs(WORK, exist_ok=True)
    os.makedirs(os.path.join(ROOT, "evidence"), exist_ok=True)
    os.makedirs(os.path.join(ROOT, "replays"), exist_ok=True)

    failures = []   # dicts: kind, stream, signature, detail, lines(optional)
    notes = {}

    if args.replay:
        return do_replay(prop, cfg, args.replay, tag)

    # 1. harness build (against /repo working tree, hooks on)
    uses = {s_["name"] for s_ in cfg.get("streams", [])} | set(cfg.get("oracles", []))
    ok, out = build_harness(need26=bool(uses & BUBBLE_STREAMS))
    if not ok:
        failures.append({"kind": "tie", "stream": "-", "signature": "harness-build",
                         "detail": "the harness no longer builds against /repo with -tags verif:\n" + out[-3000:]})
    # 2. facts
    facts_ok = False
    if ok:
        facts_ok, fout = regen_facts()
        if not facts_ok:
            failures.append({"kind": "tie", "stream": "-", "signature": "fact-extractor",
                             "detail": "fact extractor failed (unknown source shape?):\n" + fout[-3000:]})
    # 3. lean build
    names = theorems_of(prop)
    lok, lout = lake_build(["P2PVerif.Props." + prop, "driver"])
    failed_thms = []
    if not lok:
        errs = re.findall(r"error: (P2PVerif/\S+?\.lean):(\d+):(\d+): (.*)", lout)
        mods = sorted(set(e[0] for e in errs))
        propfile = "P2PVerif/Props/%s.lean" % prop
        for f, ln, col, msg in errs:
            if f == propfile:
                ln = int(ln)
                cand = [n for n, l in names if l <= ln]
                failed_thms.append(cand[-1] if cand else "%s:%d" % (f, ln))
        failed_thms = sorted(set(failed_thms))
        if not failed_thms:
            failed_thms = ["(import) " + m for m in mods] or ["lake build"]
        for t in failed_thms:
            failures.append({"kind": "obligation", "stream": "-", "signature": "theorem " + t,
                             "detail": "proof obligation no longer checks: %s\n%s" % (t, lout[-3000:])})
    # 4. audit
    discharged = 0
    axioms_seen = {}
    if lok:
        names, res, aout = audit(prop)
        for n, _ in names:
            if n not in res:
                failures.append({"kind": "obligation", "stream": "-", "signature": "audit " + n,
                                 "detail": "theorem missing from axiom audit: " + n + "\n" + aout[-1500:]})
                continue
            axioms_seen[n] = res[n]
            bad = [a for a in res[n] if a not in ALLOWED_AXIOMS]
            if bad:
                failures.append({"kind": "obligation", "stream": "-", "signature": "axioms " + n,
                                 "detail": "theorem %s depends on disallowed axioms %s" % (n, bad)})
            else:
                discharged += 1
        hits = grep_forbidden()
        if hits:
            failures.append({"kind": "obligation", "stream": "-", "signature": "forbidden-token",
                             "detail": "forbidden token in Lean sources:\n" + "\n".join(hits[:20])})
        if tier == "thorough":
            rc, cout = sh(["lake", "env", "leanchecker", "P2PVerif.Props." + prop], cwd=LEAN, timeout=3600)
            notes["leanchecker"] = "ok" if rc == 0 else "FAILED: " + cout[-500:]
            if rc != 0:
                failures.append({"kind": "obligation", "stream": "-", "signature": "leanchecker",
                                 "detail": cout[-2000:]})
    # 5. correspondence streams
    stream_results = []
    if ok and os.path.exists(DRIVER):
        for s in cfg.get("streams", []):
            name = s["name"]
            # corpus first
            cdir = os.path.join(ROOT, "corpus", name)
            if os.path.isdir(cdir):
                for cf in sorted(os.listdir(cdir)):
                    if not cf.endswith(".ops"):
                        continue
                    lines = [l.rstrip("\n") for l in open(os.path.join(cdir, cf)) if l.strip()]
                    res, mism, _ = replay_ops(name, lines, tag + ".corpus")
                    if res is None or mism:
                        failures.append({"kind": "mismatch", "stream": name, "signature": "corpus %s %s" % (cf, (mism or ["?"])[0][:300]),
                                         "detail": "\n".join(mism[:5]), "lines": lines})
            seeds = [seed] if tier == "quick" else [seed + k for k in range(s.get("thorough_seeds", 3))]
            n = s.get(tier, s.get("quick", 1000))
            for sd in seeds:
                r = run_stream(name, sd, n, tier, tag, s.get("args"))
                r["seed"] = sd
                stream_results.append(r)
                if "error" in r:
                    failures.append({"kind": "tie", "stream": name, "signature": "stream-error " + name,
                                     "detail": r["error"]})
                    continue
                for m in r["mismatches"]:
                    failures.append({"kind": "mismatch", "stream": name, "signature": m[:400], "detail": m,
                                     "ops": r["ops"], "stateful": s.get("stateful", False),
                                     "seq_start": s.get("seq_start"), "seed": sd})
    # 5a. a disagreement must reproduce when its operation sequence is re-executed; one that does not is a
    #     scheduling artefact of the harness (recorded in the evidence, not an alarm)
    kept = []
    flaky = []
    checked_seq = {}
    for f in failures:
        if f["kind"] != "mismatch" or not f.get("ops") or not os.path.exists(f["ops"]):
            kept.append(f)
            continue
        m = re.search(r"line=(\d+) ", f["detail"])
        if not m:
            kept.append(f)
            continue
        ln = int(m.group(1))
        alllines = [l.rstrip("\n").split(" | ")[0] for l in open(f["ops"])]
        start = 0
        ss = f.get("seq_start")
        if f.get("stateful") and ss:
            ss = tuple(ss) if not isinstance(ss, str) else ss
            for i in range(ln - 1, -1, -1):
                if alllines[i].startswith(ss):
                    start = i
                    break
        elif not f.get("stateful"):
            start = ln - 1
        key = (f["ops"], start)
        if key not in checked_seq:
            # re-run the whole sequence containing the line (to its end or the next sequence start)
            end = ln
            if f.get("stateful") and ss:
                for i in range(ln, len(alllines)):
                    if alllines[i].startswith(ss):
                        break
                    end = i + 1
            bad = set()
            for attempt in range(2):
                res, mism, _ = replay_ops(f["stream"], alllines[start:end], tag + ".re")
                if res is None:
                    bad = None
                    break
                for mm in mism:
                    m2 = re.search(r"line=(\d+) ", mm)
                    if m2:
                        bad.add(start + int(m2.group(1)))
                if bad:
                    break
            checked_seq[key] = bad
        bad = checked_seq[key]
        if bad is None or bad:
            kept.append(f)
        else:
            flaky.append(f["signature"][:200])
    failures = kept
    if flaky:
        notes["unreproduced_disagreements"] = flaky[:10]
    # 5b. property oracles on the implementation alone (always run on a directed sample; they are also what
    #     detects recorded known findings on every run)
    oracle_stats = []
    if ok:
        for os_ in cfg.get("oracles", []):
            on = cfg.get("oracle_n_by", {}).get(os_, cfg.get("oracle_n", {})).get(tier, 4000 if tier == "quick" else 100000)
            of, ncases, oout = run_oracle(os_, seed, on, tier, tag, None)
            # the oracles that drive real stacks measure wall-clock time (deadlines, "still blocked after …"): under
            # load a single run can report what is only slowness. Like a stream disagreement, an oracle failure must
            # come back when the same sample is run again (up to two more times) or it is recorded as unreproduced.
            mine = [l for l in of if not tag_other(prop, l)]
            if mine and ncases > 0 and os_ in TIMED_ORACLES and not any("did not finish within" in l for l in mine):
                again = set()
                for _ in range(2):
                    of2, _, _ = run_oracle(os_, seed, on, tier, tag, None)
                    again |= {sig_class(l) for l in of2}
                    if all(sig_class(l) in again for l in mine):
                        break
                gone = [l for l in mine if sig_class(l) not in again]
                if gone:
                    notes.setdefault("unreproduced_oracle_failures", []).extend(l[:200] for l in gone[:10])
                    of = [l for l in of if l not in gone]
            if ncases == 0:
                # no case count at all: the harness process died or was killed; once more before the tie is called broken
                of, ncases, oout = run_oracle(os_, seed, on, tier, tag, None)
            oracle_stats.append({"oracle": os_, "cases": ncases, "fails": len(of)})
            if ncases == 0:
                failures.append({"kind": "tie", "stream": os_, "signature": "oracle-error " + os_, "detail": oout[-2000:]})
            for l in of:
                # an oracle shared by several properties tags each failure with the property it speaks for
                if tag_other(prop, l):
                    continue
                failures.append({"kind": "oracle", "stream": os_, "signature": l[:600], "detail": l})
    notes["oracles"] = oracle_stats
    # 5c. data races (C14): the oracles that exercise concurrency, once more under the Go race detector. A dynamic
    #     detector proves nothing; it is the only thing here that looks at the Go memory model at all.
    if ok and cfg.get("race_oracles"):
        rok, rout = build_race()
        if not rok:
            notes["race_detector"] = "not available: " + rout[-300:]
        else:
            rstats = []
            seen_r = set()
            for os_, rn in cfg["race_oracles"].get(tier, cfg["race_oracles"]["quick"]):
                races, ncases, _ = run_race(os_, seed, rn, tier)
                rstats.append({"oracle": os_, "cases": ncases, "races": len(races)})
                for sig, blk in races:
                    if sig in seen_r:
                        continue
                    seen_r.add(sig)
                    failures.append({"kind": "oracle", "stream": os_, "signature": sig, "detail": "ORACLE-FAIL " + sig + "\n" + blk})
            notes["race_detector"] = rstats
    # 6. violation search
    violations = []
    known = load_known()
    known_hits = []
    if failures:
        violations = search(prop, cfg, failures, seed, tier, tag, known, known_hits)
    for k, sig in known_hits:
        log("KNOWN-FINDING: property=%s %s" % (prop, k["what"]))
    # 7. evidence
    write_evidence(prop, cfg, tier, seed, names, discharged, axioms_seen, stream_results, failures, violations,
                   known_hits, notes, time.time() - t0)
    cleanup(tag)
    if violations:
        for v in violations:
            log(v)
        return 1
    log("OK property=%s tier=%s obligations=%d discharged=%d streams=%s wall=%.1fs" % (
        prop, tier, len(names), discharged,
        ",".join("%s:%d" % (r["stream"], r.get("lines", 0)) for r in stream_results), time.time() - t0))
    return 0


def cleanup(tag):
    for f in os.listdir(WORK):
        if f.startswith(tag):
            try:
                os.remove(os.path.join(WORK, f))
            except OSError:
                pass


# oracles whose verdicts depend on wall-clock time
TIMED_ORACLES = {"swarm", "secure", "hub", "ke", "ket", "kesw", "mux", "mbask"}


def sig_class(sig):
    """collapse hex blobs and numbers so that one defect is reported once"""
    cls = re.sub(r"history=\[.*", "", sig)
    cls = re.sub(r"x[0-9a-f]*", "x..", cls)
    cls = re.sub(r"line=\d+", "line=N", cls)
    cls = re.sub(r"\d+", "N", cls)
    return cls[:200]


def search(prop, cfg, failures, seed, tier, tag, known, known_hits):
    """Violation search: look for a concrete failing input of the *property* on the implementation.
    Returns VIOLATION lines (possibly empty when every failure is a listed known finding)."""
    out_lines = []
    idx = 0
    live = []
    for f in failures:
        k = match_known(known, prop, f["signature"] + " " + f.get("detail", ""))
        if k:
            if k["id"] not in [x[0]["id"] for x in known_hits]:
                known_hits.append((k, f["signature"]))
        else:
            live.append(f)
    if not live:
        return []
    # targeted oracle run on the inputs of disagreeing lines, per stream
    targeted = {}
    for stream in sorted(set(f["stream"] for f in live if f["kind"] == "mismatch")):
        if stream not in cfg.get("oracles", []):
            continue
        mm = [f for f in live if f["kind"] == "mismatch" and f["stream"] == stream]
        infile = os.path.join(WORK, tag + "." + stream + ".oracle-in.ops")
        with open(infile, "w") as fo:
            for f in mm[:200]:
                if f.get("stateful") and f.get("ops") and os.path.exists(f["ops"]):
                    m = re.search(r"line=(\d+) ", f["detail"])
                    if m:
                        ls = [l.split(" | ")[0].rstrip("\n") for l in open(f["ops"]).readlines()[:int(m.group(1))]]
                        st0 = 0
                        if f.get("seq_start"):
                            for i in range(len(ls) - 1, -1, -1):
                                if ls[i].startswith(tuple(f["seq_start"]) if not isinstance(f["seq_start"], str) else f["seq_start"]):
                                    st0 = i
                                    break
                        for l in ls[st0:]:
                            fo.write(l + "\n")
                    break
                m = re.search(r"op=(.*?) model=", f["detail"])
                if m:
                    fo.write(m.group(1) + "\n")
        of, ncases, oout = run_oracle(stream, seed, search_n(cfg, stream, tier), tier, tag, infile)
        of = [l for l in of if not match_known(known, prop, l) and not tag_other(prop, l)]
        targeted[stream] = (of, "oracle cases=%d unlisted-fails=%d" % (ncases, len(of)))
    # if a proof obligation or the tie itself broke, every oracle of the property is run wider
    wide = []
    if any(f["kind"] in ("obligation", "tie") for f in live):
        for os_ in cfg.get("oracles", []):
            of, ncases, oout = run_oracle(os_, seed + 1000, search_n(cfg, os_, tier), tier, tag, None)
            wide += [l for l in of if not match_known(known, prop, l) and not tag_other(prop, l)]
    live_oracle = [f["detail"] for f in live if f["kind"] == "oracle"]
    reported = set()
    for f in live:
        sig = f["signature"]
        cls = f["kind"] + ":" + f["stream"] + ":" + sig_class(sig)
        if cls in reported:
            continue
        reported.add(cls)
        if len(reported) > 10:
            continue
        idx += 1
        rp = os.path.join(ROOT, "replays", "%s-%d-%d.json" % (prop, seed, idx))
        rec = {"property": prop, "tier": tier, "seed": seed, "stream": f["stream"], "kind": f["kind"],
               "signature": sig, "detail": f.get("detail", "")[:8000]}
        found_input = False
        if f["kind"] == "oracle":
            found_input = True
            rec["verdict"] = "property oracle fails on the implementation: " + f["detail"][:1500]
            m = re.search(r"history=\[(.*)\]", f["detail"])
            if m:
                rec["ops"] = [x.strip() for x in m.group(1).split(";") if x.strip()]
        elif f["kind"] == "mismatch":
            m = re.search(r"line=(\d+) op=(.*?) model=(.*?) impl=(.*)$", f["detail"])
            if m:
                ln = int(m.group(1))
                rec["op"], rec["model"], rec["impl"] = m.group(2), m.group(3), m.group(4)
                if f.get("stateful") and f.get("ops") and os.path.exists(f["ops"]):
                    alllines = [l.rstrip("\n").split(" | ")[0] for l in open(f["ops"])]
                    start = 0
                    ss = f.get("seq_start")
                    if ss:
                        for i in range(ln - 1, -1, -1):
                            if alllines[i].startswith(ss if isinstance(ss, (tuple, str)) else tuple(ss)):
                                start = i
                                break
                    rec["ops"] = ddmin_prefix(f["stream"], alllines[start:ln], ln - 1 - start, tag, keep_first=bool(ss))
                else:
                    rec["ops"] = [m.group(2)]
                if m.group(4).startswith("fault"):
                    found_input = True
                    rec["verdict"] = "the implementation panics on this input"
            if "lines" in f:
                rec["ops"] = f["lines"]
            of, note = targeted.get(f["stream"], ([], ""))
            rec["oracle"] = note
            rel = of or live_oracle
            if rel and not found_input:
                found_input = True
                rec["oracle_failures"] = rel[:10]
                rec["verdict"] = "property oracle fails on the implementation: " + rel[0][:1500]
            if not found_input and cfg.get("mismatch_is_violation", {}).get(f["stream"]):
                found_input = True
                rec["verdict"] = cfg["mismatch_is_violation"][f["stream"]]
        else:
            rel = wide or live_oracle
            if rel:
                found_input = True
                rec["oracle_failures"] = rel[:10]
                rec["verdict"] = "property oracle fails on the implementation: " + rel[0][:1500]
        if not found_input:
            rec["no_failing_input_found"] = True
            rec["unchecked"] = sig
        with open(rp, "w") as fo:
            json.dump(rec, fo, indent=1)
        line = "VIOLATION property=%s replay=%s" % (prop, rp)
        if not found_input:
            line += " no-failing-input-found"
        # what no longer checks, in the log as well as in the replay file (one line, before the VIOLATION line)
        out_lines.append("DETAIL: %s %s: %s" % (f["kind"], f["stream"], " ".join(str(sig).split())[:300]))
        out_lines.append(line)
    return out_lines


def do_replay(prop, cfg, path, tag):
    ok, out = build_harness()
    if not ok:
        log("harness build failed\n" + out[-2000:])
        return 1
    lake_build(["driver"])
    rec = json.load(open(path))
    stream = rec.get("stream")
    ops = rec.get("ops")
    if not ops or stream in (None, "-"):
        log("replay names a proof obligation / tie, nothing to execute: " + str(rec.get("signature")))
        return 1
    res, mism, opsfile = replay_ops(stream, ops, tag)
    for l in open(opsfile):
        log("  " + l.rstrip())
    for m in mism:
        log(m)
    if mism or res is None:
        log("VIOLATION property=%s replay=%s" % (prop, path))
        return 1
    log("replay agrees with the model on this tree")
    return 0


def write_evidence(prop, cfg, tier, seed, names, discharged, axioms_seen, stream_results, failures, violations,
                   known_hits, notes, wall):
    ev = sum(r.get("lines", 0) for r in stream_results)
    dn = sum(r.get("stats", {}).get("distinct_nontrivial", 0) for r in stream_results)
    samples = []
    for n, _ in names[:4]:
        samples.append({"obligation": n, "axioms": axioms_seen.get(n)})
    for r in stream_results:
        for s in r.get("stats", {}).get("samples", [])[:4]:
            samples.append({"stream": r["stream"], "op": s})
    cov = {
        "obligations": len(names),
        "discharged": discharged,
        "checker_cmd": "cd /verif/lean && lake build P2PVerif.Props.%s && lake env lean .audit/%s.lean  (# print axioms per theorem)%s" % (
            prop, prop, " && lake env leanchecker P2PVerif.Props.%s" % prop if tier == "thorough" else ""),
        "trusted_base": TRUSTED_BASE + cfg.get("trusted_extra", []),
        "theorems": [{"name": n, "axioms": axioms_seen.get(n)} for n, _ in names],
        "evaluations": ev,
        "distinct_nontrivial": dn,
        "rule": cfg.get("rule", "an operation line is counted once per distinct (operation, arguments) text; all generated cases are boundary-directed or structured mutations"),
        "samples": samples,
        "traces_validated_against_impl": ev,
        "streams": [{"stream": r["stream"], "seed": r.get("seed"), "lines": r.get("lines", 0),
                     "mismatches": r.get("nmismatch", None), "op_mix": r.get("stats", {}).get("op_mix"),
                     "results": r.get("stats", {}).get("results"), "notes": r.get("stats", {}).get("notes")}
                    for r in stream_results],
        "known_findings_hit": [k["id"] for k, _ in known_hits],
        "notes": notes,
    }
    # which regenerated definitions the property's theorems speak about (if any)
    try:
        src_path = os.path.join(LEAN, "P2PVerif", "Gen", "Src.lean")
        prop_src = open(os.path.join(LEAN, "P2PVerif", "Props", prop + ".lean")).read()
        if "src_" in prop_src and os.path.exists(src_path):
            src_txt = open(src_path).read()
            defs = re.findall(r"^def (\S+)", src_txt, re.M)
            cov["regenerated_definitions"] = {
                "translator": "harness/cmd/go2lean (run against %s on this run)" % REPO,
                "count": len(defs), "sha256": hashlib.sha256(src_txt.encode()).hexdigest(),
                "used_by_theorems": sorted(set(n for n, _ in names if ".src_" in n)),
                "functions": defs,
            }
    except OSError:
        pass
    if cfg.get("exploration"):
        cov["exploration_only"] = cfg["exploration"]
    evd = {
        "property_id": prop, "tier": tier, "seed": seed, "level": cfg.get("level", "proof"),
        "coverage": cov,
        "assumptions": cfg.get("assumptions", []),
        "wall_s": round(wall, 2),
        "violations": len(violations),
    }
    with open(os.path.join(ROOT, "evidence", prop + ".json"), "w") as f:
        json.dump(evd, f, indent=1)
