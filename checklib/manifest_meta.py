HOOK_COMMITS = ["6a4fe2f", "36f6cc7", "cb89a57", "5b9f00f", "af3290e", "87a81aa", "8a013b9", "6218c92", "b1059ad", "702e1dd"]

_NOTE = ("Trusted: Lean kernel; axioms propext/Quot.sound/Classical.choice only (audited each run); the hand-written model is tied "
         "to the code by the correspondence stream(s) and regenerated facts, so its reach is bounded by generator coverage "
         "(distribution printed in the evidence). Go runtime/stdlib behaviour is modelled, not verified.")

META = {
    "C15": {
        "text": "Proof: round-trip, injectivity, prefix-freeness and dispatch isolation are Lean theorems over every channel id "
                "(strings of any length, all 16/32/64-bit and varint values) and every payload; the five real mux/demux "
                "functions and real muxed swarms are compared with the model on boundary-directed and malformed frames each run.",
        "design_ref": "DESIGN.md section 5 C15",
        "note": _NOTE,
        "technique": "Lean 4 theorems (induction on the varint encoder) + differential correspondence against the Go functions",
    },
}

META["C18"] = {
    "text": "Proof: for every locus, capacity, per-bucket minimum and every sequence of update/delete/expire operations the model's "
            "count equals the number of entries held and never exceeds max (inductive invariant), lookups refine a map (per-step "
            "refinement theorems), Expire removes exactly the expired entries despite the min-expiry shortcut, and the eviction "
            "victim is a newest entry of the farthest bucket above its protected minimum. The real Cache is driven through the "
            "same random operation sequences and compared after every operation.",
    "design_ref": "DESIGN.md section 5 C18",
    "note": _NOTE,
    "technique": "Lean 4 inductive invariant + refinement theorems over operation sequences; lock-step differential correspondence with p/kademlia.Cache",
}
META["C19"] = {
    "text": "Proof: DistanceCmp equals bytes.Compare of XOR distances and is a total preorder (all lengths); ForEach visits every "
            "entry exactly once in non-decreasing distance, Closest is a minimum and ForEachCloser returns all and only the nearer "
            "entries, for every cache content with entry keys at least as long as the locus and query keys of any length. The "
            "bucket visiting order is proved via a bit-level lemma; the real ForEach/Closest/ForEachCloser sequences are compared "
            "with the model each run. Entry keys shorter than the locus are a recorded known finding.",
    "design_ref": "DESIGN.md section 5 C19",
    "note": _NOTE,
    "technique": "Lean 4 theorems (bit-list bridge, sortedness of the bucket visiting order) + differential correspondence",
}

META["C20"] = {
    "text": "Proof: for an arbitrary (stateful, adversarial) responder every iterative operation contacts each id at most once, "
            "contacts only ids somebody mentioned, terminates (32-byte ids), reports as closest a minimum of the contacted / "
            "responding / accepting nodes, returns only validated values from contacted nodes and counts distinct acceptors, with "
            "the error exactly below the minimum. The real DHTFindNode/Join/Get/Put run against simulated networks and their RPC "
            "sequence and result are compared with the model each run. The answering side (dht_node.go) is modelled too: FindNode "
            "answers at most min(limit,10) held peers nearest first, no answer lists the node itself, closer lists are strictly "
            "closer, Accepted is truthful (readable at once / not stored / never without a data cache), caches stay within their "
            "sizes; the real DHTNode runs under a fake clock against that model each run.",
    "design_ref": "DESIGN.md section 5 C20",
    "note": _NOTE,
    "technique": "Lean 4 invariant proofs over the dhtIterate loop with an arbitrary responder + differential correspondence on simulated networks",
}

META["C17"] = {
    "text": "Proof: parse(marshal key) = key for every OID asn1 accepts both ways and every key body; keys are equal iff their "
            "encodings are; a hash-of-encoding fingerprint is a function of the key alone; PeerID text round-trips, preserves byte "
            "order (alphabet regenerated from peer.go and proved strictly increasing), and UnmarshalText accepts only the canonical "
            "43-character text of the id it yields. Real MarshalPublicKey/ParsePublicKey/EqualPublicKeys/PeerID text functions and "
            "both fingerprinters are compared with the model / checked by the oracle each run.",
    "design_ref": "DESIGN.md section 5 C17",
    "note": _NOTE,
    "technique": "Lean 4 round-trip and order theorems over regenerated alphabet facts + differential correspondence",
}

META["C16"] = {
    "text": "Proof: parse(marshal a) = a by induction over the nesting of address types, for every valid address of every "
            "swarm stack (memswarm, udp with IPv4/IPv6 bracket rules, ssh fingerprint@ip:port, id@inner, scheme://inner), and "
            "whatever arbitrary text parses to is valid and marshals back to text that parses to the same address. The real "
            "MarshalText/ParseAddr of all six address types, nested, are compared with the model on generated and mutated text.",
    "design_ref": "DESIGN.md section 5 C16",
    "note": _NOTE + " net/netip and fmt.Sscan are parameters with assumed laws (EnvOK), checked against the stdlib each run.",
    "technique": "Lean 4 structural induction on the address grammar + differential correspondence with the Go parsers",
}

META["C10"] = {
    "text": "Proof: for every schedule (any interleaving, duplication, loss, clean-up at any moment) over the genuine fragments of "
            "any number of messages from any number of sources with distinct (source, id) resp. (source, origin time, counter), "
            "every payload the fragmenting swarm or the message-box swarm delivers is exactly the payload of the message whose "
            "fragment completed it, a message with a missing fragment is never delivered, and delivering all fragments in any "
            "order delivers the payload once. Real receivers are fed reordered/duplicated/dropped/forged datagrams and compared "
            "with the model datagram by datagram.",
    "design_ref": "DESIGN.md section 5 C10",
    "note": _NOTE,
    "technique": "Lean 4 inductive invariant over arbitrary schedules + lock-step differential correspondence",
}
META["C09"] = {
    "text": "Proof, per layer: a payload no longer than MTU() is accepted by fragswarm / mbapp / every multiplexer kind and every "
            "datagram it is split into fits the inner MTU with the part count inside its 8/16-bit field; a longer payload is "
            "refused with the MTU error; the overhead constants are regenerated from the source. Complete delivery of accepted "
            "payloads is C10. Nestings over real sockets are covered by correspondence only.",
    "design_ref": "DESIGN.md section 5 C09",
    "note": _NOTE,
    "technique": "Lean 4 arithmetic theorems over regenerated constants + differential correspondence at size boundaries",
}

_KE_NOTE = _NOTE + (" Cryptography is modelled symbolically (ideal primitives, Dolev-Yao style adversary restricted to the listed term "
                     "constructions); computational soundness is not claimed.")
META["C02"] = {
    "text": "Proof: in every world reachable with any number of honest sessions and a symbolic adversary controlling the transport, "
            "every plaintext delivered by a session whose authenticated peer key is honest was handed to Send by that peer's "
            "session of the same handshake as that very ciphertext; no session accepts a ciphertext twice and no ciphertext is "
            "accepted by two sessions (replay filter modelled exactly and proved at-most-once for all counter sequences); data "
            "counters of a session are distinct, >= 16 and below the limit that fits the 32-bit header. Real sessions/channels "
            "are compared with the model in lock step each run.",
    "design_ref": "DESIGN.md section 5 C02", "note": _KE_NOTE,
    "technique": "Lean 4 inductive invariant over adversary traces (symbolic model) + exact replay-filter proof + lock-step differential correspondence",
}
META["C03"] = {
    "text": "Proof: a responder at hsIndex >= 3 / an initiator at hsIndex >= 2 that reports an honest remote key has as its peer an "
            "honest session owned by that key which ran this very handshake (same ephemerals and claim); hence a party without "
            "the key, replaying or splicing signed material, never brings a session to usable with a victim's key; application "
            "data is accepted/encrypted only behind the canReceive/canSend gates; the two signature purposes read from the "
            "source differ. Real sessions are driven with spliced hellos, foreign ephemerals and adversary-keyed sessions each run.",
    "design_ref": "DESIGN.md section 5 C03", "note": _KE_NOTE,
    "technique": "Lean 4 inductive invariant (signature provenance and secrecy) over a symbolic adversary + lock-step differential correspondence",
}
META["C06"] = {
    "text": "Proof: for every finite schedule of deliver/duplicate/reorder/reflect/retransmit/send actions over the genuine messages of "
            "one honest pair, sessions never regress, a rejected genuine message leaves the session unchanged, the cached "
            "handshake message always exists and is a function of the handshake index, and delivering each side's current "
            "handshake message once more in sequence makes both ready with data flowing both ways. The same schedules run on "
            "real sessions each run (model correspondence and a direct completion oracle).",
    "design_ref": "DESIGN.md section 5 C06", "note": _KE_NOTE,
    "technique": "Lean 4 pair invariant over arbitrary schedules + completion theorem; lock-step differential correspondence",
}

_HUB_NOTE = _NOTE + (" The select skeleton (which cases each select offers, what CloseWithError(nil) stores) is regenerated from "
                      "hubs.go/queue.go by go/ast on every run; the function shapes are fixed by hand. Promptness is enabledness, not seconds.")
META["C13"] = {
    "text": "Proof over the TellHub/AskHub labelled transition systems (any number of receivers and producers, any interleaving, "
            "cancels and close anywhere): each message enters at most one callback, Deliver returns success only after that "
            "callback finished (with its result) and an error only if no callback saw the message, a cancelled participant's "
            "return is always enabled and cancelling a receiver changes no deliverer; the bounded queue conserves its slots, is "
            "FIFO and loses nothing on cancel. The skeleton obligation re-checks the select cases read from the source.",
    "design_ref": "DESIGN.md section 5 C13", "note": _HUB_NOTE,
    "technique": "Lean 4 inductive invariant over LTS runs, parametric in a select skeleton regenerated from the Go AST; scripted and racing correspondence on the real hubs",
}
META["C12"] = {
    "text": "Proof over the same transition systems: after close every parked Receive/ServeAsk/Deliver has its closed-return "
            "enabled and it yields a non-nil error, a parked receiver with nothing else to do can only return, calls started "
            "after close fail at their closed check, no participant ever returns nil on a closed hub, no rendezvous is enabled "
            "once the parked calls have left, close is idempotent, a closed queue stays closed and empty. Stack-level Close and "
            "goroutine release on real swarms are exercised by the oracle as exploration.",
    "design_ref": "DESIGN.md section 5 C12", "note": _HUB_NOTE,
    "technique": "Lean 4 enabledness and invariant theorems over the hub/queue LTS with regenerated select skeleton; correspondence on the real hubs",
}
META["C11"] = {
    "text": "Proof: through the ask hub a successful ask returns exactly the value the handler produced for that request, for any "
            "number of outstanding asks and any interleaving; a failed one was never seen by a handler; a closed hub yields an "
            "error; a response longer than the caller's buffer is an error, not a truncation; quicswarm frames round-trip; a "
            "negative handler result travels as a non-zero error code. mbapp's ask/reply matching is modelled (asker table keyed by "
            "counter, origin time and destination): whatever an Ask returns other than its context's error came from a reply with "
            "its counter, origin time and destination; ids are distinct and replies are consumed; with honest responders a "
            "successful Ask returns exactly its own handler's bytes. Real AskHub scenarios, the real mbapp asker under a fake "
            "clock (held, late, duplicated, altered replies, restarts) and racing asks are compared/checked each run.",
    "design_ref": "DESIGN.md section 5 C11", "note": _HUB_NOTE,
    "technique": "Lean 4 invariants over the AskHub LTS and the mbapp asker table + framing/completion theorems; correspondence (hub, frag, ask streams) and oracles on real hubs, mbapp and ask-capable swarms",
}
META["C14"] = {
    "text": "Partial by design: buffer ownership is proved (a slot lent to a callback is in no other place; a recycled slot shows "
            "exactly the enqueued message; a hub's deliverer stays committed while its message is in a callback). Freedom from data "
            "races under the Go memory model is not expressible in these models and is NOT claimed; a -race contention run is "
            "reported as exploration in the evidence. Above the hubs, every packet the harness hands to fragswarm, mbapp and p2pke "
            "is in a buffer that is overwritten when the call returns, so a layer that keeps a reference delivers corrupted bytes.",
    "design_ref": "DESIGN.md section 5 C14 and section 6", "note": _HUB_NOTE,
    "technique": "Lean 4 slot-conservation / exclusivity invariants over queue and hub models; contention stress as exploration",
}

META["C05"] = {
    "text": "Proof: for every acceptance predicate and every sequence of channel operations and incoming terms (any sender, any order, "
            "both roles, simultaneous starts, rekeys, expiry), the channel's remote key was accepted by the predicate, the current "
            "and previous sessions are with exactly that key, application data is delivered/encrypted only on such sessions, the "
            "remote key never changes once set, and a handshake presenting another key leaves the current session in place. Real "
            "channels with all/none/only:k predicates are driven in lock step and by the oracle each run.",
    "design_ref": "DESIGN.md section 5 C05", "note": _KE_NOTE,
    "technique": "Lean 4 inductive channel invariant over arbitrary operation sequences + lock-step differential correspondence",
}
META["C07"] = {
    "text": "Proof (partial, see assumptions): slot discipline (previous/current ready, prospective not ready) in every reachable state, "
            "make-before-break for rekey/handshake/incoming terms, keep-alive soundness (authenticated data through the current "
            "session refreshes lastReceived; a session within its keep-alive and reject times is not torn down), convergence of "
            "simultaneous initiation, and establishment within three reliable round trips from fresh channels and after a peer "
            "restart (after establishment and after the first InitHello). With the two timers in the model (KeTimed): in every "
            "reachable state, for every interleaving and however late callbacks run, a channel with waiting callers has a timer "
            "armed that acts for them (never_stranded); what the handshake timer retransmits is younger than the time-out; a "
            "handshake that does not complete is given up and started over; the rekey callback always leaves a driven session; "
            "establishment through the timers from fresh channels. The real channels run with their real timers under a fake "
            "clock (testing/synctest) against the timed model event for event, and an oracle tries adversarial prefixes "
            "(loss, duplication, reordering, restarts, third-party handshakes, arbitrary timing) followed by a reliable network: "
            "the pending Send must complete within handshakeAttempts+4 backoffs, both sides get in step, traffic flows across "
            "rekeys. General convergence from arbitrary states is not a theorem.",
    "design_ref": "DESIGN.md section 5 C07 and section 6", "note": _KE_NOTE,
    "technique": "Lean 4 channel and timer invariants (small-step interleavings) + scenario theorems with symbolic parameters; lock-step and fake-clock correspondence; fake-clock convergence oracle",
}
META["C08"] = {
    "text": "Proof: the packet-facing parsers and reassemblers of the repository (string/varint demultiplexers, fragswarm parse and "
            "aggregator, mbapp header/collector/bitmap, quicswarm frame buffer, p2pke message and InitHello framing) are re-written "
            "with Go's checked slice/index semantics and proved never to fault and to agree with the total models, for every input "
            "and every history; a rejected datagram leaves reassembly state untouched. Every correspondence stream doubles as a "
            "crash detector (panic = observation `fault`). Parsers outside the repository are fuzzed only.",
    "design_ref": "DESIGN.md section 5 C08", "note": _NOTE + " encoding/asn1, protobuf, flynn/noise, quic-go and x/crypto/ssh internals are not modelled.",
    "technique": "Lean 4 no-fault theorems over checked (Except) re-writings of the parsers + structured malformed-input correspondence in all streams",
}

META["C04"] = {
    "text": "Proof over decision models: sshswarm's server records the key of the authenticated permissions, so for every sequence of "
            "query/sign steps by a peer that can only sign with keys it holds the recorded identity is a key it signed with (the "
            "closure-variable defect of the unrepaired code is proved as a separate theorem about its model); quicswarm hands a "
            "payload only to a connection whose proven key is the addressed identity and serves only allowed identities; "
            "p2pkeswarm's source identity is the channel's accepted remote key, a Tell to identity X encrypts only on a channel "
            "whose remote key is X, and a whitelisted-out key never becomes the remote key (corollaries of C05). Real swarms are "
            "exercised by the secure oracle, including the SSH history with a patched client.",
    "design_ref": "DESIGN.md section 5 C04", "note": _KE_NOTE + " TLS/SSH proof-of-possession is assumed, not modelled.",
    "technique": "Lean 4 theorems over decision models (SSH auth loop, QUIC dial/serve, P2PKE channel corollaries) + scenario oracle on real swarms",
}

META["C01"] = {
    "text": "Proof by induction over the nesting: for every stack of fragmenting and multiplexing layers (any depth, any channel ids, "
            "any base MTU, any message-id counters) a Tell of a payload within MTU() is accepted, all base datagrams fit, the "
            "receiving stack delivers exactly that payload once and nothing from any proper prefix of the datagrams, and a longer "
            "payload is refused; the remaining layers contribute C10 (many messages/sources, any interleaving), C15 (channel "
            "isolation), C02 (P2PKE authenticity, at-most-once) and C13/C14 (queue copy-on-enqueue, slot ownership). Real nestings "
            "are compared datagram by datagram, and 14 real stacks including UDP/QUIC/SSH are checked against a ledger of told "
            "(src, dst, payload) triples with sender buffers overwritten after Tell.",
    "design_ref": "DESIGN.md section 5 C01",
    "note": _NOTE + " Source/destination attribution and buffer non-interference on real transports are checked by the ledger oracle, not proved; QUIC/SSH/UDP internals are assumed.",
    "technique": "Lean 4 structural induction over layer stacks composing per-layer theorems + lock-step correspondence on real nestings + ledger oracle on real stacks",
}

_PENDING = "check under construction in this build round; will be claimed once its model, theorems and correspondence stream pass on the unchanged tree"
NOT_APPLICABLE = {("C%02d" % i): _PENDING for i in range(1, 21)}
