HOOK_COMMITS = ["6a4fe2f"]

_NOTE = ("Trusted: Lean kernel; axioms propext/Quot.sound/Classical.choice only (audited each run); the hand-written model is tied "
         "to the code by the correspondence stream(s) and regenerated facts, so its reach is bounded by generator coverage "
         "(distribution printed in the evidence). Go runtime/stdlib behaviour is modelled, not verified.")

META = {
    "C15": {
        "text": "Proof: round-trip, injectivity, prefix-freeness and dispatch isolation are Lean theorems over every channel id "
                "(strings of any length, all 16/32/64-bit and varint values) and every payload; the five real mux/demux "
                "functions and real muxed swarms are compared with the model on boundary-directed and malformed frames each run.",
        "design_ref": "DESIGN.md section 5 C15",
        "note": _NOTE,
        "technique": "Lean 4 theorems (induction on the varint encoder) + differential correspondence against the Go functions",
    },
}

_PENDING = "check under construction in this build round; will be claimed once its model, theorems and correspondence stream pass on the unchanged tree"
NOT_APPLICABLE = {("C%02d" % i): _PENDING for i in range(1, 21)}
