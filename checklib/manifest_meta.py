HOOK_COMMITS = ["6a4fe2f", "36f6cc7", "cb89a57", "5b9f00f", "af3290e"]

_NOTE = ("Trusted: Lean kernel; axioms propext/Quot.sound/Classical.choice only (audited each run); the hand-written model is tied "
         "to the code by the correspondence stream(s) and regenerated facts, so its reach is bounded by generator coverage "
         "(distribution printed in the evidence). Go runtime/stdlib behaviour is modelled, not verified.")

META = {
    "C15": {
        "text": "Proof: round-trip, injectivity, prefix-freeness and dispatch isolation are Lean theorems over every channel id "
                "(strings of any length, all 16/32/64-bit and varint values) and every payload; the five real mux/demux "
                "functions and real muxed swarms are compared with the model on boundary-directed and malformed frames each run.",
        "design_ref": "DESIGN.md section 5 C15",
        "note": _NOTE,
        "technique": "Lean 4 theorems (induction on the varint encoder) + differential correspondence against the Go functions",
    },
}

META["C18"] = {
    "text": "Proof: for every locus, capacity, per-bucket minimum and every sequence of update/delete/expire operations the model's "
            "count equals the number of entries held and never exceeds max (inductive invariant), lookups refine a map (per-step "
            "refinement theorems), Expire removes exactly the expired entries despite the min-expiry shortcut, and the eviction "
            "victim is a newest entry of the farthest bucket above its protected minimum. The real Cache is driven through the "
            "same random operation sequences and compared after every operation.",
    "design_ref": "DESIGN.md section 5 C18",
    "note": _NOTE,
    "technique": "Lean 4 inductive invariant + refinement theorems over operation sequences; lock-step differential correspondence with p/kademlia.Cache",
}
META["C19"] = {
    "text": "Proof: DistanceCmp equals bytes.Compare of XOR distances and is a total preorder (all lengths); ForEach visits every "
            "entry exactly once in non-decreasing distance, Closest is a minimum and ForEachCloser returns all and only the nearer "
            "entries, for every cache content with entry keys at least as long as the locus and query keys of any length. The "
            "bucket visiting order is proved via a bit-level lemma; the real ForEach/Closest/ForEachCloser sequences are compared "
            "with the model each run. Entry keys shorter than the locus are a recorded known finding.",
    "design_ref": "DESIGN.md section 5 C19",
    "note": _NOTE,
    "technique": "Lean 4 theorems (bit-list bridge, sortedness of the bucket visiting order) + differential correspondence",
}

META["C20"] = {
    "text": "Proof: for an arbitrary (stateful, adversarial) responder every iterative operation contacts each id at most once, "
            "contacts only ids somebody mentioned, terminates (32-byte ids), reports as closest a minimum of the contacted / "
            "responding / accepting nodes, returns only validated values from contacted nodes and counts distinct acceptors, with "
            "the error exactly below the minimum. The real DHTFindNode/Join/Get/Put run against simulated networks and their RPC "
            "sequence and result are compared with the model each run.",
    "design_ref": "DESIGN.md section 5 C20",
    "note": _NOTE,
    "technique": "Lean 4 invariant proofs over the dhtIterate loop with an arbitrary responder + differential correspondence on simulated networks",
}

META["C17"] = {
    "text": "Proof: parse(marshal key) = key for every OID asn1 accepts both ways and every key body; keys are equal iff their "
            "encodings are; a hash-of-encoding fingerprint is a function of the key alone; PeerID text round-trips, preserves byte "
            "order (alphabet regenerated from peer.go and proved strictly increasing), and UnmarshalText accepts only the canonical "
            "43-character text of the id it yields. Real MarshalPublicKey/ParsePublicKey/EqualPublicKeys/PeerID text functions and "
            "both fingerprinters are compared with the model / checked by the oracle each run.",
    "design_ref": "DESIGN.md section 5 C17",
    "note": _NOTE,
    "technique": "Lean 4 round-trip and order theorems over regenerated alphabet facts + differential correspondence",
}

META["C16"] = {
    "text": "Proof: parse(marshal a) = a by induction over the nesting of address types, for every valid address of every "
            "swarm stack (memswarm, udp with IPv4/IPv6 bracket rules, ssh fingerprint@ip:port, id@inner, scheme://inner), and "
            "whatever arbitrary text parses to is valid and marshals back to text that parses to the same address. The real "
            "MarshalText/ParseAddr of all six address types, nested, are compared with the model on generated and mutated text.",
    "design_ref": "DESIGN.md section 5 C16",
    "note": _NOTE + " net/netip and fmt.Sscan are parameters with assumed laws (EnvOK), checked against the stdlib each run.",
    "technique": "Lean 4 structural induction on the address grammar + differential correspondence with the Go parsers",
}

META["C10"] = {
    "text": "Proof: for every schedule (any interleaving, duplication, loss, clean-up at any moment) over the genuine fragments of "
            "any number of messages from any number of sources with distinct (source, id) resp. (source, origin time, counter), "
            "every payload the fragmenting swarm or the message-box swarm delivers is exactly the payload of the message whose "
            "fragment completed it, a message with a missing fragment is never delivered, and delivering all fragments in any "
            "order delivers the payload once. Real receivers are fed reordered/duplicated/dropped/forged datagrams and compared "
            "with the model datagram by datagram.",
    "design_ref": "DESIGN.md section 5 C10",
    "note": _NOTE,
    "technique": "Lean 4 inductive invariant over arbitrary schedules + lock-step differential correspondence",
}
META["C09"] = {
    "text": "Proof, per layer: a payload no longer than MTU() is accepted by fragswarm / mbapp / every multiplexer kind and every "
            "datagram it is split into fits the inner MTU with the part count inside its 8/16-bit field; a longer payload is "
            "refused with the MTU error; the overhead constants are regenerated from the source. Complete delivery of accepted "
            "payloads is C10. Nestings over real sockets are covered by correspondence only.",
    "design_ref": "DESIGN.md section 5 C09",
    "note": _NOTE,
    "technique": "Lean 4 arithmetic theorems over regenerated constants + differential correspondence at size boundaries",
}

_PENDING = "check under construction in this build round; will be claimed once its model, theorems and correspondence stream pass on the unchanged tree"
NOT_APPLICABLE = {("C%02d" % i): _PENDING for i in range(1, 21)}
