"""Per-property configuration of ./check: theorem module, correspondence streams, oracles."""

PROPS = {
    "C15": {
        "streams": [{"name": "mux", "quick": 6000, "thorough": 300000, "thorough_seeds": 3}],
        "oracles": ["mux"],
        "rule": "mux/demux lines: one case per distinct (kind, channel id, payload | frame); channel ids and frames are "
                "boundary-directed (empty, 2^7k, 2^8k, 2^63, 2^64-1, truncated / overflowing / contradicting length fields); "
                "dispatch/mtu lines come from real muxed swarms over an in-memory realm with 1-6 open channels",
        "assumptions": ["encoding/binary Uvarint/PutUvarint/BigEndian are modelled exactly and cross-checked by the mux stream",
                        "sync.Map dispatch is modelled as a list-membership test"],
    },
}
