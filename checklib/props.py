"""Per-property configuration of ./check: theorem module, correspondence streams, oracles."""

# the translator's own correspondence: the Go functions go2lean translates vs the regenerated definitions (Gen/Src.lean)
_SRC_STREAM = {"name": "src", "quick": 4000, "thorough": 150000, "thorough_seeds": 2}
_SRC_RULE = (" `src`: the functions harness/cmd/go2lean translates (kademlia distance functions, the ten mux/demux functions, fragswarm "
             "newMessage/parseMessage and aggregator, dhtIterate against scripted networks (pool of ids sharing prefixes with the key, answers that point nearer, farther, back and at unknown ids, duplicates of an id with different info in small instances, candidate limits 1..1000, 0 and -1), mbapp header accessors, bitmap and collector histories, p2pke classifiers, header and session gates, p2p.VecSize/VecBytes, runs of the "
             "wireguard replay filter) on related/boundary inputs; the Lean driver evaluates the REGENERATED definitions on the same "
             "inputs, panics included: the translator and Src/Rt.lean are compared with the Go compiler on every run.")
_CACHE_STREAM = {"name": "cache", "quick": 30000, "thorough": 400000, "thorough_seeds": 4, "stateful": True, "seq_start": "new"}

_FRAG_STREAM = {"name": "frag", "quick": 25000, "thorough": 400000, "thorough_seeds": 3, "stateful": True, "seq_start": ("frag-new", "mb-new")}

_KE_STREAM = {"name": "ke", "quick": 30000, "thorough": 400000, "thorough_seeds": 3, "stateful": True, "seq_start": "reset"}
_NODE_STREAM = {"name": "node", "quick": 20000, "thorough": 400000, "thorough_seeds": 2, "stateful": True, "seq_start": "n-new"}
_NODE_RULE = ("`node`: one kademlia.DHTNode under the fake clock (bin/corr26): ids placed around the local id so that buckets fill and "
              "evict (peer cache 0..300, data cache 0..20), AddPeer/RemovePeer/GetPeer, HandlePut (TTL 0..2^40 ms), local Put, "
              "HandleGet, HandleFindNode with limits -1..2^31, keys of 0..40 bytes; compared: every answer, the closer lists "
              "(order inside runs of equidistant peers is the map's), the data count.")
_KET_STREAM = {"name": "ket", "quick": 30000, "thorough": 600000, "thorough_seeds": 3, "stateful": True, "seq_start": "t-reset"}
_KET_RULE = ("`ket`: two real channels with their REAL timers under the fake clock of testing/synctest (bin/corr26, go1.26; crypto/rand "
             "seeded so that hash tie-breaks replay): ops send (done context), pend/unpend (a caller blocked in getOrInit), deliver any "
             "message in flight (lost, duplicated, reordered), reliable bursts, advance the clock by 0..6000 ms (around every configured "
             "interval), restart a side with a fresh channel; intervals keep-alive 300..10^6, backoff 50..250, rekey 700..10^5, reject "
             "1500..10^5 ms; observations: every emission with its time, the three slots, both timers pending, waiting callers. Where the "
             "two timers of a channel are due at the same instant the runtime orders them arbitrarily: the model follows (admissibility).")
_KESW_RULE = ("`kesw` oracle: two whole p2pkeswarm nodes over an in-memory transport with the library's default intervals, under the fake "
              "clock: loss 30-100%, short-lived Tells, restarts at the same transport address, clock steps up to 181 s; then a reliable "
              "network: a Tell completes within the bound, both directions get through, 70 rounds of traffic across rekey and "
              "reject-after; then Close (optionally with a handshake that cannot complete) and ten minutes of fake time during which the "
              "closed node must not attempt a single send.")
_KE_RULE = ("lock-step scenarios over real p2pke Sessions and Channels (timers detached, driven by the harness): 2-7 sessions "
            "(an honest pair, an unrelated pair, adversary sessions holding their own key) or 2-3 channels with acceptance "
            "predicates all/none/only:k; ops: deliver any message ever emitted to any party, retransmit, send, rekey, handshake "
            "timer, and adversary transforms (junk with chosen header counter, truncation, hello with a foreign ephemeral, "
            "spliced ephemeral+claim); messages are named by emission index on both sides; a case is one op line")
_KE_ASSUME = ["cryptography is symbolic/ideal in the model (Noise NN, ChaCha20-Poly1305, Ed25519, BLAKE2b): a term opens only under the "
              "matching ephemerals/transcript/counter, a signature verifies only for signer, purpose and data; the adversary is "
              "restricted to the constructions of `Buildable`",
              "channel operations are lock-step with detached timers; wall-clock behaviour (keep-alive, restart) is checked by the real-time oracle and is exploration"]

_HUB_STREAM = {"name": "hub", "quick": 900, "thorough": 20000, "thorough_seeds": 3, "stateful": True, "seq_start": ("hub-new", "q-new")}
_HUB_RULE = ("scenarios on real TellHub / AskHub / Queue objects: up to 6 receivers and 6 deliverers as goroutines whose callbacks are "
             "held open by the harness, cancellations, close (also repeated) and callback releases in random order; after each op "
             "the harness waits for quiescence and reports every participant's state (blocked / in callback with message d / "
             "returned ok|ctx|closed|nil); the model takes forced moves itself and follows the implementation only where the LTS "
             "has a genuine choice, checking the move is enabled; queue scenarios: deliver at MTU boundaries, receive, cancel, "
             "purge, close. The oracle additionally races 1-5 producers and 1-5 receivers without any imposed order.")
_HUB_ASSUME = ["Go runtime semantics are modelled, not verified: a select picks one ready case atomically, an unbuffered channel "
               "operation is a rendezvous, close wakes every parked select that offers the channel",
               "wall-clock promptness and goroutine release are measured by the oracle and reported as exploration"]

PROPS = {
    "C01": {"streams": [{"name": "stack", "quick": 700, "thorough": 20000, "thorough_seeds": 3, "stateful": True, "seq_start": "stack-new"},
                        _FRAG_STREAM, {"name": "mux", "quick": 3000, "thorough": 100000, "thorough_seeds": 2}, _SRC_STREAM],
            "oracles": ["swarm", "frag", "mux", "secure"], "oracle_n": {"quick": 32, "thorough": 640},
            "oracle_n_by": {"mux": {"quick": 4000, "thorough": 200000}, "frag": {"quick": 3000, "thorough": 100000}, "secure": {"quick": 12, "thorough": 300}},
            "rule": "secure oracle (shared with C04; its misdelivery verdicts speak for C01 too: a payload told to identity C at B's address is never handed to B, on P2PKE, QUIC and SSH, "
                    "with and without an earlier channel to B, on the first attempt and on repeats); the multiplexer functions are handed the caller's vector as 1-3 segments with spare capacity and must leave it as it was; stack stream: random nestings of 0-3 multiplexer channels (all five kinds) around at most one fragmenting swarm over an "
                    "in-memory base of MTU 20-1200 whose datagrams the harness captures and releases; payloads at MTU-1/MTU/MTU+1, base and "
                    "2*base; compared: MTU(), the exact set of base datagrams of each Tell, and what the receiving stack delivers; "
                    "swarm oracle: 14 stack templates (in-memory, fragmenting, string/uint16 multiplexed, multi-transport, P2PKE, "
                    "message-box over P2PKE, whitelisted, real UDP, P2PKE+fragmenting over UDP, QUIC over UDP, SSH) nested by runtime type "
                    "erasure; 2-3 nodes, 3 concurrent receivers each, 4-8 concurrent senders with boundary lengths 0,1,2,MTU-1,MTU and unique "
                    "contents, send buffers overwritten as soon as Tell returns; every delivery is checked against the ledger of told "
                    "(src, dst, payload) triples; the layer streams (frag, mux) give the lock-step comparison for the framing layers",
            "assumptions": ["QUIC, SSH and UDP internals are outside the model: they are assumed to be datagram/stream/auth services and only "
                            "checked for admissibility against the ledger",
                            "the stack theorem composes per-layer soundness (C10 reassembly, C15 framing, C02 channel authenticity); it does not "
                            "re-prove them"]},
    "C13": {"streams": [_HUB_STREAM], "oracles": ["hub", "swarm"], "rule": _HUB_RULE, "assumptions": _HUB_ASSUME, "oracle_n": {"quick": 100, "thorough": 2000},
            "oracle_n_by": {"swarm": {"quick": 32, "thorough": 640}}},
    "C12": {"streams": [_HUB_STREAM], "oracles": ["hub", "swarm", "kesw"], "rule": _HUB_RULE + " " + _KESW_RULE, "assumptions": _HUB_ASSUME, "oracle_n": {"quick": 100, "thorough": 2000},
            "oracle_n_by": {"kesw": {"quick": 8, "thorough": 500}, "swarm": {"quick": 32, "thorough": 640}}},
    "C11": {"streams": [_HUB_STREAM, _FRAG_STREAM, {"name": "ask", "quick": 15000, "thorough": 400000, "thorough_seeds": 2, "stateful": True, "seq_start": "a-new"}], "oracles": ["hub", "swarm", "mbask", "asksteps"], "assumptions": _HUB_ASSUME, "oracle_n": {"quick": 100, "thorough": 2000},
            "oracle_n_by": {"mbask": {"quick": 25, "thorough": 1500}, "swarm": {"quick": 32, "thorough": 640}},
            "rule": _HUB_RULE + " `ask` stream: the real mbapp ask path under the fake clock (bin/corr26) against Model/Asker.lean: asks with response "
                    "buffers of 0..64 bytes and time-outs of 5 ms..40 s to two real responder swarms whose handlers answer, answer long or fail; "
                    "the harness holds every datagram, serves requests (also expired ones, also twice), and delivers replies unchanged or "
                    "with the counter, the origin time or the source altered; restarts of the asker on the same address (sometimes in the "
                    "same millisecond), cancellations, clock steps; compared: counter and origin time of every request, every reply's "
                    "header and body, and the state of every Ask call after every operation. `mbask` oracle: an mbapp asker, restarted now and then on the same transport address (its counter starts again), "
                    "with several asks outstanding to two responders whose handlers answer, wait or fail; the harness is the network: "
                    "requests and replies are handed over late, out of order, twice, after the ask was cancelled or after a restart; "
                    "every Ask that succeeds must return what the handler produced for that very request, within its deadline."},
    "C14": {"streams": [_HUB_STREAM, {"name": "frag", "quick": 15000, "thorough": 300000, "thorough_seeds": 2, "stateful": True, "seq_start": ("frag-new", "mb-new")}],
            "race_oracles": {"quick": [("swarm", 16), ("hub", 40), ("ke", 12)], "thorough": [("swarm", 96), ("hub", 400), ("ke", 60), ("mux", 300), ("secure", 24)]},
            "oracles": ["hub", "frag", "mux", "swarm", "asksteps", "ke"], "oracle_n_by": {"ke": {"quick": 120, "thorough": 2000}, "frag": {"quick": 3000, "thorough": 100000}, "mux": {"quick": 2000, "thorough": 100000}, "swarm": {"quick": 16, "thorough": 320}},
            "rule": _HUB_RULE + " Swarm oracle: a reassembling layer (fragswarm, mbapp) over a network that duplicates every datagram a little later, three receivers whose callbacks hold their message: the memory of a message is never handed to a second callback while its owner runs and its contents stay what they were on entry. Buffer ownership above the hubs: in the frag, ke and ket streams every packet is handed to the layer in a "
                    "buffer that the harness overwrites as soon as the call returns (hx.Lend/Reclaim), as a transport that reuses its receive "
                    "buffers does; a layer that keeps a reference instead of a copy delivers corrupted bytes, which the model does not.", "level": "proof",
            "assumptions": _HUB_ASSUME + ["data-race freedom under the Go memory model is NOT claimed (no model represents happens-before); "
                                          "only buffer ownership in the queue and hubs is proved"], "oracle_n": {"quick": 100, "thorough": 2000}},
    "C04": {"streams": [_KE_STREAM], "oracles": ["secure", "ke"], "oracle_n": {"quick": 12, "thorough": 300},
            "rule": _KE_RULE + "; secure oracle: real p2pkeswarm (in-memory transport), quicswarm (UDP loopback) and sshswarm (TCP loopback) "
                    "nodes: honest pairs (Src identity and LookupPublicKey inside the handler), a Tell to identity C at node B's transport "
                    "address, whitelists that reject the sender, and for SSH the authentication history [query A, query V, sign A] emitted "
                    "by a patched copy of the x/crypto/ssh client",
            "assumptions": _KE_ASSUME + ["proof of possession inside TLS 1.3 (quic-go) and inside the SSH user-auth signature check (x/crypto/ssh) is "
                                         "assumed: the decision models take 'this key was proven' as an input",
                                         "fingerprints are treated as injective (identity = key)"]},
    "C05": {"streams": [_KE_STREAM, _KET_STREAM], "oracles": ["ke", "ket"], "rule": _KE_RULE + " " + _KET_RULE + " ket oracle, continuity case: a channel established with key 1 "
            "goes quiet until every session it holds has expired (the application keeps trying to send), then a party with another key, which the predicate accepts on "
            "first contact, handshakes from the other end: the channel must not report that key, become ready with it or hand out its data.", "assumptions": _KE_ASSUME,
            "oracle_n": {"quick": 3000, "thorough": 60000}, "oracle_n_by": {"ket": {"quick": 250, "thorough": 12000}}},
    "C07": {"streams": [_KE_STREAM, _KET_STREAM], "oracles": ["ke", "ket", "kesw"], "rule": _KE_RULE + " " + _KET_RULE + " " + _KESW_RULE, "oracle_n": {"quick": 3000, "thorough": 60000},
            "oracle_n_by": {"ket": {"quick": 250, "thorough": 12000}, "kesw": {"quick": 8, "thorough": 500}},
            "assumptions": _KE_ASSUME + ["convergence is proved for fresh channels and for a peer restart after establishment / after the "
                                         "first InitHello (three reliable round trips); arbitrary adversarial prefixes are covered by the "
                                         "invariants (slots, keys, keep-alive) and by the correspondence, not by a general convergence theorem",
                                         "timers firing when due and wall-clock bounds are outside the model; the real-time keep-alive case of the oracle is exploration"]},
    "C08": {"streams": [_SRC_STREAM, {"name": "mux", "quick": 3000, "thorough": 200000, "thorough_seeds": 2},
                        {"name": "frag", "quick": 12000, "thorough": 300000, "thorough_seeds": 2, "stateful": True, "seq_start": ("frag-new", "mb-new")},
                        {"name": "key", "quick": 8000, "thorough": 200000, "thorough_seeds": 2},
                        {"name": "addr", "quick": 8000, "thorough": 200000, "thorough_seeds": 2},
                        {"name": "cache", "quick": 10000, "thorough": 200000, "thorough_seeds": 2, "stateful": True, "seq_start": "new"},
                        {"name": "dht", "quick": 1500, "thorough": 50000, "thorough_seeds": 2},
                        {"name": "ke", "quick": 12000, "thorough": 200000, "thorough_seeds": 2, "stateful": True, "seq_start": "reset"},
                        {"name": "node", "quick": 8000, "thorough": 150000, "thorough_seeds": 2, "stateful": True, "seq_start": "n-new"}],
            "oracles": ["mux", "frag", "key", "addr", "dht", "swarm"],
            "oracle_n": {"quick": 1500, "thorough": 50000},
            "oracle_n_by": {"swarm": {"quick": 16, "thorough": 320}},
            "rule": "every correspondence stream doubles as a crash detector: a panic in the implementation is the observation `fault`, which the "
                    "models never produce; malformed inputs are structured mutations of valid ones (every header field at 0/1/max/2^63, "
                    "lengths around every boundary, later packets contradicting earlier ones) plus raw random bytes; slices are passed with "
                    "cap == len so that an out-of-range slice expression faults exactly when the length check says so",
            "assumptions": ["parsers outside the repository (encoding/asn1, protobuf, flynn/noise, quic-go, x/crypto/ssh) are fuzzed through the "
                            "streams but not modelled"]},
    "C02": {"streams": [_KE_STREAM, {"name": "replay", "quick": 60000, "thorough": 2000000, "thorough_seeds": 2, "stateful": True, "seq_start": "rp-new"}, _SRC_STREAM], "oracles": ["ke"], "rule": _KE_RULE + _SRC_RULE, "assumptions": _KE_ASSUME,
            "oracle_n": {"quick": 3000, "thorough": 60000}},
    "C03": {"streams": [_KE_STREAM, _SRC_STREAM], "oracles": ["ke"], "rule": _KE_RULE + _SRC_RULE, "assumptions": _KE_ASSUME,
            "oracle_n": {"quick": 3000, "thorough": 60000}},
    "C06": {"streams": [_KE_STREAM], "oracles": ["ke"], "rule": _KE_RULE, "assumptions": _KE_ASSUME,
            "oracle_n": {"quick": 3000, "thorough": 60000}},
    "C10": {
        "streams": [_FRAG_STREAM, {"name": "fragt", "quick": 12000, "thorough": 300000, "thorough_seeds": 2, "stateful": True, "seq_start": ("frag-new", "mb-new")}, _SRC_STREAM],
        "oracles": ["frag"],
        "rule": _SRC_RULE + " `fragt`: the same scenarios under the fake clock (bin/corr26) with clock steps of 1 ms..2 min between fragments, so that "
                "the minute-ticker clean-up loops of both layers run at known times (fragswarm drops aggregators older than 10 s; "
                "mbapp, whose ttl is never set, every collector not created at that very instant); the table sizes are compared. "
                "`frag`: scenarios over real fragswarm and mbapp receivers fed synchronously by the harness: 1-5 messages from 3 sources, "
                "sizes at every part-size and MTU boundary, inner MTUs from below the header size to 1200, fragments reordered, "
                "duplicated, dropped, re-attributed to another source, mutated header fields and packets forged from scratch; "
                "a case is one op line (tell / recv / state size), distinct by text",
        "assumptions": ["the receive path is entered through the verif hook (handleTell / handleMessage) so that each datagram's effect "
                        "is observed synchronously; the concurrent receive loops are exercised by the swarm-level streams",
                        "mbapp origin time and timeout are wall-clock values taken from the implementation's packets"],
    },
    "C09": {
        "streams": [_FRAG_STREAM, {"name": "mux", "quick": 6000, "thorough": 300000, "thorough_seeds": 3}, _SRC_STREAM],
        "oracles": ["frag", "mux", "swarm"], "oracle_n_by": {"swarm": {"quick": 32, "thorough": 640}},
        "rule": "swarm oracle: on 14 real stacks (incl. QUIC and SSH over loopback) Tells at MTU-1/MTU/MTU+1 and Asks with requests of "
                "MTU-5..MTU (answered) and MTU+1 (refused with the MTU error); payload lengths 0, 1, part size +-1, 2 and 3 parts, MTU-1, MTU, MTU+1 against fragswarm/mbapp over inner MTUs "
                "14..1200 and configured MTUs 10..100000; muxed swarms of all five kinds over inner MTUs 16..65536 with payloads "
                "of exactly MTU() and MTU()+1",
        "assumptions": ["per-layer theorems; transports over real sockets (UDP/QUIC/SSH) are assumed to honour their own MTU()"],
    },
    "C18": {
        "streams": [_CACHE_STREAM],
        "oracles": ["cache"],
        "rule": "random operation sequences (20-220 ops after each `new`) over a small key universe built around the locus "
                "(keys sharing exactly i bits with the locus, equal to it, longer and shorter than it), loci of 0/1/2/3/32 bytes, "
                "capacity at the constructor's floor 8*len*min and a little above, zero and equal timestamps; a case is one "
                "operation line, distinct by its text; after every line Count/Get/evicted/expired/full contents are compared",
        "assumptions": ["Go map iteration order only influences which of several equally new entries bucket.evict removes; the "
                        "model takes the implementation's reported victim and checks that it is admissible",
                        "time.Time is modelled as Nat seconds with 0 = the zero time"],
    },
    "C19": {
        "streams": [_CACHE_STREAM, _SRC_STREAM, _NODE_STREAM],
        "oracles": ["cacheorder", "node"],
        "rule": _SRC_RULE + " same operation sequences as C18; foreach/closest/closer lines use query keys that are pool keys, the locus, "
                "prefixes, extensions, one-bit neighbours and random keys; sequences are compared up to permutation inside "
                "runs of entries equidistant from the query",
        "assumptions": ["slices.SortFunc yields some permutation sorted by the comparator (ties in any order)"],
    },
    "C20": {
        "streams": [{"name": "dht", "quick": 4000, "thorough": 150000, "thorough_seeds": 3}, _NODE_STREAM, _SRC_STREAM],
        "oracles": ["dht", "node"],
        "rule": _NODE_RULE + _SRC_RULE + " `dht`: one case = one iterative operation (findnode/join/get/put) against a simulated network of 1-40 nodes with honest, "
                "failing and adversarial tables (cycles, self references, the zero id, fabricated ids, 60-entry lists, ids sharing "
                "long prefixes with the key), 0-7 initial peers with duplicates; non-trivial = more than one node contacted; "
                "compared: the exact sequence of RPCs and the whole result struct",
        "assumptions": ["keys used in the correspondence are at least 32 bytes so that distinct ids are never equidistant (the unstable "
                        "sort's tie order is then unobservable); theorems do not need this",
                        "the responder in the correspondence is a static table; theorems quantify over stateful responders"],
    },
    "C17": {
        "streams": [{"name": "key", "quick": 20000, "thorough": 400000, "thorough_seeds": 3}, _SRC_STREAM],
        "oracles": ["key", "addr"],
        "rule": "one case per distinct operation text: peer ids (zero, all-ones, single-bit, random), texts that are valid, "
                "mutated (foreign characters, CR/LF, non-canonical trailing bits, wrong length), one-bit neighbours for the order "
                "law, OIDs with boundary arcs (0,39,40,127,128,2^14,2^21,2^31-1, >=2^31, invalid shapes), key bodies of length "
                "0..300 and 2^16 boundaries, mutated DER; parse of arbitrary DER is compared one-sidedly",
        "assumptions": ["encoding/asn1 is modelled only for the DER shape MarshalPublicKey emits; arbitrary DER is compared one-sidedly "
                        "(what the strict model accepts Go must accept identically)",
                        "hash functions are uninterpreted; the oracle checks each fingerprinter equals the hash of the canonical encoding",
                        "the two packages' default fingerprinters use different hashes (SHAKE256 vs SHA3-256): observation, not an alarm (DESIGN section 7 note 23)"],
    },
    "C16": {
        "streams": [{"name": "addr", "quick": 15000, "thorough": 300000, "thorough_seeds": 3}],
        "oracles": ["addr", "swarm"], "oracle_n_by": {"swarm": {"quick": 16, "thorough": 320}},
        "rule": "swarm oracle: the local, source and destination addresses harvested from 16 real stacks are marshalled and parsed back by the swarm that produced them; one case per distinct operation text: addresses of every kind at nesting depth 0-4 (IPv4, IPv6, zoned and "
                "IPv4-mapped IPs, ports 0/1/65535/random, SHA256 fingerprints, 32-byte ids, scheme tables of 1-3 names), half of "
                "the parse cases use mutated text (inserted/deleted/replaced separators, odd port spellings, non-canonical IPs, "
                "truncation, junk); the IP and port sub-parsers are supplied per case from net/netip and fmt.Sscan",
        "assumptions": ["net/netip and fmt.Sscan are parameters of the model (Env); the laws EnvOK assumes of them are checked against the "
                        "standard library by the oracle on every run",
                        "regexp is modelled by explicit functions for the two expressions the code uses"],
    },
    "C15": {
        "streams": [{"name": "mux", "quick": 6000, "thorough": 300000, "thorough_seeds": 3}, _SRC_STREAM],
        "oracles": ["mux"],
        "rule": _SRC_RULE + " mux/demux lines: one case per distinct (kind, channel id, payload | frame); channel ids and frames are "
                "boundary-directed (empty, 2^7k, 2^8k, 2^63, 2^64-1, truncated / overflowing / contradicting length fields); "
                "dispatch/mtu lines come from real muxed swarms over an in-memory realm with 1-6 open channels",
        "assumptions": ["encoding/binary Uvarint/PutUvarint/BigEndian are modelled exactly and cross-checked by the mux stream",
                        "sync.Map dispatch is modelled as a list-membership test"],
    },
}
