#!/usr/bin/env python3
"""Regenerates MANIFEST.json from checklib/props.py + checklib/manifest_meta.py."""
import json, os, sys
sys.path.insert(0, os.path.dirname(os.path.abspath(__file__)))
from props import PROPS
from manifest_meta import META, NOT_APPLICABLE, HOOK_COMMITS

ROOT = os.path.dirname(os.path.dirname(os.path.abspath(__file__)))
checks = []
LEAN_PROPS = os.path.join(os.path.dirname(os.path.dirname(os.path.abspath(__file__))), "lean", "P2PVerif", "Props")
READY = [pid for pid in sorted(PROPS) if pid in META and os.path.exists(os.path.join(LEAN_PROPS, pid + ".lean"))]
for pid in READY:
    m = META[pid]
    checks.append({
        "property_id": pid,
        "quick_cmd": "./check %s --tier quick" % pid,
        "thorough_cmd": "./check %s --tier thorough" % pid,
        "evidence_file": "/verif/evidence/%s.json" % pid,
        "replay_cmd_template": "./check %s --replay {path}" % pid,
        "engine": "lean4-proof+correspondence",
        "level_claimed": {"category": PROPS[pid].get("level", "proof"), "text": m["text"], "design_ref": m["design_ref"]},
        "level_note": m["note"],
        "technique": m["technique"],
    })
man = {
    "version": 1,
    "setup_cmd": "./setup.sh",
    "hooks": {
        "guard": "verif",
        "enable": "go build -tags verif (add-only export_verif.go files in /repo re-export unexported functions and state)",
        "baseline_off_cmd": "cd /repo && go test -mod=mod -json -vet=off -count=1 -timeout 25m ./...",
        "source_commits": HOOK_COMMITS,
        "add_only": True,
    },
    "engines": [{
        "name": "lean4-proof+correspondence", "path": "/verif/check",
        "serves_properties": READY,
        "kind_free_text": "Lean 4 theorems about hand-written executable models (lean/P2PVerif), tied to /repo on every run by "
                          "regenerated facts (harness/cmd/extract -> Gen/Facts.lean), by definitions of the pure cores regenerated from the Go source "
                          "by a Go->Lean translator (harness/cmd/go2lean -> Gen/Src.lean, proved equal to the models) and by differential correspondence "
                          "(harness/cmd/corr drives the real code, lean driver replays the same ops through the model)",
    }],
    "checks": checks,
    "notes": "See DESIGN.md. known_findings.json lists recorded findings and the fix: commits made in /repo.",
    "not_applicable": [{"property_id": k, "reason": v} for k, v in sorted(NOT_APPLICABLE.items()) if k not in READY],
}
with open(os.path.join(ROOT, "MANIFEST.json"), "w") as f:
    json.dump(man, f, indent=1)
print("wrote MANIFEST.json with", len(checks), "checks,", len(man["not_applicable"]), "not_applicable")
