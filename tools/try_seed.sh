#!/bin/bash
# usage: tools/try_seed.sh <worktree> <seed-id> <prop> [more props...]
# Confirms a seeded change (compiles, demo fails with / passes without, suite passes), stores it under
# seeded/<seed-id>/, applies it to /repo, runs the named checks, and restores /repo.
set -u
WT=$1; ID=$2; shift 2
export GOFLAGS=-mod=mod GOPROXY=off GOSUMDB=off GOTOOLCHAIN=local
OUT=/verif/seeded/$ID; mkdir -p $OUT
cd $WT || exit 2
git add -N . >/dev/null 2>&1
git diff -- . ':!*_test.go' ':!SEED_NOTES.md' > $OUT/patch.diff
DEMO=$(git status --porcelain | awk '{print $2}' | grep 'zz_seed_demo_test.go' | head -1)
[ -n "$DEMO" ] && cp $DEMO $OUT/ ; [ -f SEED_NOTES.md ] && cp SEED_NOTES.md $OUT/
PKG=./$(dirname "${DEMO:-.}")
echo "== build"; go build ./... 2>&1 | tail -3
echo "== demo WITH change (should FAIL)"; go test -vet=off -count=1 -run TestSeedDemo $PKG 2>&1 | tail -3; WITH=${PIPESTATUS[0]}
git apply -R $OUT/patch.diff
echo "== demo WITHOUT change (should PASS)"; go test -vet=off -count=1 -run TestSeedDemo $PKG 2>&1 | tail -3; WITHOUT=${PIPESTATUS[0]}
git apply $OUT/patch.diff
echo "== suite with change"; go test -p 2 -vet=off -count=1 ./... 2>&1 | grep -v "^ok\|no test files" | tail -8
echo "with=$WITH without=$WITHOUT"
cd /repo && git apply $OUT/patch.diff || { echo "patch does not apply to /repo"; exit 3; }
cd /verif
for p in "$@"; do echo "== check $p"; ./check $p 2>&1 | cut -c1-200 | tail -4; done
git -C /repo checkout -- . && git -C /repo status --short | head -3
