#!/bin/bash
# usage: tools/try_seed_iso.sh <worktree> <seed-id> <prop> [more props...]
# Like try_seed.sh, but the checks run from a copy of /verif (/tmp/vseed) against a scratch worktree of /repo
# (/tmp/rseed, VERIF_REPO), so that /repo, /verif/evidence and /verif/lean are not disturbed while work goes on there.
set -u
WT=$1; ID=$2; shift 2
export GOFLAGS=-mod=mod GOPROXY=off GOSUMDB=off GOTOOLCHAIN=local
OUT=/verif/seeded/$ID; mkdir -p $OUT
cd $WT || exit 2
git add -N . >/dev/null 2>&1
git diff -- . ':!*_test.go' ':!SEED_NOTES.md' > $OUT/patch.diff
DEMO=$(git status --porcelain | awk '{print $2}' | grep 'zz_seed_demo_test.go' | head -1)
[ -n "$DEMO" ] && cp $DEMO $OUT/ ; [ -f SEED_NOTES.md ] && cp SEED_NOTES.md $OUT/
PKG=./$(dirname "${DEMO:-.}")
echo "== build"; go build ./... 2>&1 | tail -3
echo "== demo WITH change (should FAIL)"; go test -vet=off -count=1 -run TestSeedDemo $PKG 2>&1 | tail -3; WITH=${PIPESTATUS[0]}
git apply -R $OUT/patch.diff
echo "== demo WITHOUT change (should PASS)"; go test -vet=off -count=1 -run TestSeedDemo $PKG 2>&1 | tail -3; WITHOUT=${PIPESTATUS[0]}
git apply $OUT/patch.diff
echo "== suite with change"; go test -p 2 -vet=off -count=1 ./... 2>&1 | grep -v "^ok\|no test files" | tail -8
echo "with=$WITH without=$WITHOUT"
[ -d /tmp/rseed ] || git -C /repo worktree add --detach /tmp/rseed HEAD >/dev/null 2>&1
git -C /tmp/rseed checkout -q --detach $(git -C /repo rev-parse HEAD) && git -C /tmp/rseed checkout -- . && git -C /tmp/rseed clean -fdq
mkdir -p /tmp/vseed
rsync -a --delete --exclude .work --exclude replays --exclude .git /verif/ /tmp/vseed/
mkdir -p /tmp/vseed/.work /tmp/vseed/replays
cd /tmp/rseed && git apply $OUT/patch.diff || { echo "patch does not apply"; exit 3; }
cd /tmp/vseed
for p in "$@"; do echo "== check $p"; VERIF_REPO=/tmp/rseed ./check $p 2>&1 | cut -c1-200 | tail -4; for f in replays/$p-*.json; do [ -f "$f" ] && python3 -c "
import json,sys
d=json.load(open(sys.argv[1])); print('   ', d['kind'], d['stream'], '|', d['signature'][:150].replace('\n',' '), '|', d.get('verdict','')[:220].replace('\n',' '))" $f; done; rm -f replays/*.json; done
git -C /tmp/rseed checkout -- . && git -C /tmp/rseed clean -fdq
