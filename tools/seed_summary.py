#!/usr/bin/env python3
"""Regenerates seeded/SUMMARY.md from the meta.json files."""
import json, os
root = os.path.join(os.path.dirname(os.path.dirname(os.path.abspath(__file__))), "seeded")
rows = []
for d in sorted(os.listdir(root)):
    p = os.path.join(root, d, "meta.json")
    if os.path.exists(p):
        m = json.load(open(p))
        rows.append((d, m))
missed = sum(1 for _, m in rows if m.get("missed_by"))
out = ["# Seeded changes", "",
       "Changes written by sub-agents that saw only the property text and a scratch worktree. Each directory holds patch.diff, "
       "the demonstration test, the author's notes and meta.json. %d seeds; all are caught, with a concrete failing input except "
       "where meta.json explains why none exists inside the property's quantifier; %d needed a stronger check first (last column)." % (len(rows), missed),
       "", "| seed | property | needs | caught by | missed at first |", "|---|---|---|---|---|"]
for d, m in rows:
    out.append("| %s | %s | %s | %s | %s |" % (d, m["property"], m["needs"].replace("|", "/"),
               " ; ".join(m.get("caught_by", [])).replace("|", "/"), " ; ".join(m.get("missed_by", [])).replace("|", "/") or "—"))
open(os.path.join(root, "SUMMARY.md"), "w").write("\n".join(out) + "\n")
print(len(rows), "seeds,", missed, "missed at first")
