#!/bin/sh
# Regenerates harness/evilssh: a copy of the x/crypto/ssh v0.9.0 client from the module cache with ~10 lines
# changed (client_auth.patch) so that it can emit the authentication history [query own key, query other keys,
# sign with own key], which the stock client never produces. Used only to replay the C04 identity-confusion
# history against the real sshswarm server. Not committed: rebuilt by setup.sh / the check when missing.
set -e
cd "$(dirname "$0")/.."
MOD="$(go env GOMODCACHE)/golang.org/x/crypto@v0.9.0"
[ -d "$MOD/ssh" ] || { echo "x/crypto v0.9.0 not in module cache" >&2; exit 1; }
rm -rf evilssh
mkdir -p evilssh/internal/bcrypt_pbkdf evilssh/internal/poly1305
for f in "$MOD"/ssh/*.go; do case "$f" in *_test.go) ;; *) cp "$f" evilssh/ ;; esac; done
for f in "$MOD"/ssh/internal/bcrypt_pbkdf/*.go; do case "$f" in *_test.go) ;; *) cp "$f" evilssh/internal/bcrypt_pbkdf/ ;; esac; done
for f in "$MOD"/internal/poly1305/*; do case "$f" in *_test.go) ;; *) cp "$f" evilssh/internal/poly1305/ ;; esac; done
chmod -R u+w evilssh
sed -i 's#"golang.org/x/crypto/ssh/internal/bcrypt_pbkdf"#"verifharness/evilssh/internal/bcrypt_pbkdf"#; s#"golang.org/x/crypto/internal/poly1305"#"verifharness/evilssh/internal/poly1305"#' evilssh/*.go
(cd evilssh && patch -s -p1 client_auth.go < ../evilssh_src/client_auth.patch)
echo evilssh-generated
