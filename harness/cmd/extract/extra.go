package main

import (
	"go.brendoncarroll.net/p2p/p/p2pke"
)

// extra emits the facts that need hooks or source-text analysis; it grows with the models.
func extra(w func(string, ...any), repo string) {
	n0, n1, n2, n3, npost, pcb, pts := p2pke.VerifConstants()
	w("def p2pkeNonceInitHello : Nat := %d", n0)
	w("def p2pkeNonceRespHello : Nat := %d", n1)
	w("def p2pkeNonceInitDone : Nat := %d", n2)
	w("def p2pkeNonceRespDone : Nat := %d", n3)
	w("def p2pkeNoncePostHandshake : Nat := %d", npost)
	w("def p2pkePurposeChannelBinding : String := %q", pcb)
	w("def p2pkePurposeTimestamp : String := %q", pts)
	w("def p2pkeHandshakeAttempts : Nat := %d", p2pke.VerifHandshakeAttempts())
	selectSkeletons(w, repo)
}
