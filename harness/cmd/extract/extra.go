package main

// extra emits the facts that need hooks or source-text analysis; it grows with the models.
func extra(w func(string, ...any), repo string) {
}
