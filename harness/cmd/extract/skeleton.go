package main

// selectSkeletons is filled in with the hub/queue models (C12/C13).
func selectSkeletons(w func(string, ...any), repo string) {}
