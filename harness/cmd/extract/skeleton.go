package main

import (
	"bytes"
	"fmt"
	"go/ast"
	"go/parser"
	"go/printer"
	"go/token"
	"path/filepath"
	"sort"
	"strings"
)

// selectSkeletons reads the concurrency files with go/ast and emits, for every method, its select statements
// (pre-order) with the channel operation each case offers, and whether a CloseWithError method replaces a
// nil error. The Lean models of the hubs and the queue take which cases exist from these facts.
func selectSkeletons(w func(string, ...any), repo string) {
	files := []string{"s/swarmutil/hubs.go", "s/swarmutil/queue.go"}
	type sel struct {
		fn    string
		idx   int
		cases []string
	}
	var sels []sel
	var bare [][2]string
	nilGuard := map[string]bool{}
	fset := token.NewFileSet()
	src := func(n ast.Node) string {
		var b bytes.Buffer
		printer.Fprint(&b, fset, n)
		return strings.Join(strings.Fields(b.String()), "")
	}
	for _, f := range files {
		file, err := parser.ParseFile(fset, filepath.Join(repo, f), nil, 0)
		if err != nil {
			panic(err)
		}
		for _, d := range file.Decls {
			fd, ok := d.(*ast.FuncDecl)
			if !ok || fd.Recv == nil || fd.Body == nil {
				continue
			}
			recv := src(fd.Recv.List[0].Type)
			recv = strings.TrimPrefix(recv, "*")
			if i := strings.IndexByte(recv, '['); i >= 0 {
				recv = recv[:i]
			}
			name := recv + "." + fd.Name.Name
			idx := 0
			// channel operations that are not the communication of a select case: each one blocks with no way out
			comm := map[ast.Node]bool{}
			ast.Inspect(fd.Body, func(n ast.Node) bool {
				if ss, ok := n.(*ast.SelectStmt); ok {
					for _, c := range ss.Body.List {
						if cc := c.(*ast.CommClause); cc.Comm != nil {
							comm[cc.Comm] = true
						}
					}
				}
				return true
			})
			var ops []string
			ast.Inspect(fd.Body, func(n ast.Node) bool {
				if n != nil && comm[n] {
					return false
				}
				switch t := n.(type) {
				case *ast.SendStmt:
					ops = append(ops, "send:"+src(t.Chan))
				case *ast.UnaryExpr:
					if t.Op == token.ARROW {
						ops = append(ops, "recv:"+src(t.X))
					}
				}
				return true
			})
			if len(ops) > 0 {
				bare = append(bare, [2]string{name, strings.Join(ops, ",")})
			}
			ast.Inspect(fd.Body, func(n ast.Node) bool {
				switch n := n.(type) {
				case *ast.SelectStmt:
					s := sel{fn: name, idx: idx}
					idx++
					for _, c := range n.Body.List {
						cc := c.(*ast.CommClause)
						switch comm := cc.Comm.(type) {
						case nil:
							s.cases = append(s.cases, "default")
						case *ast.SendStmt:
							s.cases = append(s.cases, "send:"+src(comm.Chan))
						case *ast.ExprStmt:
							s.cases = append(s.cases, "recv:"+src(comm.X.(*ast.UnaryExpr).X))
						case *ast.AssignStmt:
							s.cases = append(s.cases, "recv:"+src(comm.Rhs[0].(*ast.UnaryExpr).X))
						default:
							panic(fmt.Sprintf("unknown select case shape in %s", name))
						}
					}
					sels = append(sels, s)
				case *ast.IfStmt:
					// `if err == nil { err = ... }`
					if fd.Name.Name == "CloseWithError" {
						if be, ok := n.Cond.(*ast.BinaryExpr); ok && src(be) == "err==nil" && len(n.Body.List) == 1 {
							if as, ok := n.Body.List[0].(*ast.AssignStmt); ok && src(as.Lhs[0]) == "err" {
								nilGuard[name] = true
							}
						}
					}
				}
				return true
			})
			if fd.Name.Name == "CloseWithError" {
				if _, ok := nilGuard[name]; !ok {
					nilGuard[name] = false
				}
			}
		}
	}
	w("")
	w("structure SelectFact where")
	w("  fn : String")
	w("  idx : Nat")
	w("  cases : List String")
	w("deriving DecidableEq, Repr")
	w("")
	w("def selects : List SelectFact := [")
	for i, s := range sels {
		q := make([]string, len(s.cases))
		for j, c := range s.cases {
			q[j] = fmt.Sprintf("%q", c)
		}
		comma := ","
		if i == len(sels)-1 {
			comma = ""
		}
		w("  { fn := %q, idx := %d, cases := [%s] }%s", s.fn, s.idx, strings.Join(q, ", "), comma)
	}
	w("]")
	w("")
	w("/-- channel operations outside any select (method, operations in source order): each blocks unconditionally -/")
	w("def bareChanOps : List (String × String) := [")
	for i, b := range bare {
		comma := ","
		if i == len(bare)-1 {
			comma = ""
		}
		w("  (%q, %q)%s", b[0], b[1], comma)
	}
	w("]")
	w("")
	var names []string
	for k := range nilGuard {
		names = append(names, k)
	}
	sort.Strings(names)
	w("/-- does `CloseWithError(nil)` store a non-nil error? -/")
	w("def closeNilGuard : List (String × Bool) := [")
	for i, k := range names {
		comma := ","
		if i == len(names)-1 {
			comma = ""
		}
		w("  (%q, %v)%s", k, nilGuard[k], comma)
	}
	w("]")
}
