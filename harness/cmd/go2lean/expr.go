package main

import (
	"fmt"
	"go/ast"
	"go/constant"
	"go/token"
	"go/types"
	"strconv"
	"strings"
)

func (e *emitter) typeOf(x ast.Expr) types.Type {
	tv, ok := e.info.Types[x]
	if !ok {
		if id, isId := x.(*ast.Ident); isId {
			if o := e.info.Uses[id]; o != nil {
				return o.Type()
			}
			if o := e.info.Defs[id]; o != nil {
				return o.Type()
			}
		}
		e.g.fail(x, "no type for expression")
	}
	return tv.Type
}

func (e *emitter) lt(n ast.Node, t types.Type) string { return e.g.leanType(n, t) }

// constOf: a constant of Go type t as a Lean literal
func (e *emitter) constOf(n ast.Node, t types.Type, text string) string {
	return "(" + text + " : " + e.lt(n, t) + ")"
}

func (e *emitter) constant(x ast.Expr, tv types.TypeAndValue) string {
	t := tv.Type
	switch tv.Value.Kind() {
	case constant.Bool:
		if constant.BoolVal(tv.Value) {
			return "true"
		}
		return "false"
	case constant.String:
		s := constant.StringVal(tv.Value)
		var bs []string
		for _, b := range []byte(s) {
			bs = append(bs, strconv.Itoa(int(b)))
		}
		return "([" + strings.Join(bs, ", ") + "] : Go.Bytes)"
	case constant.Int:
		if b, ok := t.Underlying().(*types.Basic); ok && b.Info()&types.IsUntyped != 0 {
			t = types.Typ[types.Int]
		}
		v := tv.Value.ExactString()
		return e.constOf(x, t, v)
	}
	e.g.fail(x, "constant of kind %v", tv.Value.Kind())
	return ""
}

func isUnsigned(t types.Type) bool {
	b, ok := t.Underlying().(*types.Basic)
	return ok && b.Info()&types.IsUnsigned != 0
}

func isInt(t types.Type) bool {
	b, ok := t.Underlying().(*types.Basic)
	return ok && b.Info()&types.IsInteger != 0 && b.Info()&types.IsUnsigned == 0
}

func bitsOf(t types.Type) int {
	switch t.Underlying().(*types.Basic).Kind() {
	case types.Uint8:
		return 8
	case types.Uint16:
		return 16
	case types.Uint32:
		return 32
	}
	return 64
}

// shift count as a Lean Nat
func (e *emitter) shiftCount(y ast.Expr) string {
	tv := e.info.Types[y]
	if tv.Value != nil {
		return tv.Value.ExactString()
	}
	ys := e.expr(y)
	if isUnsigned(tv.Type) {
		return "(" + ys + ").toNat"
	}
	t := e.fresh("t")
	e.line("let %s ← Go.shiftCount %s", t, ys)
	return t
}

func (e *emitter) binop(n ast.Node, op token.Token, xs, ys string, xt, rt types.Type, yexpr ast.Expr) string {
	// comparisons
	switch op {
	case token.EQL, token.NEQ, token.LSS, token.LEQ, token.GTR, token.GEQ:
		sym := map[token.Token]string{token.EQL: "=", token.NEQ: "≠", token.LSS: "<", token.LEQ: "≤", token.GTR: ">", token.GEQ: "≥"}[op]
		if b, ok := xt.Underlying().(*types.Basic); ok {
			if b.Info()&types.IsBoolean != 0 {
				if op == token.EQL {
					return "(" + xs + " == " + ys + ")"
				}
				return "(" + xs + " != " + ys + ")"
			}
			if b.Info()&(types.IsInteger|types.IsString) != 0 {
				if b.Info()&types.IsString != 0 && op != token.EQL && op != token.NEQ {
					e.g.fail(n, "string ordering")
				}
				return "(decide (" + xs + " " + sym + " " + ys + "))"
			}
		}
		if at, ok := xt.Underlying().(*types.Array); ok && (op == token.EQL || op == token.NEQ) {
			if b, ok := at.Elem().Underlying().(*types.Basic); ok && b.Info()&types.IsInteger != 0 {
				return "(decide (" + xs + " " + sym + " " + ys + "))"
			}
		}
		e.g.fail(n, "comparison of %s", xt)
	case token.LAND:
		return "(" + xs + " && " + ys + ")"
	case token.LOR:
		return "(" + xs + " || " + ys + ")"
	}
	if isUnsigned(rt) {
		w := bitsOf(rt)
		switch op {
		case token.ADD:
			return "(" + xs + " + " + ys + ")"
		case token.SUB:
			return "(" + xs + " - " + ys + ")"
		case token.MUL:
			return "(" + xs + " * " + ys + ")"
		case token.AND:
			return "(" + xs + " &&& " + ys + ")"
		case token.OR:
			return "(" + xs + " ||| " + ys + ")"
		case token.XOR:
			return "(" + xs + " ^^^ " + ys + ")"
		case token.AND_NOT:
			return "(" + xs + " &&& ~~~" + ys + ")"
		case token.SHL:
			return fmt.Sprintf("(Go.shl%d %s %s)", w, xs, ys)
		case token.SHR:
			return fmt.Sprintf("(Go.shr%d %s %s)", w, xs, ys)
		case token.QUO, token.REM:
			if yexpr != nil {
				if tv := e.info.Types[yexpr]; tv.Value != nil && constant.Sign(tv.Value) != 0 {
					if op == token.QUO {
						return "(" + xs + " / " + ys + ")"
					}
					return "(" + xs + " % " + ys + ")"
				}
			}
			e.g.fail(n, "unsigned division by a non-constant")
		}
	}
	if isInt(rt) {
		switch op {
		case token.ADD:
			return "(" + xs + " + " + ys + ")"
		case token.SUB:
			return "(" + xs + " - " + ys + ")"
		case token.MUL:
			return "(" + xs + " * " + ys + ")"
		case token.SHL:
			return "(Go.shlInt " + xs + " " + ys + ")"
		case token.SHR:
			return "(Go.shrInt " + xs + " " + ys + ")"
		case token.QUO, token.REM:
			if yexpr != nil {
				if tv := e.info.Types[yexpr]; tv.Value != nil && constant.Sign(tv.Value) != 0 {
					if op == token.QUO {
						return "(Int.tdiv " + xs + " " + ys + ")"
					}
					return "(Int.tmod " + xs + " " + ys + ")"
				}
			}
			t := e.fresh("t")
			if op == token.QUO {
				e.line("let %s ← Go.idiv %s %s", t, xs, ys)
			} else {
				e.line("let %s ← Go.imod %s %s", t, xs, ys)
			}
			return t
		}
	}
	e.g.fail(n, "operator %s on %s", op, rt)
	return ""
}

// capture runs f with the emitter writing into a fresh buffer and returns what was written
func (e *emitter) capture(f func()) string {
	old := e.sb
	e.sb = &strings.Builder{}
	f()
	s := e.sb.String()
	e.sb = old
	return s
}

func (e *emitter) expr(x ast.Expr) string {
	if tv, ok := e.info.Types[x]; ok && tv.Value != nil {
		return e.constant(x, tv)
	}
	switch t := x.(type) {
	case *ast.ParenExpr:
		return e.expr(t.X)
	case *ast.Ident:
		if t.Name == "nil" {
			return e.g.zero(t, e.typeOf(t))
		}
		o := e.info.Uses[t]
		if o == nil {
			o = e.info.Defs[t]
		}
		if v, ok := o.(*types.Var); ok {
			if v == e.fi.opaqueRecv {
				e.g.fail(t, "opaque receiver used as a value")
			}
			if e.g.nilable[v] && !e.rawOpt {
				return "((" + e.name(v) + ").getD " + e.g.nilDefault(v.Type()) + ")"
			}
			return e.name(v)
		}
		e.g.fail(t, "identifier %s", t.Name)
	case *ast.BasicLit:
		e.g.fail(t, "literal without constant value")
	case *ast.StarExpr:
		return e.expr(t.X)
	case *ast.UnaryExpr:
		switch t.Op {
		case token.NOT:
			return "(!" + e.expr(t.X) + ")"
		case token.SUB:
			if isInt(e.typeOf(t)) {
				return "(-" + e.expr(t.X) + ")"
			}
			return "(0 - " + e.expr(t.X) + ")"
		case token.XOR:
			if isUnsigned(e.typeOf(t)) {
				return "(~~~" + e.expr(t.X) + ")"
			}
		case token.AND:
			// &x of a local structure in a return statement: the structure itself (pointers to structures are values)
			if id, ok := t.X.(*ast.Ident); ok && e.inReturn {
				if _, isStruct := e.typeOf(id).Underlying().(*types.Struct); isStruct {
					return e.expr(id)
				}
			}
			if _, ok := t.X.(*ast.CompositeLit); ok {
				return e.expr(t.X)
			}
		case token.ADD:
			return e.expr(t.X)
		}
		e.g.fail(t, "unary %s", t.Op)
	case *ast.BinaryExpr:
		xt := e.typeOf(t.X)
		rt := e.typeOf(t)
		if t.Op == token.LAND || t.Op == token.LOR {
			xs := e.expr(t.X)
			var ys string
			pre := e.capture(func() { ys = e.expr(t.Y) })
			if pre == "" {
				return e.binop(t, t.Op, xs, ys, xt, rt, t.Y)
			}
			// the right operand can fault or has preludes: evaluate it only when Go would
			v := e.fresh("t")
			if t.Op == token.LAND {
				e.line("let %s ← (if %s then (do", v, xs)
			} else {
				e.line("let %s ← (if !%s then (do", v, xs)
			}
			for _, l := range strings.Split(strings.TrimRight(pre, "\n"), "\n") {
				e.sb.WriteString("    " + l + "\n")
			}
			e.ind += 2
			e.line("pure %s) else pure %v : Go.M Bool)", ys, t.Op == token.LOR)
			e.ind -= 2
			return v
		}
		// nil comparisons
		if id, ok := t.Y.(*ast.Ident); ok && id.Name == "nil" && e.info.Types[t.Y].IsNil() {
			if isErrorType(xt) {
				if t.Op == token.NEQ {
					return "(" + e.expr(t.X) + ").isSome"
				}
				return "(" + e.expr(t.X) + ").isNone"
			}
			if o, el := e.g.pathObj(e.info, t.X); o != nil && ((el && e.g.elemNilable[o]) || (!el && e.g.nilable[o])) {
				e.rawOpt = true
				raw := e.expr(t.X)
				e.rawOpt = false
				if t.Op == token.NEQ {
					return "(" + raw + ").isSome"
				}
				return "(" + raw + ").isNone"
			}
			e.g.fail(t, "comparison of %s with nil", xt)
		}
		if t.Op == token.SHL || t.Op == token.SHR {
			xs := e.expr(t.X)
			return e.binop(t, t.Op, xs, e.shiftCount(t.Y), xt, rt, t.Y)
		}
		xs := e.expr(t.X)
		ys := e.expr(t.Y)
		return e.binop(t, t.Op, xs, ys, xt, rt, t.Y)
	case *ast.IndexExpr:
		if mt, ok := e.typeOf(t.X).Underlying().(*types.Map); ok {
			return fmt.Sprintf("(Go.mapGet %s %s %s).1", e.expr(t.X), e.expr(t.Index), e.g.zero(t, mt.Elem()))
		}
		raw := e.rawOpt
		e.rawOpt = false
		xs := e.expr(t.X)
		is := e.indexExpr(t.Index)
		e.rawOpt = raw
		v := e.fresh("t")
		e.line("let %s ← Go.idx %s %s", v, xs, is)
		if o, el := e.g.pathObj(e.info, t.X); o != nil && !el && e.g.elemNilable[o] && !raw {
			return "((" + v + ").getD [])"
		}
		return v
	case *ast.SliceExpr:
		if t.Slice3 {
			e.g.fail(t, "three-index slice")
		}
		xs := e.expr(t.X)
		lo, hi := e.sliceBounds(t, xs)
		if lo == "0" && hi == "(Go.len "+xs+")" {
			return xs
		}
		v := e.fresh("t")
		e.line("let %s ← Go.slice %s %s %s", v, xs, lo, hi)
		return v
	case *ast.SelectorExpr:
		if sel := e.info.Selections[t]; sel != nil && sel.Kind() == types.FieldVal {
			if id, ok := t.X.(*ast.Ident); ok && e.fi.opaqueRecv != nil && e.info.Uses[id] == e.fi.opaqueRecv {
				return e.fi.opaqueRecv.Name() + "_" + t.Sel.Name
			}
			if droppedField(sel.Obj().Type()) {
				e.g.fail(t, "field %s of a dropped type", t.Sel.Name)
			}
			raw := e.rawOpt
			e.rawOpt = false
			base := e.expr(t.X)
			e.rawOpt = raw
			if e.g.nilable[sel.Obj()] && !raw {
				return "((" + base + "." + leanField(t.Sel.Name) + ").getD " + e.g.nilDefault(sel.Obj().Type()) + ")"
			}
			return base + "." + leanField(t.Sel.Name)
		}
		e.g.fail(t, "selector")
	case *ast.CompositeLit:
		return e.compositeLit(t)
	case *ast.FuncLit:
		return e.funcLit(t)
	case *ast.CallExpr:
		vals := e.call(t, 1)
		return vals[0]
	}
	e.g.fail(x, "expression %T", x)
	return ""
}

// an index or slice bound as a Lean Int
func (e *emitter) indexExpr(x ast.Expr) string {
	s := e.expr(x)
	t := e.typeOf(x)
	if isUnsigned(t) {
		if bitsOf(t) == 64 {
			// an index of 2^63 or more is out of range for every slice
			return "((" + s + ").toNat : Int)"
		}
		return "((" + s + ").toNat : Int)"
	}
	return s
}

func (e *emitter) sliceBounds(t *ast.SliceExpr, xs string) (lo, hi string) {
	lo, hi = "0", "(Go.len "+xs+")"
	if t.Low != nil {
		lo = e.indexExpr(t.Low)
	}
	if t.High != nil {
		hi = e.indexExpr(t.High)
	}
	return
}

func (e *emitter) compositeLit(t *ast.CompositeLit) string {
	typ := e.typeOf(t)
	if isNamed(typ, "strings", "Builder") {
		return "([] : Go.Bytes)"
	}
	switch u := typ.Underlying().(type) {
	case *types.Slice:
		var els []string
		for _, el := range t.Elts {
			if _, ok := el.(*ast.KeyValueExpr); ok {
				e.g.fail(t, "keyed slice literal")
			}
			els = append(els, e.expr(el))
		}
		return "([" + strings.Join(els, ", ") + "] : " + e.lt(t, typ) + ")"
	case *types.Array:
		if len(t.Elts) == 0 {
			return e.g.zero(t, typ)
		}
		if len(t.Elts) == 0 {
			return e.g.zero(t, typ)
		}
		if int64(len(t.Elts)) != u.Len() {
			e.g.fail(t, "partial array literal")
		}
		var els []string
		for _, el := range t.Elts {
			els = append(els, e.expr(el))
		}
		return "([" + strings.Join(els, ", ") + "] : " + e.lt(t, typ) + ")"
	case *types.Struct:
		st := u
		named, ok := typ.(*types.Named)
		if !ok {
			if p, isP := typ.(*types.Pointer); isP {
				named, ok = p.Elem().(*types.Named)
			}
		}
		if !ok {
			if st.NumFields() == 0 {
				return "()"
			}
			e.g.fail(t, "anonymous struct literal")
		}
		si := e.g.structOf(t, named)
		given := map[string]string{}
		for i, el := range t.Elts {
			if kv, ok := el.(*ast.KeyValueExpr); ok {
				given[kv.Key.(*ast.Ident).Name] = e.expr(kv.Value)
			} else {
				given[u.Field(i).Name()] = e.expr(el)
			}
		}
		var fs []string
		for _, f := range si.fields {
			v, ok := given[f.Name()]
			if !ok {
				v = e.g.zero(t, f.Type())
			}
			delete(given, f.Name())
			fs = append(fs, leanField(f.Name())+" := "+v)
		}
		for k := range given {
			e.g.fail(t, "literal sets dropped field %s", k)
		}
		return "({ " + strings.Join(fs, ", ") + " } : " + si.lean + ")"
	}
	e.g.fail(t, "composite literal of %s", typ)
	return ""
}

func (e *emitter) funcLit(t *ast.FuncLit) string {
	sig := e.typeOf(t).(*types.Signature)
	if vs := e.assigned(t); len(vs) > 0 {
		e.g.fail(t, "function literal assigns captured variable %s", vs[0].Name())
	}
	var bs, rts []string
	for i := 0; i < sig.Params().Len(); i++ {
		p := sig.Params().At(i)
		pn := e.name(p)
		if p.Name() == "" {
			pn = e.fresh("a")
		}
		bs = append(bs, fmt.Sprintf("(%s : %s)", pn, e.lt(t, p.Type())))
	}
	var named []*types.Var
	for i := 0; i < sig.Results().Len(); i++ {
		r := sig.Results().At(i)
		rts = append(rts, e.lt(t, r.Type()))
		if r.Name() != "" {
			named = append(named, r)
		}
	}
	if len(named) > 0 {
		e.g.fail(t, "function literal with named results")
	}
	rt := tupleType(rts)
	c := ctx{mtype: "Go.M " + rt}
	for i := 0; i < sig.Results().Len(); i++ {
		c.resT = append(c.resT, sig.Results().At(i).Type())
	}
	c.retVals = func(vals []string) string { return "pure " + tuple(vals) }
	c.retRaw = func(v string) string { return "pure " + v }
	body := e.capture(func() {
		e.ind += 2
		e.stmts(t.Body.List, c, nil)
		e.ind -= 2
	})
	if len(bs) == 0 {
		bs = []string{"(_ : Unit)"}
	}
	return fmt.Sprintf("(fun %s => (do\n%s%s: Go.M %s))", strings.Join(bs, " "), body, strings.Repeat("  ", e.ind+2), rt)
}

// funcLitStateful: a function literal passed for a stateful callback parameter: the captured variables it assigns are
// its state: `fun state args => do ...; pure (state', results)`
func (e *emitter) funcLitStateful(t *ast.FuncLit, captured []*types.Var) string {
	sig := e.typeOf(t).(*types.Signature)
	var pat, sty []string
	for _, v := range captured {
		pat = append(pat, e.name(v))
		sty = append(sty, e.g.typeOfVar(t, v))
	}
	bs := []string{fmt.Sprintf("(cb_st : %s)", tupleType(sty))}
	for i := 0; i < sig.Params().Len(); i++ {
		p := sig.Params().At(i)
		pn := e.name(p)
		if p.Name() == "" {
			pn = e.fresh("a")
		}
		bs = append(bs, fmt.Sprintf("(%s : %s)", pn, e.lt(t, p.Type())))
	}
	rts := []string{tupleType(sty)}
	for i := 0; i < sig.Results().Len(); i++ {
		r := sig.Results().At(i)
		rts = append(rts, e.lt(t, r.Type()))
		if r.Name() != "" {
			e.g.fail(t, "function literal with named results")
		}
	}
	rt := strings.Join(rts, " × ")
	c := ctx{mtype: "Go.M (" + rt + ")"}
	for i := 0; i < sig.Results().Len(); i++ {
		c.resT = append(c.resT, sig.Results().At(i).Type())
	}
	c.retVals = func(vals []string) string {
		var cur []string
		for _, v := range captured {
			cur = append(cur, e.name(v))
		}
		return "pure " + tuple(append([]string{tuple(cur)}, vals...))
	}
	c.retRaw = func(v string) string { return "pure " + v }
	body := e.capture(func() {
		e.ind += 2
		if len(pat) > 0 {
			e.line("let %s := cb_st", tuple(pat))
		}
		e.stmts(t.Body.List, c, nil)
		e.ind -= 2
	})
	return fmt.Sprintf("(fun %s => (do\n%s%s: Go.M (%s)))", strings.Join(bs, " "), body, strings.Repeat("  ", e.ind+2), rt)
}

// ---------------------------------------------------------------- conversions

func (e *emitter) convert(n ast.Node, from, to types.Type, xs string) string {
	lf, lt := e.lt(n, from), e.lt(n, to)
	if lf == lt {
		return xs
	}
	fu, tu := isUnsigned(from), isUnsigned(to)
	switch {
	case fu && tu:
		return "(" + xs + ").to" + lt
	case fu && lt == "Int":
		if bitsOf(from) == 64 {
			return "(Go.intOfU64 " + xs + ")"
		}
		return "((" + xs + ").toNat : Int)"
	case lf == "Int" && tu:
		return fmt.Sprintf("(Go.toU%d %s)", bitsOf(to), xs)
	}
	e.g.fail(n, "conversion from %s to %s", from, to)
	return ""
}

// ---------------------------------------------------------------- lvalues

// assignTo emits the rebinding that makes the lvalue l hold val
func (e *emitter) assignTo(l ast.Expr, val string) {
	switch t := l.(type) {
	case *ast.ParenExpr:
		e.assignTo(t.X, val)
	case *ast.StarExpr:
		e.assignTo(t.X, val)
	case *ast.Ident:
		if t.Name == "_" {
			e.line("let _ := %s", val)
			return
		}
		o := e.info.Uses[t]
		if o == nil {
			o = e.info.Defs[t]
		}
		v, ok := o.(*types.Var)
		if !ok {
			e.g.fail(t, "assignment to %s", t.Name)
		}
		if e.fi.opaqueRecv != nil && v == e.fi.opaqueRecv {
			e.g.fail(t, "assignment to opaque receiver")
		}
		if e.g.nilable[v] && !e.rawAssign {
			val = "(some " + val + ")"
		}
		e.rawAssign = false
		e.line("let %s := %s", e.name(v), val)
	case *ast.SelectorExpr:
		sel := e.info.Selections[t]
		if sel == nil || sel.Kind() != types.FieldVal {
			e.g.fail(t, "assignment to selector")
		}
		if id, ok := t.X.(*ast.Ident); ok && e.fi.opaqueRecv != nil && e.info.Uses[id] == e.fi.opaqueRecv {
			e.g.fail(t, "assignment to a field of an opaque receiver")
		}
		if e.g.nilable[sel.Obj()] && !e.rawAssign {
			val = "(some " + val + ")"
		}
		e.rawAssign = false
		base := e.pureRead(t.X)
		e.rawAssign = true // the enclosing structure value is written back as it is
		if _, isVar := rootVarOf(t.X); !isVar {
			e.rawAssign = false
		}
		e.assignToRaw(t.X, fmt.Sprintf("{ %s with %s := %s }", base, leanField(t.Sel.Name), val))
	case *ast.IndexExpr:
		if _, ok := e.typeOf(t.X).Underlying().(*types.Map); ok {
			base := e.pureRead(t.X)
			e.assignTo(t.X, fmt.Sprintf("(Go.mapSet %s %s %s)", base, e.expr(t.Index), val))
			return
		}
		if o, el := e.g.pathObj(e.info, t.X); o != nil && !el && e.g.elemNilable[o] && !e.rawAssign {
			val = "(some " + val + ")"
		}
		e.rawAssign = false
		base := e.pureRead(t.X)
		is := e.indexExpr(t.Index)
		v := e.fresh("t")
		e.line("let %s ← Go.setIdx %s %s %s", v, base, is, val)
		e.assignTo(t.X, v)
	case *ast.SliceExpr:
		// write a region back (val has the region's length)
		base := e.pureRead(t.X)
		lo := "0"
		if t.Low != nil {
			lo = e.indexExpr(t.Low)
		}
		e.assignTo(t.X, fmt.Sprintf("(Go.splice %s %s %s)", base, lo, val))
	default:
		e.g.fail(l, "assignment target %T", l)
	}
}

// pureRead: the current value of an lvalue path that cannot fault (variables and fields)
func (e *emitter) pureRead(x ast.Expr) string {
	switch t := x.(type) {
	case *ast.ParenExpr:
		return e.pureRead(t.X)
	case *ast.StarExpr:
		return e.pureRead(t.X)
	case *ast.Ident:
		return e.expr(t)
	case *ast.SelectorExpr:
		return e.expr(t)
	case *ast.IndexExpr, *ast.SliceExpr:
		return e.expr(x)
	}
	e.g.fail(x, "lvalue path %T", x)
	return ""
}

func (e *emitter) assignStmt(s *ast.AssignStmt) {
	if s.Tok != token.ASSIGN && s.Tok != token.DEFINE {
		// op=
		op := map[token.Token]token.Token{token.ADD_ASSIGN: token.ADD, token.SUB_ASSIGN: token.SUB, token.MUL_ASSIGN: token.MUL,
			token.QUO_ASSIGN: token.QUO, token.REM_ASSIGN: token.REM, token.AND_ASSIGN: token.AND, token.OR_ASSIGN: token.OR,
			token.XOR_ASSIGN: token.XOR, token.SHL_ASSIGN: token.SHL, token.SHR_ASSIGN: token.SHR, token.AND_NOT_ASSIGN: token.AND_NOT}[s.Tok]
		lt := e.typeOf(s.Lhs[0])
		cur := e.expr(s.Lhs[0])
		var ys string
		if op == token.SHL || op == token.SHR {
			ys = e.shiftCount(s.Rhs[0])
		} else {
			ys = e.expr(s.Rhs[0])
		}
		e.assignTo(s.Lhs[0], e.binop(s, op, cur, ys, lt, lt, s.Rhs[0]))
		return
	}
	// a call on the right with several results and/or write-backs
	if len(s.Rhs) == 1 {
		if call, ok := unparen(s.Rhs[0]).(*ast.CallExpr); ok && !e.info.Types[call.Fun].IsType() {
			if len(s.Lhs) == 1 {
				if o, el := e.g.pathObj(e.info, s.Lhs[0]); o != nil && !el && e.g.elemNilable[o] {
					e.makeNone = true
				}
			}
			vals := e.call(call, len(s.Lhs))
			e.makeNone = false
			for i, l := range s.Lhs {
				e.assignTo(l, vals[i])
			}
			return
		}
	}
	if len(s.Lhs) == 2 && len(s.Rhs) == 1 {
		if ix, ok := unparen(s.Rhs[0]).(*ast.IndexExpr); ok {
			if mt, ok := e.typeOf(ix.X).Underlying().(*types.Map); ok {
				t := e.fresh("t")
				e.line("let %s := Go.mapGet %s %s %s", t, e.expr(ix.X), e.expr(ix.Index), e.g.zero(ix, mt.Elem()))
				e.assignTo(s.Lhs[0], t+".1")
				e.assignTo(s.Lhs[1], t+".2")
				return
			}
		}
	}
	if len(s.Lhs) != len(s.Rhs) {
		e.g.fail(s, "assignment count mismatch")
	}
	if len(s.Lhs) == 1 {
		if id, ok := s.Rhs[0].(*ast.Ident); ok && id.Name == "nil" {
			if o, el := e.g.pathObj(e.info, s.Lhs[0]); o != nil && ((el && e.g.elemNilable[o]) || (!el && e.g.nilable[o])) {
				e.rawAssign = true
				e.assignTo(s.Lhs[0], "none")
				return
			}
		}
		// make([]T, n) for a slice whose elements can be nil: the elements start out nil
		if o, el := e.g.pathObj(e.info, s.Lhs[0]); o != nil && !el && e.g.elemNilable[o] {
			e.makeNone = true
		}
		val := e.argExpr(s.Rhs[0], e.typeOf(s.Lhs[0]))
		e.makeNone = false
		e.assignTo(s.Lhs[0], val)
		return
	}
	var tmps []string
	for _, r := range s.Rhs {
		t := e.fresh("t")
		e.line("let %s := %s", t, e.expr(r))
		tmps = append(tmps, t)
	}
	for i, l := range s.Lhs {
		e.assignTo(l, tmps[i])
	}
}

// ---------------------------------------------------------------- calls

func (e *emitter) callStmt(call *ast.CallExpr, _ []ast.Expr, _ bool) {
	e.call(call, 0)
}

// call translates a call and returns the texts of its `want` results (0 for a statement); write-backs to the
// arguments a callee or library routine wrote through are emitted here.
func (e *emitter) call(call *ast.CallExpr, want int) []string {
	// conversion
	if tv := e.info.Types[call.Fun]; tv.IsType() {
		to := tv.Type
		from := e.typeOf(call.Args[0])
		return []string{e.convert(call, from, to, e.expr(call.Args[0]))}
	}
	// immediately invoked function literal
	if fl, ok := unparen(call.Fun).(*ast.FuncLit); ok && len(call.Args) == 0 {
		return e.iife(fl, want)
	}
	if e.fi.opaqueRecv != nil && len(call.Args) == 0 {
		if name, _ := opaqueCallOf(e.info, e.fi.opaqueRecv, call); name != "" {
			return []string{name}
		}
	}
	callee, lib := e.g.calleeOf(e.fi.pkg, call)
	if callee != nil {
		return e.callTranslated(call, callee, want)
	}
	// call of a function value (parameter or local)
	if id, ok := call.Fun.(*ast.Ident); ok {
		if v, isVar := e.info.Uses[id].(*types.Var); isVar {
			sig := v.Type().Underlying().(*types.Signature)
			var args []string
			for _, a := range call.Args {
				args = append(args, e.expr(a))
			}
			if st := e.fi.cbState[v]; st != nil {
				names := e.bindResults(fmt.Sprintf("%s %s %s", e.name(v), e.name(st), strings.Join(args, " ")), sig.Results().Len()+1, want+1, true)
				e.line("let %s := %s", e.name(st), names[0])
				return names[1:]
			}
			if len(args) == 0 {
				args = []string{"()"}
			}
			return e.bindResults(fmt.Sprintf("%s %s", e.name(v), strings.Join(args, " ")), sig.Results().Len(), want, true)
		}
	}
	// call of a function-valued field (params.Ask(...)): a pure function value
	if se, ok := call.Fun.(*ast.SelectorExpr); ok {
		if sel := e.info.Selections[se]; sel != nil && sel.Kind() == types.FieldVal {
			if sig, ok := sel.Obj().Type().Underlying().(*types.Signature); ok {
				f := e.expr(se)
				var args []string
				for _, a := range call.Args {
					args = append(args, paren(e.expr(a)))
				}
				if len(args) == 0 {
					args = []string{"()"}
				}
				return e.bindResults(fmt.Sprintf("%s %s", paren(f), strings.Join(args, " ")), sig.Results().Len(), want, true)
			}
		}
	}
	return e.callLib(call, lib, want)
}

func (e *emitter) bindResults(rhs string, have, want int, monadic bool) []string {
	arrow := ":="
	if monadic {
		arrow = "←"
	}
	if have == 0 {
		if monadic {
			e.line("let _ ← %s", rhs)
		}
		return nil
	}
	var names []string
	for i := 0; i < have; i++ {
		names = append(names, e.fresh("t"))
	}
	e.line("let %s %s %s", tuple(names), arrow, rhs)
	if want > have {
		e.g.fail(e.fi.decl, "internal: want %d results of %d", want, have)
	}
	return names
}

func (e *emitter) iife(fl *ast.FuncLit, want int) []string {
	sig := e.typeOf(fl).(*types.Signature)
	captured := e.assigned(fl)
	var rts []string
	for i := 0; i < sig.Results().Len(); i++ {
		rts = append(rts, e.lt(fl, sig.Results().At(i).Type()))
		if sig.Results().At(i).Name() != "" {
			e.g.fail(fl, "function literal with named results")
		}
	}
	for _, v := range captured {
		rts = append(rts, e.lt(fl, v.Type()))
	}
	rt := tupleType(rts)
	c := ctx{mtype: "Go.M " + rt}
	for i := 0; i < sig.Results().Len(); i++ {
		c.resT = append(c.resT, sig.Results().At(i).Type())
	}
	c.retVals = func(vals []string) string {
		all := append([]string{}, vals...)
		for _, v := range captured {
			all = append(all, e.name(v))
		}
		return "pure " + tuple(all)
	}
	c.retRaw = func(v string) string { return "pure " + v }
	var names []string
	for i := 0; i < sig.Results().Len(); i++ {
		names = append(names, e.fresh("t"))
	}
	all := append([]string{}, names...)
	var capTmp []string
	for range captured {
		t := e.fresh("c")
		capTmp = append(capTmp, t)
		all = append(all, t)
	}
	e.line("let %s ← (do", tuple(all))
	e.ind += 2
	e.stmts(fl.Body.List, c, nil)
	e.line(": Go.M %s)", rt)
	e.ind -= 2
	for i, v := range captured {
		e.line("let %s := %s", e.name(v), capTmp[i])
	}
	return names
}

func (e *emitter) callTranslated(call *ast.CallExpr, callee *fnInfo, want int) []string {
	e.calls[callee] = true
	argExprs := e.g.callArgs(e.fi.pkg, call, callee)
	sig := callee.obj.Type().(*types.Signature)
	var args []string
	// opaque receiver of the callee: its fields come from our own opaque receiver (same receiver object only)
	if callee.opaqueRecv != nil {
		se, ok := call.Fun.(*ast.SelectorExpr)
		if !ok {
			e.g.fail(call, "call of a method with opaque receiver")
		}
		for _, f := range callee.opaqueFields {
			if id, ok := se.X.(*ast.Ident); ok && e.fi.opaqueRecv != nil && e.info.Uses[id] == e.fi.opaqueRecv {
				args = append(args, e.fi.opaqueRecv.Name()+"_"+f.Name())
			} else {
				e.g.fail(call, "opaque receiver call on another object")
			}
		}
	}
	type wb struct {
		arg ast.Expr
	}
	var wbs []ast.Expr
	var consumed []string
	var cbCaptured []*types.Var
	hasCb := false
	nfixed := len(callee.params)
	variadic := sig.Variadic()
	for i, p := range callee.params {
		if droppedField(p.Type()) {
			continue
		}
		if variadic && i == nfixed-1 {
			if call.Ellipsis.IsValid() {
				args = append(args, e.expr(argExprs[i]))
			} else {
				var els []string
				for _, a := range argExprs[i:] {
					els = append(els, e.expr(a))
				}
				args = append(args, "(["+strings.Join(els, ", ")+"] : "+e.lt(call, p.Type())+")")
			}
			continue
		}
		a := argExprs[i]
		if callee.cbState[p] != nil {
			fl, ok := unparen(a).(*ast.FuncLit)
			if !ok {
				e.g.fail(a, "argument of a stateful callback parameter must be a function literal")
			}
			cbCaptured = e.assigned(fl)
			args = append(args, e.funcLitStateful(fl, cbCaptured))
			var cur []string
			for _, v := range cbCaptured {
				cur = append(cur, e.name(v))
			}
			args = append(args, tuple(cur))
			hasCb = true
			continue
		}
		// a nil argument takes the parameter's zero value
		args = append(args, e.argExpr(a, p.Type()))
		if callee.mut[i] {
			wbs = append(wbs, a)
		}
		if callee.consume[i] {
			id, ok := unparen(a).(*ast.Ident)
			if !ok {
				// a field path (params.Initial): it cannot be shadowed, so it must not be mentioned again after the call
				if se, isSel := unparen(a).(*ast.SelectorExpr); isSel {
					txt := types.ExprString(se)
					ast.Inspect(e.fi.decl.Body, func(n ast.Node) bool {
						if s2, ok := n.(*ast.SelectorExpr); ok && s2.Pos() > call.End() && types.ExprString(s2) == txt {
							e.g.fail(s2, "%s is read after it was passed to a consuming parameter", txt)
						}
						return true
					})
					continue
				}
				e.g.fail(a, "argument of a consuming parameter must be a variable")
			}
			if v, ok := e.info.Uses[id].(*types.Var); ok {
				consumed = append(consumed, e.name(v))
			} else {
				e.g.fail(a, "argument of a consuming parameter must be a variable")
			}
		}
	}
	have := sig.Results().Len() + len(wbs)
	if hasCb {
		have++
	}
	names := e.bindResults(fmt.Sprintf("%s %s", callee.lean, strings.Join(args, " ")), have, want, true)
	for i, a := range wbs {
		e.writeBack(a, names[sig.Results().Len()+i])
	}
	if hasCb {
		// the callback's final state: the captured variables it assigns
		var pat []string
		for _, v := range cbCaptured {
			pat = append(pat, e.name(v))
		}
		if len(pat) > 0 {
			e.line("let %s := %s", tuple(pat), names[have-1])
		}
	}
	for _, c := range consumed {
		e.line("let %s := ()", c)
	}
	if names == nil {
		return nil
	}
	return names[:sig.Results().Len()]
}

func (e *emitter) argExpr(a ast.Expr, pt types.Type) string {
	if id, ok := a.(*ast.Ident); ok && id.Name == "nil" {
		return e.g.zero(a, pt)
	}
	return e.expr(a)
}

// writeBack: the callee returned the new contents of what argument a denoted
func (e *emitter) writeBack(a ast.Expr, val string) {
	switch t := a.(type) {
	case *ast.UnaryExpr:
		if t.Op == token.AND {
			e.writeBack(t.X, val)
			return
		}
	case *ast.ParenExpr:
		e.writeBack(t.X, val)
		return
	}
	if rootVar(e.info, a) == nil {
		// a temporary (e.g. a literal): nothing to write back to
		return
	}
	e.assignTo(a, val)
}

func (e *emitter) callLib(call *ast.CallExpr, lib string, want int) []string {
	arg := func(i int) string { return e.expr(call.Args[i]) }
	switch lib {
	case "len":
		return []string{"(Go.len " + arg(0) + ")"}
	case "append":
		base := arg(0)
		if id, ok := call.Args[0].(*ast.Ident); ok && id.Name == "nil" {
			base = e.g.zero(call, e.typeOf(call))
		}
		if call.Ellipsis.IsValid() {
			return []string{"(" + base + " ++ " + arg(1) + ")"}
		}
		var els []string
		for i := 1; i < len(call.Args); i++ {
			els = append(els, arg(i))
		}
		return []string{"(" + base + " ++ [" + strings.Join(els, ", ") + "])"}
	case "make":
		t := e.typeOf(call)
		if _, ok := t.Underlying().(*types.Map); ok {
			return []string{"([] : " + e.lt(call, t) + ")"}
		}
		sl, ok := t.Underlying().(*types.Slice)
		if !ok {
			e.g.fail(call, "make of %s", t)
		}
		n := e.indexExpr(call.Args[1])
		v := e.fresh("t")
		z := e.g.zero(call, sl.Elem())
		if e.makeNone {
			z = "none"
		}
		e.line("let %s ← Go.makeList %s %s", v, z, n)
		return []string{v}
	case "golang.org/x/exp/slices.SortFunc", "slices.SortFunc":
		v := e.fresh("t")
		e.line("let %s ← Go.sortFunc %s %s", v, arg(0), arg(1))
		e.writeBack(call.Args[0], v)
		return nil
	case "delete":
		base := e.pureRead(call.Args[0])
		e.assignTo(call.Args[0], fmt.Sprintf("(Go.mapDel %s %s)", base, arg(1)))
		return nil
	case "copy":
		d, s := arg(0), arg(1)
		nd, nn := e.fresh("t"), e.fresh("t")
		e.line("let (%s, %s) := Go.copy %s %s", nd, nn, d, s)
		e.writeBack(call.Args[0], nd)
		return []string{nn}
	case "bits.LeadingZeros8":
		return []string{"(Go.leadingZeros8 " + arg(0) + ")"}
	case "binary.BigEndian.Uint16", "binary.BigEndian.Uint32", "binary.BigEndian.Uint64":
		v := e.fresh("t")
		e.line("let %s ← Go.beU%s %s", v, strings.TrimPrefix(lib, "binary.BigEndian.Uint"), arg(0))
		return []string{v}
	case "binary.BigEndian.PutUint16", "binary.BigEndian.PutUint32", "binary.BigEndian.PutUint64":
		v := e.fresh("t")
		e.line("let %s ← Go.bePutU%s %s %s", v, strings.TrimPrefix(lib, "binary.BigEndian.PutUint"), arg(0), arg(1))
		e.writeBack(call.Args[0], v)
		return nil
	case "binary.Uvarint":
		a, b := e.fresh("t"), e.fresh("t")
		e.line("let (%s, %s) := Go.uvarint %s", a, b, arg(0))
		return []string{a, b}
	case "binary.PutUvarint":
		nb, n := e.fresh("t"), e.fresh("t")
		e.line("let (%s, %s) ← Go.putUvarint %s %s", nb, n, arg(0), arg(1))
		e.writeBack(call.Args[0], nb)
		return []string{n}
	case "(time.Duration).Milliseconds":
		return []string{"(Int.tdiv " + e.expr(call.Fun.(*ast.SelectorExpr).X) + " 1000000)"}
	case "(*strings.Builder).Write", "(*strings.Builder).WriteString":
		recv := call.Fun.(*ast.SelectorExpr).X
		e.assignTo(recv, "("+e.pureRead(recv)+" ++ "+arg(0)+")")
		return []string{"(Go.len " + arg(0) + ")", "(none : Go.Err)"}[:want]
	case "(*strings.Builder).String":
		return []string{e.expr(call.Fun.(*ast.SelectorExpr).X)}
	case "log.Println", "log.Printf", "log.Print":
		// logging has no effect the translation can see; the arguments are still evaluated
		for i := range call.Args {
			arg(i)
		}
		return nil
	case "errors.Errorf", "errors.New", "fmt.Errorf":
		msg := "error"
		if tv := e.info.Types[call.Args[0]]; tv.Value != nil && tv.Value.Kind() == constant.String {
			msg = constant.StringVal(tv.Value)
		}
		return []string{"(some " + strconv.Quote(msg) + " : Go.Err)"}
	}
	e.g.fail(call, "call of %q", lib)
	return nil
}

func unparen(x ast.Expr) ast.Expr {
	for {
		p, ok := x.(*ast.ParenExpr)
		if !ok {
			return x
		}
		x = p.X
	}
}

// assignToRaw assigns a value that already has the target's representation
func (e *emitter) assignToRaw(l ast.Expr, val string) {
	e.rawAssign = true
	e.assignTo(l, val)
	e.rawAssign = false
}

func rootVarOf(x ast.Expr) (ast.Expr, bool) {
	_, ok := x.(*ast.Ident)
	return x, ok
}
