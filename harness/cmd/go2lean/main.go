// go2lean regenerates lean/P2PVerif/Gen/Src.lean from the Go source of /repo (and of the replay filter it
// depends on) on every run: a shallow translation of a chosen set of functions into Lean 4 definitions over the
// runtime library P2PVerif/Src/Rt.lean.  The theorems of P2PVerif/Props/Src*.lean are stated about these
// regenerated definitions, so a change to one of the translated functions changes what is proved about.
//
// The translator is deliberately small and refuses what it does not understand (exit status 2, the construct
// and its position on stderr): goroutines, channels, maps, interfaces, defer (other than of Unlock), labelled
// jumps, switch, aliasing that could make value semantics wrong.  What it accepts:
//   - int / uintN / bool / string / []T / [N]T / named forms of these / structs of these / *struct receivers
//   - assignments, op-assignments, ++/--, var and := declarations, if/else with init, return (named results too)
//   - for loops (counted, range over slices/arrays, general with fuel), break, continue
//   - calls to other translated functions and methods, a table of library routines, function literals
//   - writes through slice parameters: the callee returns the new contents, the caller writes them back
package main

import (
	"bytes"
	"encoding/json"
	"flag"
	"fmt"
	"go/ast"
	"go/importer"
	"go/parser"
	"go/token"
	"go/types"
	"io"
	"os"
	"os/exec"
	"path/filepath"
	"sort"
)

type target struct {
	Pkg   string   // import path
	Funcs []string // "Func" or "Recv.Method"
	// receivers that are not translated as structures: the fields a method reads become parameters
	OpaqueRecv []string
	// "Func.param": a slice parameter the function writes through AND reassigns, so that what the caller's slice
	// holds afterwards is not modelled. A caller must pass a variable and may not read it again before assigning it
	// (the translation shadows it with `()`, so that a stale read does not type-check).
	Consume []string
	// "Func.param": a function-typed parameter whose calls have effects the caller observes (a callback closing over
	// the caller's variables). It is translated as `σ → args → Go.M (σ × results)`; the state is threaded through
	// the function, which takes the initial state as an extra parameter and returns the final one as an extra result.
	Stateful []string
}

var targets = []target{
	{Pkg: "go.brendoncarroll.net/p2p/p/kademlia", Funcs: []string{"min", "LeadingZeros", "XORBytes", "HasPrefix",
		"Distance", "DistanceCmp", "DistanceLt", "DistanceGt", "DistanceLz", "Cache.bucketIndex", "pop", "contains", "dhtIterate", "DHTGet", "DHTPut", "DHTFindNode", "DHTJoin"},
		OpaqueRecv: []string{"Cache"}, Consume: []string{"pop.xs", "dhtIterate.nodes"}, Stateful: []string{"dhtIterate.fn"}},
	{Pkg: "go.brendoncarroll.net/p2p/p/mbapp", Funcs: []string{"mask", "maskInverse", "newBitMap", "bitMap.len",
		"bitMap.set", "bitMap.get", "bitMap.allSet", "ParseMessage", "getBit", "setBit", "unsetBit",
		"Header.getUint32", "Header.setUint32", "Header.updateUint32", "Header.getUint32Bit", "Header.setUint32Bit",
		"Header.IsAsk", "Header.SetIsAsk", "Header.IsReply", "Header.SetIsReply", "Header.SetErrorCode",
		"Header.GetErrorCode", "Header.GetOriginTime", "Header.SetOriginTime", "Header.GetCounter", "Header.SetCounter",
		"Header.GetTotalSize", "Header.SetTotalSize", "Header.GetPartIndex", "Header.SetPartIndex",
		"Header.GetPartCount", "Header.SetPartCount", "Header.SetTimeout",
		"newCollector", "collector.addPart", "collector.isComplete", "extractErrorCode", "Swarm.MTU"}, OpaqueRecv: []string{"Swarm"}},
	{Pkg: "go.brendoncarroll.net/p2p/p/p2pmux", Funcs: []string{"uint16MuxFunc", "uint16DemuxFunc", "uint32MuxFunc",
		"uint32DemuxFunc", "uint64MuxFunc", "uint64DemuxFunc", "varintMuxFunc", "varintDemuxFunc", "stringMuxFunc",
		"stringDemuxFunc"}},
	{Pkg: "go.brendoncarroll.net/p2p/s/fragswarm", Funcs: []string{"appendUvarint", "newMessage", "parseMessage",
		"aggregator.addPart", "aggregator.assemble", "swarm.MTU"}, OpaqueRecv: []string{"swarm"}},
	{Pkg: "go.brendoncarroll.net/p2p/p/p2pke", Funcs: []string{"newMessage", "ParseMessage", "Message.GetNonce",
		"Message.SetNonce", "Message.HeaderBytes", "Message.Body", "IsInitHello", "IsRespHello", "IsHello", "IsPostHandshake",
		"Session.canSend", "Session.canReceive", "Session.IsReady"}, OpaqueRecv: []string{"Session"}},
	{Pkg: "go.brendoncarroll.net/p2p", Funcs: []string{"VecSize", "VecBytes", "PeerID.IsZero"}},
	{Pkg: "go.brendoncarroll.net/p2p/f/x509/oids", Funcs: []string{"New", "OID.Len", "OID.At", "OID.IsZero", "OID.ASN1"}},
	{Pkg: "golang.zx2c4.com/wireguard/replay", Funcs: []string{"Filter.Reset", "Filter.ValidateCounter"}},
}

// sigmaType: the type of the state of a stateful callback (Lean: the implicit type parameter σ)
var sigmaType = types.NewNamed(types.NewTypeName(token.NoPos, nil, "σ", nil), types.NewStruct(nil, nil), nil)

type unsupported struct {
	pos token.Pos
	msg string
}

func main() {
	repo := flag.String("repo", "/repo", "repository root")
	outPath := flag.String("o", "", "output file (default: standard output)")
	flag.Parse()
	var out bytes.Buffer
	if err := run(*repo, &out); err != nil {
		fmt.Fprintln(os.Stderr, "go2lean:", err)
		os.Exit(2)
	}
	if *outPath != "" {
		if err := os.WriteFile(*outPath, out.Bytes(), 0o644); err != nil {
			fmt.Fprintln(os.Stderr, "go2lean:", err)
			os.Exit(2)
		}
		return
	}
	os.Stdout.Write(out.Bytes())
}

type listed struct {
	ImportPath string
	Dir        string
	Export     string
	GoFiles    []string
}

func run(repo string, w io.Writer) (err error) {
	var pkgs []string
	for _, t := range targets {
		pkgs = append(pkgs, t.Pkg)
	}
	cmd := exec.Command("go", append([]string{"list", "-export", "-deps", "-json=ImportPath,Dir,Export,GoFiles"}, pkgs...)...)
	cmd.Dir = repo
	cmd.Stderr = os.Stderr
	raw, err := cmd.Output()
	if err != nil {
		return fmt.Errorf("go list: %v", err)
	}
	exports := map[string]listed{}
	dec := json.NewDecoder(bytes.NewReader(raw))
	for dec.More() {
		var l listed
		if err := dec.Decode(&l); err != nil {
			return err
		}
		exports[l.ImportPath] = l
	}
	fset := token.NewFileSet()
	imp := importer.ForCompiler(fset, "gc", func(path string) (io.ReadCloser, error) {
		l, ok := exports[path]
		if !ok || l.Export == "" {
			return nil, fmt.Errorf("no export data for %s", path)
		}
		return os.Open(l.Export)
	})
	g := &gen{fset: fset, fns: map[string]*fnInfo{}, structs: map[string]*structInfo{}}
	defer func() {
		if r := recover(); r != nil {
			if u, ok := r.(unsupported); ok {
				err = fmt.Errorf("%s: unsupported: %s", fset.Position(u.pos), u.msg)
				return
			}
			panic(r)
		}
	}()
	for _, t := range targets {
		l, ok := exports[t.Pkg]
		if !ok {
			return fmt.Errorf("package %s not listed", t.Pkg)
		}
		var files []*ast.File
		for _, f := range l.GoFiles {
			af, err := parser.ParseFile(fset, filepath.Join(l.Dir, f), nil, parser.ParseComments)
			if err != nil {
				return err
			}
			files = append(files, af)
		}
		info := &types.Info{Types: map[ast.Expr]types.TypeAndValue{}, Defs: map[*ast.Ident]types.Object{},
			Uses: map[*ast.Ident]types.Object{}, Selections: map[*ast.SelectorExpr]*types.Selection{}}
		conf := types.Config{Importer: imp}
		tp, err := conf.Check(t.Pkg, fset, files, info)
		if err != nil {
			return fmt.Errorf("type-check %s: %v", t.Pkg, err)
		}
		p := &pkgInfo{path: t.Pkg, short: tp.Name(), info: info, tpkg: tp, opaque: map[string]bool{}, consume: map[string]bool{}, stateful: map[string]bool{}}
		for _, c := range t.Consume {
			p.consume[c] = true
		}
		for _, c := range t.Stateful {
			p.stateful[c] = true
		}
		for _, o := range t.OpaqueRecv {
			p.opaque[o] = true
		}
		want := map[string]bool{}
		for _, f := range t.Funcs {
			want[f] = true
		}
		for _, af := range files {
			for _, d := range af.Decls {
				fd, ok := d.(*ast.FuncDecl)
				if !ok || fd.Body == nil {
					continue
				}
				name := fd.Name.Name
				if fd.Recv != nil {
					name = recvTypeName(fd.Recv.List[0].Type) + "." + name
				}
				if !want[name] {
					continue
				}
				delete(want, name)
				g.addFunc(p, name, fd)
			}
		}
		if len(want) > 0 {
			var miss []string
			for k := range want {
				miss = append(miss, k)
			}
			sort.Strings(miss)
			return fmt.Errorf("functions not found in %s: %v", t.Pkg, miss)
		}
	}
	g.closeOpaqueFields()
	g.analyseMutation()
	g.analyseNil()
	g.emitAll(w, repo)
	return nil
}

// closeOpaqueFields: a method with an opaque receiver that calls another such method on the same receiver also
// needs the callee's fields as parameters (to a fixed point).
func (g *gen) closeOpaqueFields() {
	for changed := true; changed; {
		changed = false
		for _, fi := range g.order {
			if fi.opaqueRecv == nil {
				continue
			}
			has := map[*types.Var]bool{}
			for _, f := range fi.opaqueFields {
				has[f] = true
			}
			ast.Inspect(fi.decl.Body, func(n ast.Node) bool {
				call, ok := n.(*ast.CallExpr)
				if !ok {
					return true
				}
				se, ok := call.Fun.(*ast.SelectorExpr)
				if !ok {
					return true
				}
				id, ok := se.X.(*ast.Ident)
				if !ok || fi.pkg.info.Uses[id] != fi.opaqueRecv {
					return true
				}
				fn, ok := fi.pkg.info.Uses[se.Sel].(*types.Func)
				if !ok {
					return true
				}
				callee := g.fns[fn.FullName()]
				if callee == nil {
					return true
				}
				for _, f := range callee.opaqueFields {
					if !has[f] {
						has[f] = true
						fi.opaqueFields = append(fi.opaqueFields, f)
						changed = true
					}
				}
				return true
			})
		}
	}
}

type opaqueCall struct {
	name string
	typ  types.Type
}

// opaqueCallOf: call is recv.field.Method() with an interface-typed field (possibly embedded): the parameter name and
// the result type, or ""
func opaqueCallOf(info *types.Info, recv *types.Var, call *ast.CallExpr) (string, types.Type) {
	se, ok := call.Fun.(*ast.SelectorExpr)
	if !ok {
		return "", nil
	}
	inner, ok := se.X.(*ast.SelectorExpr)
	if !ok {
		return "", nil
	}
	id, ok := inner.X.(*ast.Ident)
	if !ok || info.Uses[id] != recv {
		return "", nil
	}
	sel := info.Selections[inner]
	if sel == nil || sel.Kind() != types.FieldVal {
		return "", nil
	}
	if _, isIface := sel.Obj().Type().Underlying().(*types.Interface); !isIface {
		return "", nil
	}
	sig, ok := info.Types[call.Fun].Type.(*types.Signature)
	if !ok || sig.Results().Len() != 1 {
		return "", nil
	}
	return recv.Name() + "_" + inner.Sel.Name + "_" + se.Sel.Name, sig.Results().At(0).Type()
}

func recvTypeName(e ast.Expr) string {
	switch t := e.(type) {
	case *ast.StarExpr:
		return recvTypeName(t.X)
	case *ast.IndexExpr:
		return recvTypeName(t.X)
	case *ast.IndexListExpr:
		return recvTypeName(t.X)
	case *ast.Ident:
		return t.Name
	}
	return "?"
}

type pkgInfo struct {
	path, short string
	info        *types.Info
	tpkg        *types.Package
	opaque      map[string]bool
	consume     map[string]bool
	stateful    map[string]bool
}

type structInfo struct {
	lean   string
	named  *types.Named
	fields []*types.Var // supported fields only
	order  int
}

type fnInfo struct {
	key     string // types.Func full name
	lean    string
	pkg     *pkgInfo
	decl    *ast.FuncDecl
	obj     *types.Func
	params  []*types.Var // receiver first
	mut     []bool
	consume []bool
	// stateful callback parameters: the synthetic variable holding the callback's state
	cbState map[*types.Var]*types.Var
	results []*types.Var
	// opaque receiver: fields read become parameters
	opaqueRecv   *types.Var
	opaqueFields []*types.Var
	opaqueCalls  []opaqueCall
	order        int
}

type gen struct {
	nilable     map[types.Object]bool
	elemNilable map[types.Object]bool
	fset        *token.FileSet
	fns         map[string]*fnInfo
	order       []*fnInfo
	structs     map[string]*structInfo
	sorder      []*structInfo
}

func (g *gen) fail(n ast.Node, format string, a ...any) {
	panic(unsupported{n.Pos(), fmt.Sprintf(format, a...)})
}

func (g *gen) addFunc(p *pkgInfo, name string, fd *ast.FuncDecl) {
	obj := p.info.Defs[fd.Name].(*types.Func)
	sig := obj.Type().(*types.Signature)
	fi := &fnInfo{key: obj.FullName(), lean: p.short + "." + name, pkg: p, decl: fd, obj: obj, order: len(g.order)}
	if r := sig.Recv(); r != nil {
		if p.opaque[recvTypeName(fd.Recv.List[0].Type)] {
			fi.opaqueRecv = r
			// fields used
			seen := map[*types.Var]bool{}
			ast.Inspect(fd.Body, func(n ast.Node) bool {
				se, ok := n.(*ast.SelectorExpr)
				if !ok {
					return true
				}
				if id, ok := se.X.(*ast.Ident); ok && p.info.Uses[id] == r {
					if sel := p.info.Selections[se]; sel != nil && sel.Kind() == types.FieldVal {
						v := sel.Obj().(*types.Var)
						if _, isIface := v.Type().Underlying().(*types.Interface); isIface {
							return true // only used through calls: see opaqueCalls
						}
						if !seen[v] {
							seen[v] = true
							fi.opaqueFields = append(fi.opaqueFields, v)
						}
					}
				}
				return true
			})
			// calls without arguments through an interface-typed field of the opaque receiver (s.inner.MTU()): their
			// results become parameters
			ast.Inspect(fd.Body, func(n ast.Node) bool {
				call, ok := n.(*ast.CallExpr)
				if !ok || len(call.Args) != 0 {
					return true
				}
				if name, t := opaqueCallOf(p.info, r, call); name != "" {
					for _, oc := range fi.opaqueCalls {
						if oc.name == name {
							return true
						}
					}
					fi.opaqueCalls = append(fi.opaqueCalls, opaqueCall{name, t})
				}
				return true
			})
		} else {
			fi.params = append(fi.params, r)
		}
	}
	for i := 0; i < sig.Params().Len(); i++ {
		fi.params = append(fi.params, sig.Params().At(i))
	}
	for i := 0; i < sig.Results().Len(); i++ {
		fi.results = append(fi.results, sig.Results().At(i))
	}
	fi.mut = make([]bool, len(fi.params))
	fi.consume = make([]bool, len(fi.params))
	fi.cbState = map[*types.Var]*types.Var{}
	for i, v := range fi.params {
		fi.consume[i] = p.consume[name+"."+v.Name()]
		if p.stateful[name+"."+v.Name()] {
			if len(fi.cbState) > 0 {
				g.fail(fd, "more than one stateful callback")
			}
			fi.cbState[v] = types.NewVar(v.Pos(), nil, v.Name()+"_st", sigmaType)
		}
	}
	g.fns[fi.key] = fi
	g.order = append(g.order, fi)
}
