package main

import (
	"fmt"
	"go/ast"
	"go/constant"
	"go/token"
	"go/types"
	"io"
	"sort"
	"strconv"
	"strings"
)

type emitter struct {
	inReturn  bool // inside a return statement
	rawOpt    bool // read a nil-able location as the Option it is (for comparisons with nil)
	rawAssign bool // the value being assigned already has the representation of its target
	makeNone  bool // make([]T, n) for elements that can be nil
	g         *gen
	fi        *fnInfo
	info      *types.Info
	sb        *strings.Builder
	ind       int
	names     map[types.Object]string
	used      map[string]bool
	tmp       int
	calls     map[*fnInfo]bool
}

// ctx: where control goes from the statement being translated
type ctx struct {
	mtype   string                     // Lean type of a block in this context
	retVals func(vals []string) string // a `return v1, v2` in this context, as a terminal Lean expression
	named   []*types.Var               // named results (bare return)
	resT    []types.Type               // declared result types (for nil in return statements)
	brk     func() string
	cont    func() string
	// retRaw: pass on an already assembled result tuple of the enclosing function (after an inner loop returned)
	retRaw func(v string) string
	rho    string // inside a loop body: the type `.ret` carries (result of the enclosing function)
}

func (e *emitter) line(format string, a ...any) {
	e.sb.WriteString(strings.Repeat("  ", e.ind))
	fmt.Fprintf(e.sb, format, a...)
	e.sb.WriteString("\n")
}

func (e *emitter) fresh(prefix string) string {
	for {
		e.tmp++
		n := fmt.Sprintf("%s_%d", prefix, e.tmp)
		if !e.used[n] {
			e.used[n] = true
			return n
		}
	}
}

func (e *emitter) name(o types.Object) string {
	if n, ok := e.names[o]; ok {
		return n
	}
	base := o.Name()
	if base == "_" {
		base = "blank"
	}
	if leanKeywords[base] {
		base += "_"
	}
	n := base
	for i := 1; e.used[n]; i++ {
		n = fmt.Sprintf("%s_%d", base, i)
	}
	e.used[n] = true
	e.names[o] = n
	return n
}

func tuple(vals []string) string {
	switch len(vals) {
	case 0:
		return "()"
	case 1:
		return vals[0]
	}
	return "(" + strings.Join(vals, ", ") + ")"
}

func tupleType(ts []string) string {
	switch len(ts) {
	case 0:
		return "Unit"
	case 1:
		return ts[0]
	}
	return "(" + strings.Join(ts, " × ") + ")"
}

// ---------------------------------------------------------------- analyses

// falls: can control reach the end of this statement list?
func falls(list []ast.Stmt) bool {
	if len(list) == 0 {
		return true
	}
	return fallsStmt(list[len(list)-1])
}

func fallsStmt(s ast.Stmt) bool {
	switch t := s.(type) {
	case *ast.ReturnStmt, *ast.BranchStmt:
		return false
	case *ast.ExprStmt:
		if c, ok := t.X.(*ast.CallExpr); ok {
			if id, ok := c.Fun.(*ast.Ident); ok && id.Name == "panic" {
				return false
			}
		}
		return true
	case *ast.BlockStmt:
		return falls(t.List)
	case *ast.IfStmt:
		if t.Else == nil {
			return true
		}
		return falls(t.Body.List) || fallsStmt(t.Else)
	}
	return true
}

// assigned: variables assigned in the nodes that are declared outside them, in order of first assignment
func (e *emitter) assigned(nodes ...ast.Node) []*types.Var {
	var out []*types.Var
	seen := map[*types.Var]bool{}
	declared := map[types.Object]bool{}
	for _, n := range nodes {
		if n == nil {
			continue
		}
		ast.Inspect(n, func(n ast.Node) bool {
			if id, ok := n.(*ast.Ident); ok {
				if o := e.info.Defs[id]; o != nil {
					declared[o] = true
				}
			}
			return true
		})
	}
	add := func(x ast.Expr) {
		v := rootVar(e.info, x)
		if v == nil || declared[v] || seen[v] || v.Name() == "_" {
			return
		}
		seen[v] = true
		out = append(out, v)
	}
	for _, n := range nodes {
		if n == nil {
			continue
		}
		ast.Inspect(n, func(n ast.Node) bool {
			switch s := n.(type) {
			case *ast.AssignStmt:
				for _, l := range s.Lhs {
					add(l)
				}
			case *ast.IncDecStmt:
				add(s.X)
			case *ast.RangeStmt:
				if s.Tok == token.ASSIGN {
					if s.Key != nil {
						add(s.Key)
					}
					if s.Value != nil {
						add(s.Value)
					}
				}
			case *ast.CallExpr:
				if id, ok := s.Fun.(*ast.Ident); ok {
					if pv, ok := e.info.Uses[id].(*types.Var); ok {
						if st := e.fi.cbState[pv]; st != nil && !seen[st] {
							seen[st] = true
							out = append(out, st)
						}
					}
				}
				callee, lib := e.g.calleeOf(e.fi.pkg, s)
				if lib == "(*strings.Builder).Write" || lib == "(*strings.Builder).WriteString" {
					add(s.Fun.(*ast.SelectorExpr).X)
				}
				if callee != nil {
					for i, a := range e.g.callArgs(e.fi.pkg, s, callee) {
						if i < len(callee.mut) && callee.mut[i] {
							add(a)
						}
					}
				} else if k := libMutates(lib); k >= 0 && k < len(s.Args) {
					add(s.Args[k])
				}
			}
			return true
		})
	}
	return out
}

// ---------------------------------------------------------------- functions

func (g *gen) emitAll(w io.Writer, repo string) {
	// translate every function first (discovers structures and the call graph), then print in dependency order
	bodies := map[*fnInfo]string{}
	deps := map[*fnInfo]map[*fnInfo]bool{}
	for _, fi := range g.order {
		e := &emitter{g: g, fi: fi, info: fi.pkg.info, sb: &strings.Builder{}, names: map[types.Object]string{},
			used: map[string]bool{}, calls: map[*fnInfo]bool{}}
		e.function()
		bodies[fi] = e.sb.String()
		deps[fi] = e.calls
	}
	var sorted []*fnInfo
	state := map[*fnInfo]int{}
	var visit func(fi *fnInfo)
	visit = func(fi *fnInfo) {
		switch state[fi] {
		case 1:
			g.fail(fi.decl, "recursion through %s", fi.lean)
		case 2:
			return
		}
		state[fi] = 1
		var ds []*fnInfo
		for d := range deps[fi] {
			ds = append(ds, d)
		}
		sort.Slice(ds, func(i, j int) bool { return ds[i].order < ds[j].order })
		for _, d := range ds {
			visit(d)
		}
		state[fi] = 2
		sorted = append(sorted, fi)
	}
	for _, fi := range g.order {
		visit(fi)
	}
	fmt.Fprintf(w, "import P2PVerif.Src.Rt\n")
	fmt.Fprintf(w, "/-! GENERATED by harness/cmd/go2lean from the repository's Go source on every run of ./check — do not edit, never committed. -/\n")
	fmt.Fprintf(w, "set_option linter.unusedVariables false\nnamespace P2PVerif.Src\nopen P2PVerif\n\n")
	for _, si := range g.sorder {
		fmt.Fprintf(w, "structure %s where\n", si.lean)
		for _, f := range si.fields {
			fmt.Fprintf(w, "  %s : %s\n", leanField(f.Name()), g.typeOfVar(fi0(g), f))
		}
		if st, ok := si.named.Underlying().(*types.Struct); ok && hasFuncField(st) {
			fmt.Fprintf(w, "\n")
		} else {
			fmt.Fprintf(w, "deriving Repr, DecidableEq, Inhabited\n\n")
		}
	}
	for _, fi := range sorted {
		pos := g.fset.Position(fi.decl.Pos()).Filename
		pos = strings.TrimPrefix(pos, repo+"/")
		if i := strings.Index(pos, "/pkg/mod/"); i >= 0 {
			pos = pos[i+len("/pkg/mod/"):]
		}
		fmt.Fprintf(w, "/-- %s: %s -/\n", pos, fi.obj.FullName())
		io.WriteString(w, bodies[fi])
		io.WriteString(w, "\n")
	}
	fmt.Fprintf(w, "end P2PVerif.Src\n")
}

func fi0(g *gen) ast.Node { return g.order[0].decl }

func (e *emitter) paramUsed(v *types.Var) bool {
	used := false
	ast.Inspect(e.fi.decl.Body, func(n ast.Node) bool {
		if id, ok := n.(*ast.Ident); ok && e.info.Uses[id] == v {
			used = true
		}
		return !used
	})
	return used
}

func (e *emitter) function() {
	fi := e.fi
	var binders []string
	if tps := fi.obj.Type().(*types.Signature).TypeParams(); tps != nil {
		for i := 0; i < tps.Len(); i++ {
			tp := tps.At(i)
			if e.g.leanType(fi.decl, tp) == tp.Obj().Name() {
				binders = append(binders, fmt.Sprintf("{%s : Type} [Inhabited %s]", tp.Obj().Name(), tp.Obj().Name()))
			}
		}
	}
	for _, f := range fi.opaqueFields {
		n := fi.opaqueRecv.Name() + "_" + f.Name()
		e.used[n] = true
		binders = append(binders, fmt.Sprintf("(%s : %s)", n, e.g.typeOfVar(fi.decl, f)))
	}
	for _, oc := range fi.opaqueCalls {
		e.used[oc.name] = true
		binders = append(binders, fmt.Sprintf("(%s : %s)", oc.name, e.g.leanType(fi.decl, oc.typ)))
	}
	for _, p := range fi.params {
		if droppedField(p.Type()) {
			if e.paramUsed(p) {
				e.g.fail(fi.decl, "parameter %s of type %s is used", p.Name(), p.Type())
			}
			continue
		}
		if st := fi.cbState[p]; st != nil {
			sig := p.Type().Underlying().(*types.Signature)
			parts := []string{"σ"}
			for i := 0; i < sig.Params().Len(); i++ {
				parts = append(parts, e.g.leanType(fi.decl, sig.Params().At(i).Type()))
			}
			res := []string{"σ"}
			for i := 0; i < sig.Results().Len(); i++ {
				res = append(res, e.g.leanType(fi.decl, sig.Results().At(i).Type()))
			}
			binders = append([]string{"{σ : Type}"}, binders...)
			binders = append(binders, fmt.Sprintf("(%s : %s → Go.M (%s))", e.name(p), strings.Join(parts, " → "), strings.Join(res, " × ")))
			binders = append(binders, fmt.Sprintf("(%s : σ)", e.name(st)))
			continue
		}
		binders = append(binders, fmt.Sprintf("(%s : %s)", e.name(p), e.g.typeOfVar(fi.decl, p)))
	}
	var rts []string
	for _, r := range fi.results {
		rts = append(rts, e.g.leanType(fi.decl, r.Type()))
	}
	var mutParams []*types.Var
	for i, p := range fi.params {
		if fi.mut[i] {
			mutParams = append(mutParams, p)
			rts = append(rts, e.g.typeOfVar(fi.decl, p))
		}
	}
	for _, p := range fi.params {
		if st := fi.cbState[p]; st != nil {
			mutParams = append(mutParams, st)
			rts = append(rts, "σ")
		}
	}
	rt := tupleType(rts)
	e.line("def %s %s : Go.M %s := do", fi.lean, strings.Join(binders, " "), rt)
	e.ind++
	var named []*types.Var
	for _, r := range fi.results {
		if r.Name() != "" {
			named = append(named, r)
			e.line("let %s := %s", e.name(r), e.g.zero(fi.decl, r.Type()))
		}
	}
	if len(named) != 0 && len(named) != len(fi.results) {
		e.g.fail(fi.decl, "partly named results")
	}
	c := ctx{mtype: "Go.M " + rt, named: named}
	for _, r := range fi.results {
		c.resT = append(c.resT, r.Type())
	}
	c.retVals = func(vals []string) string {
		all := append([]string{}, vals...)
		for _, p := range mutParams {
			all = append(all, e.name(p))
		}
		return "pure " + tuple(all)
	}
	c.retRaw = func(v string) string { return "pure " + v }
	e.stmts(fi.decl.Body.List, c, nil)
	e.ind--
}

// end of a function body (or function literal) reached without a return statement
func (e *emitter) fallOff(c ctx, at ast.Node) {
	var vals []string
	for _, r := range c.named {
		vals = append(vals, e.name(r))
	}
	e.line("%s", c.retVals(vals))
}

// ---------------------------------------------------------------- statements

func (e *emitter) stmts(list []ast.Stmt, c ctx, k func()) {
	for i, s := range list {
		rest := list[i+1:]
		switch t := s.(type) {
		case *ast.ReturnStmt:
			e.returnStmt(t, c)
			return
		case *ast.BranchStmt:
			if t.Label != nil {
				e.g.fail(t, "labelled jump")
			}
			switch t.Tok {
			case token.BREAK:
				if c.brk == nil {
					e.g.fail(t, "break outside a loop")
				}
				e.line("%s", c.brk())
			case token.CONTINUE:
				if c.cont == nil {
					e.g.fail(t, "continue outside a loop")
				}
				e.line("%s", c.cont())
			default:
				e.g.fail(t, "branch statement %s", t.Tok)
			}
			return
		case *ast.IfStmt:
			e.ifStmt(t, rest, c, k)
			return
		case *ast.ForStmt:
			e.forStmt(t, rest, c, k)
			return
		case *ast.RangeStmt:
			e.rangeStmt(t, rest, c, k)
			return
		case *ast.BlockStmt:
			e.stmts(append(append([]ast.Stmt{}, t.List...), rest...), c, k)
			return
		case *ast.ExprStmt:
			if call, ok := t.X.(*ast.CallExpr); ok {
				if id, ok := call.Fun.(*ast.Ident); ok && id.Name == "panic" {
					if _, isB := e.info.Uses[id].(*types.Builtin); isB {
						msg := "panic"
						if tv, ok := e.info.Types[call.Args[0]]; ok && tv.Value != nil && tv.Value.Kind() == constant.String {
							msg = constant.StringVal(tv.Value)
						}
						e.line("throw (Go.Fault.panic %s)", strconv.Quote(msg))
						return
					}
				}
				if e.isLockCall(call) {
					continue
				}
				e.callStmt(call, nil, false)
				continue
			}
			e.g.fail(t, "expression statement")
		case *ast.DeferStmt:
			if e.isLockCall(t.Call) {
				continue
			}
			e.g.fail(t, "defer")
		case *ast.AssignStmt:
			e.assignStmt(t)
		case *ast.IncDecStmt:
			one := &ast.BasicLit{Kind: token.INT, Value: "1"}
			op := token.ADD
			if t.Tok == token.DEC {
				op = token.SUB
			}
			typ := e.info.Types[t.X].Type
			e.assignTo(t.X, e.binop(t, op, e.expr(t.X), e.constOf(one, typ, "1"), typ, typ, nil))
		case *ast.DeclStmt:
			gd := t.Decl.(*ast.GenDecl)
			if gd.Tok == token.CONST || gd.Tok == token.TYPE {
				continue
			}
			for _, sp := range gd.Specs {
				vs := sp.(*ast.ValueSpec)
				for j, id := range vs.Names {
					o := e.info.Defs[id]
					if j < len(vs.Values) {
						e.line("let %s := %s", e.name(o), e.expr(vs.Values[j]))
					} else {
						e.line("let %s := %s", e.name(o), e.g.zeroOfVar(id, o))
					}
				}
			}
		case *ast.EmptyStmt:
		default:
			e.g.fail(s, "statement %T", s)
		}
	}
	if k != nil {
		k()
	} else {
		e.fallOff(c, nil)
	}
}

func (e *emitter) isLockCall(call *ast.CallExpr) bool {
	se, ok := call.Fun.(*ast.SelectorExpr)
	if !ok {
		return false
	}
	switch se.Sel.Name {
	case "Lock", "Unlock", "RLock", "RUnlock":
		if tv, ok := e.info.Types[se.X]; ok && (isNamed(tv.Type, "sync", "Mutex") || isNamed(tv.Type, "sync", "RWMutex")) {
			return true
		}
	}
	return false
}

func (e *emitter) returnStmt(t *ast.ReturnStmt, c ctx) {
	e.inReturn = true
	defer func() { e.inReturn = false }()
	var vals []string
	if len(t.Results) == 0 {
		for _, r := range c.named {
			vals = append(vals, e.name(r))
		}
	} else {
		for i, r := range t.Results {
			if i < len(c.resT) && len(t.Results) == len(c.resT) {
				vals = append(vals, e.argExpr(r, c.resT[i]))
			} else {
				vals = append(vals, e.expr(r))
			}
		}
	}
	e.line("%s", c.retVals(vals))
}

func (e *emitter) ifStmt(s *ast.IfStmt, rest []ast.Stmt, c ctx, k func()) {
	if s.Init != nil {
		// the init statement's scope is the if statement; names are unique per object, so a flat let is right
		e.stmtsNoTerminal([]ast.Stmt{s.Init}, c)
	}
	cond := e.expr(s.Cond)
	after := func() { e.stmts(rest, c, k) }
	nfall := 0
	if falls(s.Body.List) {
		nfall++
	}
	if s.Else == nil || fallsStmt(s.Else) {
		nfall++
	}
	cont := after
	if nfall >= 2 && !(len(rest) == 0 && k == nil) {
		vars := e.assigned(s.Body, s.Else)
		kn := e.fresh("k")
		var ts, ns []string
		for _, v := range vars {
			ts = append(ts, e.g.typeOfVar(s, v))
			ns = append(ns, e.name(v))
		}
		if len(vars) == 0 {
			e.line("let %s : Unit → %s := fun _ => do", kn, c.mtype)
		} else {
			e.line("let %s : %s → %s := fun %s => do", kn, strings.Join(ts, " → "), c.mtype, strings.Join(ns, " "))
		}
		e.ind++
		after()
		e.ind--
		cont = func() {
			if len(ns) == 0 {
				e.line("%s ()", kn)
			} else {
				e.line("%s %s", kn, strings.Join(ns, " "))
			}
		}
	}
	e.line("if %s then", cond)
	e.ind++
	e.stmts(s.Body.List, c, cont)
	e.ind--
	e.line("else")
	e.ind++
	switch el := s.Else.(type) {
	case nil:
		cont()
	case *ast.BlockStmt:
		e.stmts(el.List, c, cont)
	case *ast.IfStmt:
		e.stmts([]ast.Stmt{el}, c, cont)
	default:
		e.g.fail(s, "else")
	}
	e.ind--
}

// stmtsNoTerminal translates simple statements (no control transfer) in place
func (e *emitter) stmtsNoTerminal(list []ast.Stmt, c ctx) {
	for _, s := range list {
		switch t := s.(type) {
		case *ast.AssignStmt:
			e.assignStmt(t)
		case *ast.ExprStmt:
			if call, ok := t.X.(*ast.CallExpr); ok {
				e.callStmt(call, nil, false)
				continue
			}
			e.g.fail(s, "init statement")
		case *ast.IncDecStmt:
			e.stmts([]ast.Stmt{t}, c, func() {})
		default:
			e.g.fail(s, "init statement %T", s)
		}
	}
}

func (e *emitter) stateOf(vars []*types.Var, at ast.Node) (pat, typ string) {
	var ns, ts []string
	for _, v := range vars {
		ns = append(ns, e.name(v))
		ts = append(ts, e.g.typeOfVar(at, v))
	}
	return tuple(ns), tupleType(ts)
}

func (e *emitter) loopCtx(c ctx, st, sty string) (ctx, string) {
	rty := strings.TrimPrefix(c.mtype, "Go.M ")
	// the result type of the enclosing function is what `.ret` carries; a nested loop has the same ρ
	if c.rho != "" {
		rty = c.rho
	}
	inner := ctx{named: c.named, resT: c.resT, rho: rty}
	inner.mtype = fmt.Sprintf("Go.M (Go.Ctl %s %s)", sty, paren(rty))
	inner.retVals = func(vals []string) string {
		// the full tuple of the enclosing function, wrapped
		full := c.retVals(vals)
		return wrapRet(full)
	}
	inner.retRaw = func(v string) string { return "pure (Go.Ctl.ret " + v + ")" }
	inner.brk = func() string { return "pure (Go.Ctl.brk " + st + ")" }
	inner.cont = func() string { return "pure (Go.Ctl.next " + st + ")" }
	return inner, rty
}

func paren(s string) string {
	if strings.ContainsAny(s, " ") && !strings.HasPrefix(s, "(") {
		return "(" + s + ")"
	}
	return s
}

// wrapRet turns the terminal expression of the enclosing context into the loop body's `.ret`
func wrapRet(full string) string {
	if strings.HasPrefix(full, "pure (Go.Ctl.ret ") {
		return full // already a loop-level return of the same ρ
	}
	return "pure (Go.Ctl.ret " + strings.TrimPrefix(full, "pure ") + ")"
}

func (e *emitter) afterLoop(r string, st string, c ctx, rest []ast.Stmt, k func()) {
	e.line("match %s with", r)
	v := e.fresh("v")
	e.line("| .ret %s => %s", v, c.retRaw(v))
	e.line("| .done %s =>", e.fresh("st"))
	e.ind++
	if st != "()" {
		e.line("let %s := %s", st, fmt.Sprintf("st_%d", e.tmp))
	}
	e.stmts(rest, c, k)
	e.ind--
}

func (e *emitter) stable(x ast.Expr, body ...ast.Node) bool {
	// the expression mentions no variable assigned in the body and calls nothing but len
	assigned := map[*types.Var]bool{}
	for _, v := range e.assigned(body...) {
		assigned[v] = true
	}
	ok := true
	ast.Inspect(x, func(n ast.Node) bool {
		switch t := n.(type) {
		case *ast.Ident:
			if v, isV := e.info.Uses[t].(*types.Var); isV && assigned[v] {
				ok = false
			}
		case *ast.CallExpr:
			if id, isId := t.Fun.(*ast.Ident); !isId || id.Name != "len" {
				ok = false
			}
		case *ast.IndexExpr, *ast.SliceExpr, *ast.StarExpr:
			ok = false
		}
		return ok
	})
	return ok
}

func (e *emitter) forStmt(s *ast.ForStmt, rest []ast.Stmt, c ctx, k func()) {
	// counted form: for i := lo; i < hi; i++ with i an int the body leaves alone and hi stable
	if as, ok := s.Init.(*ast.AssignStmt); ok && as.Tok == token.DEFINE && len(as.Lhs) == 1 && s.Cond != nil && s.Post != nil {
		iv := e.info.Defs[as.Lhs[0].(*ast.Ident)]
		if be, ok := s.Cond.(*ast.BinaryExpr); ok && be.Op == token.LSS && iv != nil {
			if id, ok := be.X.(*ast.Ident); ok && e.info.Uses[id] == iv {
				if inc, ok := s.Post.(*ast.IncDecStmt); ok && inc.Tok == token.INC {
					if id2, ok := inc.X.(*ast.Ident); ok && e.info.Uses[id2] == iv {
						if b, ok := iv.Type().Underlying().(*types.Basic); ok && b.Kind() == types.Int {
							bodyAssigned := e.assigned(s.Body)
							touched := false
							for _, v := range bodyAssigned {
								if v == iv {
									touched = true
								}
							}
							if !touched && e.stable(be.Y, s.Body) {
								lo := e.expr(as.Rhs[0])
								hi := e.expr(be.Y)
								st, sty := e.stateOf(bodyAssigned, s)
								inner, _ := e.loopCtx(c, st, sty)
								r := e.fresh("r")
								e.line("let %s ← Go.forRange %s %s %s (fun %s st => do", r, lo, hi, st, e.name(iv))
								e.ind += 2
								if st != "()" {
									e.line("let %s := st", st)
								}
								e.stmts(s.Body.List, inner, func() { e.line("%s", inner.cont()) })
								e.ind--
								e.line(")")
								e.ind--
								e.afterLoop(r, st, c, rest, k)
								return
							}
						}
					}
				}
			}
		}
	}
	// general form on fuel
	if s.Init != nil {
		e.stmtsNoTerminal([]ast.Stmt{s.Init}, c)
	}
	var postNode ast.Node
	if s.Post != nil {
		postNode = s.Post
	}
	vars := e.assigned(s.Body, postNode)
	st, sty := e.stateOf(vars, s)
	inner, _ := e.loopCtx(c, st, sty)
	r := e.fresh("r")
	e.line("let %s ← Go.loop Go.fuel %s", r, st)
	e.ind += 2
	e.line("(fun st => do")
	e.ind++
	if st != "()" {
		e.line("let %s := st", st)
	}
	if s.Cond != nil {
		e.line("pure %s", e.expr(s.Cond))
	} else {
		e.line("pure true")
	}
	e.ind--
	e.line(")")
	e.line("(fun st => do")
	e.ind++
	if st != "()" {
		e.line("let %s := st", st)
	}
	e.stmts(s.Body.List, inner, func() { e.line("%s", inner.cont()) })
	e.ind--
	e.line(")")
	e.line("(fun st => do")
	e.ind++
	if st != "()" {
		e.line("let %s := st", st)
	}
	if s.Post != nil {
		e.stmtsNoTerminal([]ast.Stmt{s.Post}, c)
	}
	e.line("pure %s", st)
	e.ind--
	e.line(")")
	e.ind -= 2
	e.afterLoop(r, st, c, rest, k)
}

func (e *emitter) rangeStmt(s *ast.RangeStmt, rest []ast.Stmt, c ctx, k func()) {
	if s.Tok == token.ASSIGN {
		e.g.fail(s, "range with assignment to existing variables")
	}
	xt := under(e.info.Types[s.X].Type)
	switch xt.(type) {
	case *types.Slice, *types.Array:
	default:
		e.g.fail(s, "range over %s", xt)
	}
	bodyAssigned := e.assigned(s.Body)
	st, sty := e.stateOf(bodyAssigned, s)
	inner, _ := e.loopCtx(c, st, sty)
	r := e.fresh("r")
	keyName := "_"
	if id, ok := s.Key.(*ast.Ident); ok && id.Name != "_" {
		keyName = e.name(e.info.Defs[id])
	}
	rootAssigned := false
	if rv := rootVar(e.info, s.X); rv != nil {
		for _, v := range bodyAssigned {
			if v == rv {
				rootAssigned = true
			}
		}
	}
	hasVal := false
	valName := "_"
	if id, ok := s.Value.(*ast.Ident); ok && id.Name != "_" {
		hasVal = true
		valName = e.name(e.info.Defs[id])
	}
	if hasVal && rootAssigned {
		e.g.fail(s, "range with a value variable over something the body writes")
	}
	if xo, el := e.g.pathObj(e.info, s.X); xo != nil && !el && e.g.elemNilable[xo] && hasVal {
		e.g.nilable[e.info.Defs[s.Value.(*ast.Ident)]] = true
	}
	x := e.expr(s.X)
	if hasVal {
		e.line("let %s ← Go.forEach %s 0 %s (fun %s %s st => do", r, x, st, keyName, valName)
	} else {
		e.line("let %s ← Go.forRange 0 (Go.len %s) %s (fun %s st => do", r, x, st, keyName)
	}
	e.ind += 2
	if st != "()" {
		e.line("let %s := st", st)
	}
	e.stmts(s.Body.List, inner, func() { e.line("%s", inner.cont()) })
	e.ind--
	e.line(")")
	e.ind--
	e.afterLoop(r, st, c, rest, k)
}
