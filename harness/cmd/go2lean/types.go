package main

import (
	"fmt"
	"go/ast"
	"go/types"
	"strings"
)

// ---------------------------------------------------------------- types

func isNamed(t types.Type, pkg, name string) bool {
	n, ok := t.(*types.Named)
	if !ok {
		return false
	}
	o := n.Obj()
	return o.Name() == name && o.Pkg() != nil && o.Pkg().Path() == pkg
}

func isErrorType(t types.Type) bool {
	n, ok := t.(*types.Named)
	return ok && n.Obj().Pkg() == nil && n.Obj().Name() == "error"
}

// supportedField: fields of these types are dropped from translated structures (sequential semantics, no clock)
func droppedField(t types.Type) bool {
	return isNamed(t, "sync", "Mutex") || isNamed(t, "sync", "RWMutex") || isNamed(t, "time", "Time")
}

func (g *gen) leanType(n ast.Node, t types.Type) string {
	if isErrorType(t) {
		return "Go.Err"
	}
	if t == sigmaType {
		return "σ"
	}
	switch u := t.(type) {
	case *types.Pointer:
		if _, ok := u.Elem().Underlying().(*types.Struct); ok {
			return g.leanType(n, u.Elem())
		}
	case *types.Named:
		if isNamed(u, "strings", "Builder") {
			return "Go.Bytes" // a strings.Builder is what has been written to it
		}
		if _, ok := u.Underlying().(*types.Struct); ok {
			return g.structOf(n, u).lean
		}
		return g.leanType(n, u.Underlying())
	case *types.Basic:
		switch u.Kind() {
		case types.Int, types.Int64, types.UntypedInt:
			return "Int"
		case types.Uint8:
			return "UInt8"
		case types.Uint16:
			return "UInt16"
		case types.Uint32:
			return "UInt32"
		case types.Uint64, types.Uint:
			return "UInt64"
		case types.Bool, types.UntypedBool:
			return "Bool"
		case types.String, types.UntypedString:
			return "Go.Bytes"
		}
	case *types.Slice:
		if el := g.leanType(n, u.Elem()); el != "UInt8" {
			return "(List " + el + ")"
		}
		return "Go.Bytes"
	case *types.Array:
		if el := g.leanType(n, u.Elem()); el != "UInt8" {
			return "(List " + el + ")"
		}
		return "Go.Bytes"
	case *types.Map:
		return "(Go.Map " + g.leanType(n, u.Key()) + " " + g.leanType(n, u.Elem()) + ")"
	case *types.Struct:
		if u.NumFields() == 0 {
			return "Unit"
		}
	case *types.TypeParam:
		if sl, ok := u.Underlying().(*types.Interface); ok && sl.NumEmbeddeds() == 1 {
			// a constraint such as ~[]E: the core type
			if un, ok := sl.EmbeddedType(0).(*types.Union); ok && un.Len() == 1 {
				return g.leanType(n, un.Term(0).Type())
			}
		}
		return u.Obj().Name()
	case *types.Signature:
		var parts []string
		for i := 0; i < u.Params().Len(); i++ {
			parts = append(parts, g.leanType(n, u.Params().At(i).Type()))
		}
		var res []string
		for i := 0; i < u.Results().Len(); i++ {
			res = append(res, g.leanType(n, u.Results().At(i).Type()))
		}
		r := "Unit"
		if len(res) > 0 {
			r = strings.Join(res, " × ")
		}
		parts = append(parts, "Go.M ("+r+")")
		return "(" + strings.Join(parts, " → ") + ")"
	}
	g.fail(n, "type %s", t)
	return ""
}

// under: the underlying type; for a type parameter whose constraint has a single term (S ~[]E) the core type
func under(t types.Type) types.Type {
	if tp, ok := t.(*types.TypeParam); ok {
		if in, ok := tp.Underlying().(*types.Interface); ok && in.NumEmbeddeds() == 1 {
			if un, ok := in.EmbeddedType(0).(*types.Union); ok && un.Len() == 1 {
				return un.Term(0).Type().Underlying()
			}
		}
	}
	return t.Underlying()
}

// zero value of a type, as Lean text
func (g *gen) zero(n ast.Node, t types.Type) string {
	if isErrorType(t) {
		return "(none : Go.Err)"
	}
	switch u := t.(type) {
	case *types.Pointer:
		return g.zero(n, u.Elem())
	case *types.Named:
		if isNamed(u, "strings", "Builder") {
			return "([] : Go.Bytes)"
		}
		if st, ok := u.Underlying().(*types.Struct); ok {
			si := g.structOf(n, u)
			var fs []string
			for _, f := range si.fields {
				fs = append(fs, fmt.Sprintf("%s := %s", leanField(f.Name()), g.zeroOfVar(n, f)))
			}
			_ = st
			return "({ " + strings.Join(fs, ", ") + " } : " + si.lean + ")"
		}
		return g.zero(n, u.Underlying())
	case *types.Basic:
		switch u.Kind() {
		case types.Bool:
			return "false"
		case types.String:
			return "([] : Go.Bytes)"
		default:
			return "(0 : " + g.leanType(n, t) + ")"
		}
	case *types.Slice, *types.Map:
		return "([] : " + g.leanType(n, t) + ")"
	case *types.Struct:
		if u.NumFields() == 0 {
			return "()"
		}
	case *types.TypeParam:
		if lt := g.leanType(n, t); lt != u.Obj().Name() {
			return "([] : " + lt + ")"
		}
		return "(default : " + u.Obj().Name() + ")"
	case *types.Array:
		return fmt.Sprintf("(List.replicate %d %s)", u.Len(), g.zero(n, u.Elem()))
	}
	g.fail(n, "zero value of %s", t)
	return ""
}

func (g *gen) structOf(n ast.Node, named *types.Named) *structInfo {
	key := named.Obj().Pkg().Path() + "." + named.Obj().Name()
	if si, ok := g.structs[key]; ok {
		return si
	}
	st := named.Underlying().(*types.Struct)
	si := &structInfo{lean: named.Obj().Pkg().Name() + "." + named.Obj().Name() + "T", named: named}
	g.structs[key] = si
	for i := 0; i < st.NumFields(); i++ {
		f := st.Field(i)
		if droppedField(f.Type()) {
			continue
		}
		si.fields = append(si.fields, f)
	}
	// field types may introduce further structures first
	for _, f := range si.fields {
		g.leanType(n, f.Type())
	}
	si.order = len(g.sorder)
	g.sorder = append(g.sorder, si)
	return si
}

var leanKeywords = map[string]bool{"end": true, "from": true, "at": true, "open": true, "in": true, "fun": true,
	"do": true, "then": true, "else": true, "if": true, "let": true, "have": true, "show": true, "match": true,
	"with": true, "where": true, "by": true, "class": true, "instance": true, "structure": true, "namespace": true,
	"section": true, "variable": true, "def": true, "theorem": true, "prefix": true, "local": true, "set": true,
	"new": false, "old": false, "mut": true, "for": true, "return": true, "pure": true, "some": true, "none": true,
	"true": true, "false": true, "Type": true, "Prop": true, "Sort": true, "using": true, "this": true, "s": false,
	"deriving": true, "extends": true, "abbrev": true, "example": true, "macro": true, "syntax": true, "notation": true,
	"infix": true, "import": true, "export": true, "private": true, "protected": true, "partial": true, "unsafe": true,
	"mutual": true, "exists": true, "forall": true, "universe": true, "axiom": true, "opaque": true, "calc": true, "nomatch": true, "suffices": true,
	"obtain": true, "exact": true, "break": true, "continue": true, "try": true, "catch": true, "finally": true,
	"unless": true, "throw": true, "len": true, "r": false}

func leanField(name string) string {
	if leanKeywords[name] {
		return name + "_"
	}
	return name
}

// ---------------------------------------------------------------- nil-ness of slices
//
// A slice-typed variable or field whose nil-ness the translated code observes (it is compared with nil somewhere) is
// translated as an `Option`: nil is `none`, every other value `some l`. Likewise the elements of a slice of slices
// whose elements are compared with nil. Everything else keeps nil = the empty list.

func (g *gen) pathObj(info *types.Info, x ast.Expr) (obj types.Object, elem bool) {
	for {
		p, ok := x.(*ast.ParenExpr)
		if !ok {
			break
		}
		x = p.X
	}
	switch t := x.(type) {
	case *ast.Ident:
		if o := info.Uses[t]; o != nil {
			return o, false
		}
		return info.Defs[t], false
	case *ast.SelectorExpr:
		if sel := info.Selections[t]; sel != nil && sel.Kind() == types.FieldVal {
			return sel.Obj(), false
		}
	case *ast.IndexExpr:
		o, el := g.pathObj(info, t.X)
		if o != nil && !el {
			return o, true
		}
	}
	return nil, false
}

func (g *gen) analyseNil() {
	g.nilable = map[types.Object]bool{}
	g.elemNilable = map[types.Object]bool{}
	for _, fi := range g.order {
		info := fi.pkg.info
		ast.Inspect(fi.decl.Body, func(n ast.Node) bool {
			be, ok := n.(*ast.BinaryExpr)
			if !ok {
				return true
			}
			for _, pair := range [][2]ast.Expr{{be.X, be.Y}, {be.Y, be.X}} {
				id, isId := pair[1].(*ast.Ident)
				if !isId || id.Name != "nil" || !info.Types[pair[1]].IsNil() {
					continue
				}
				switch info.Types[pair[0]].Type.Underlying().(type) {
				case *types.Slice, *types.Signature:
				default:
					continue
				}
				if o, el := g.pathObj(info, pair[0]); o != nil {
					if el {
						g.elemNilable[o] = true
					} else {
						g.nilable[o] = true
					}
				}
			}
			return true
		})
	}
}

// nilDefault: what reading a nil value of this type outside a nil comparison yields: the empty slice; for a function, a
// function that panics when it is called
func (g *gen) nilDefault(t types.Type) string {
	if sig, ok := t.Underlying().(*types.Signature); ok {
		n := sig.Params().Len()
		if n == 0 {
			n = 1
		}
		return "(fun" + strings.Repeat(" _", n) + " => throw (Go.Fault.panic \"call of a nil function\"))"
	}
	return "[]"
}

func hasFuncField(st *types.Struct) bool {
	for i := 0; i < st.NumFields(); i++ {
		if _, ok := st.Field(i).Type().Underlying().(*types.Signature); ok {
			return true
		}
	}
	return false
}

// typeOfVar: the Lean type of a variable or field, with the Option wrappers its observed nil-ness asks for
func (g *gen) typeOfVar(n ast.Node, v types.Object) string {
	t := g.leanType(n, v.Type())
	if g.elemNilable[v] {
		sl, ok := v.Type().Underlying().(*types.Slice)
		if !ok {
			g.fail(n, "nil-able elements of %s", v.Type())
		}
		t = "(List (Option " + g.leanType(n, sl.Elem()) + "))"
	}
	if g.nilable[v] {
		t = "(Option " + t + ")"
	}
	return t
}

func (g *gen) zeroOfVar(n ast.Node, v types.Object) string {
	if g.nilable[v] {
		return "(none : " + g.typeOfVar(n, v) + ")"
	}
	if g.elemNilable[v] {
		return "([] : " + g.typeOfVar(n, v) + ")"
	}
	return g.zero(n, v.Type())
}

// ---------------------------------------------------------------- mutation analysis

// rootVar returns the variable at the root of an lvalue-like expression (x, x.f, x[i], x[a:b], *x, (x))
func rootVar(info *types.Info, e ast.Expr) *types.Var {
	for {
		switch t := e.(type) {
		case *ast.Ident:
			if v, ok := info.Uses[t].(*types.Var); ok {
				return v
			}
			if v, ok := info.Defs[t].(*types.Var); ok {
				return v
			}
			return nil
		case *ast.SelectorExpr:
			if sel := info.Selections[t]; sel == nil || sel.Kind() != types.FieldVal {
				return nil
			}
			e = t.X
		case *ast.IndexExpr:
			e = t.X
		case *ast.SliceExpr:
			e = t.X
		case *ast.StarExpr:
			e = t.X
		case *ast.ParenExpr:
			e = t.X
		default:
			return nil
		}
	}
}

// sharesMemory: a value of this type can reach memory shared with the caller's copy
func sharesMemory(t types.Type) bool {
	switch u := t.Underlying().(type) {
	case *types.Slice, *types.Pointer:
		return true
	case *types.Struct:
		for i := 0; i < u.NumFields(); i++ {
			if !droppedField(u.Field(i).Type()) && sharesMemory(u.Field(i).Type()) {
				return true
			}
		}
	}
	return false
}

// libMutates: index of the argument a library routine writes through, or -1
func libMutates(name string) int {
	switch name {
	case "binary.BigEndian.PutUint16", "binary.BigEndian.PutUint32", "binary.BigEndian.PutUint64", "binary.PutUvarint", "copy",
		"golang.org/x/exp/slices.SortFunc", "slices.SortFunc":
		return 0
	}
	return -1
}

func (g *gen) calleeOf(p *pkgInfo, call *ast.CallExpr) (*fnInfo, string) {
	switch f := call.Fun.(type) {
	case *ast.Ident:
		switch o := p.info.Uses[f].(type) {
		case *types.Func:
			if fi, ok := g.fns[o.FullName()]; ok {
				return fi, ""
			}
			return nil, o.FullName()
		case *types.Builtin:
			return nil, o.Name()
		}
	case *ast.SelectorExpr:
		if sel := p.info.Selections[f]; sel != nil && sel.Kind() == types.MethodVal {
			o := sel.Obj().(*types.Func)
			// generic receivers: the method object of the instantiated type
			if fi, ok := g.fns[o.Origin().FullName()]; ok {
				return fi, ""
			}
			// library methods through package-level variables: binary.BigEndian.PutUint16
			if x, ok := f.X.(*ast.SelectorExpr); ok {
				if id, ok := x.X.(*ast.Ident); ok {
					if _, ok := p.info.Uses[id].(*types.PkgName); ok {
						return nil, id.Name + "." + x.Sel.Name + "." + f.Sel.Name
					}
				}
			}
			return nil, o.FullName()
		}
		if id, ok := f.X.(*ast.Ident); ok {
			if _, ok := p.info.Uses[id].(*types.PkgName); ok {
				if o, ok := p.info.Uses[f.Sel].(*types.Func); ok {
					if fi, ok := g.fns[o.FullName()]; ok {
						return fi, ""
					}
				}
				return nil, id.Name + "." + f.Sel.Name
			}
		}
	}
	return nil, ""
}

// argExprs: receiver first (for method calls on translated, non-opaque receivers)
func (g *gen) callArgs(p *pkgInfo, call *ast.CallExpr, fi *fnInfo) []ast.Expr {
	var args []ast.Expr
	if fi != nil && fi.decl.Recv != nil && fi.opaqueRecv == nil {
		args = append(args, call.Fun.(*ast.SelectorExpr).X)
	}
	return append(args, call.Args...)
}

func (g *gen) analyseMutation() {
	for changed := true; changed; {
		changed = false
		for _, fi := range g.order {
			idx := map[*types.Var]int{}
			for i, v := range fi.params {
				idx[v] = i
			}
			mark := func(v *types.Var) {
				if i, ok := idx[v]; ok && !fi.mut[i] && !fi.consume[i] {
					fi.mut[i] = true
					changed = true
				}
			}
			info := fi.pkg.info
			ast.Inspect(fi.decl.Body, func(n ast.Node) bool {
				switch s := n.(type) {
				case *ast.AssignStmt:
					for _, l := range s.Lhs {
						g.markWrite(fi, l, mark)
					}
				case *ast.IncDecStmt:
					g.markWrite(fi, s.X, mark)
				case *ast.CallExpr:
					callee, lib := g.calleeOf(fi.pkg, s)
					if callee != nil {
						args := g.callArgs(fi.pkg, s, callee)
						for i, a := range args {
							if i < len(callee.mut) && callee.mut[i] {
								if v := rootVar(info, a); v != nil {
									mark(v)
								}
							}
						}
					} else if k := libMutates(lib); k >= 0 && k < len(s.Args) {
						if v := rootVar(info, s.Args[k]); v != nil {
							mark(v)
						}
					}
				}
				return true
			})
		}
	}
}

// markWrite: an assignment to l changes memory the caller can see when it goes through an element of a slice
// reachable from a parameter, or through a field of a pointer parameter.
func (g *gen) markWrite(fi *fnInfo, l ast.Expr, mark func(*types.Var)) {
	info := fi.pkg.info
	v := rootVar(info, l)
	if v == nil {
		return
	}
	through := false // passes an index (slice element) or a pointer dereference on the way
	e := l
	for e != nil {
		switch t := e.(type) {
		case *ast.IndexExpr:
			if _, isArr := info.Types[t.X].Type.Underlying().(*types.Array); !isArr {
				through = true
			}
			e = t.X
		case *ast.SelectorExpr:
			if _, isPtr := info.Types[t.X].Type.Underlying().(*types.Pointer); isPtr {
				through = true
			}
			e = t.X
		case *ast.StarExpr:
			through = true
			e = t.X
		case *ast.ParenExpr:
			e = t.X
		case *ast.SliceExpr:
			e = t.X
		default:
			e = nil
		}
	}
	if through {
		mark(v)
	}
}
