package main

import (
	"bytes"
	"context"
	"fmt"
	"math/rand"
	"strconv"
	"strings"
	"time"

	"go.brendoncarroll.net/p2p"
	"go.brendoncarroll.net/p2p/f/x509"
	"go.brendoncarroll.net/p2p/f/x509/oids"
	"go.brendoncarroll.net/p2p/s/memswarm"
	"go.brendoncarroll.net/p2p/s/p2pkeswarm"
	"go.brendoncarroll.net/p2p/s/quicswarm"
	"go.brendoncarroll.net/p2p/s/udpswarm"
	"golang.org/x/crypto/sha3"
	"verifharness/internal/hx"
)

func init() {
	streams["key"] = keyStream
	replayers["key"] = func() replayFn { return keyReplay }
	oracles["key"] = keyOracle
}

func sign(x int) int {
	if x < 0 {
		return -1
	}
	if x > 0 {
		return 1
	}
	return 0
}

func parseArcs(s string) []int {
	if s == "-" {
		return nil
	}
	var ret []int
	for _, p := range strings.Split(s, ".") {
		n, _ := strconv.ParseUint(p, 10, 63)
		ret = append(ret, int(n))
	}
	return ret
}

func arcsStr(xs []int) string {
	if len(xs) == 0 {
		return "-"
	}
	ss := make([]string, len(xs))
	for i, x := range xs {
		ss[i] = strconv.Itoa(x)
	}
	return strings.Join(ss, ".")
}

func oidArcs(o oids.OID) []int {
	var ret []int
	for i := 0; i < o.Len(); i++ {
		ret = append(ret, int(o.At(i)))
	}
	return ret
}

func keyDo(op []string) string {
	return hx.Guard(func() string {
		switch op[0] {
		case "pid-marshal":
			t, err := pid(hx.UnHex(op[1])).MarshalText()
			if err != nil {
				return "err"
			}
			return hx.Hex(t)
		case "pid-unmarshal":
			var id p2p.PeerID
			for i := range id {
				id[i] = 0xee // poison: a failed parse must not be mistaken for a zero id
			}
			if err := id.UnmarshalText(hx.UnHex(op[1])); err != nil {
				return "err"
			}
			return "ok " + hx.Hex(id[:])
		case "pid-cmp":
			a, b := pid(hx.UnHex(op[1])), pid(hx.UnHex(op[2]))
			ta, _ := a.MarshalText()
			tb, _ := b.MarshalText()
			return fmt.Sprintf("t=%d b=%d", sign(bytes.Compare(ta, tb)), sign(a.Compare(b)))
		case "key-marshal":
			k := x509.PublicKey{Algorithm: oids.New(parseArcs(op[1])...), Data: hx.UnHex(op[2])}
			return hx.Hex(x509.MarshalPublicKey(nil, &k))
		case "key-parse":
			k, err := x509.ParsePublicKey(hx.UnHex(op[1]))
			if err != nil {
				return "err"
			}
			return "ok " + arcsStr(oidArcs(k.Algorithm)) + " " + hx.Hex(k.Data)
		case "key-equal":
			k1 := x509.PublicKey{Algorithm: oids.New(parseArcs(op[1])...), Data: hx.UnHex(op[2])}
			k2 := x509.PublicKey{Algorithm: oids.New(parseArcs(op[3])...), Data: hx.UnHex(op[4])}
			eq, enc := 0, 0
			if x509.EqualPublicKeys(&k1, &k2) {
				eq = 1
			}
			if bytes.Equal(x509.MarshalPublicKey(nil, &k1), x509.MarshalPublicKey(nil, &k2)) {
				enc = 1
			}
			return fmt.Sprintf("eq=%d enc=%d", eq, enc)
		}
		return "bad-op"
	})
}

func genPid(r *rand.Rand) []byte {
	b := make([]byte, 32)
	switch r.Intn(6) {
	case 0:
	case 1:
		for i := range b {
			b[i] = 0xff
		}
	case 2:
		b[r.Intn(32)] = byte(1 << uint(r.Intn(8)))
	default:
		r.Read(b)
	}
	return b
}

func genArcs(r *rand.Rand, valid bool) []int {
	edge := func() int {
		return hx.Pick(r, 0, 1, 39, 40, 127, 128, 16383, 16384, 1<<21-1, 1<<21, 1<<28, 1<<31-1, r.Intn(1<<31), r.Intn(300))
	}
	if valid && r.Intn(4) == 0 {
		// the algorithm identifiers the library itself knows (code may special-case them), with any key body
		return append([]int{}, hx.Pick(r, []int{1, 3, 101, 112}, []int{1, 3, 101, 113}, []int{1, 2, 840, 113549, 1, 1, 1}, []int{1, 2, 840, 10045, 2, 1}, []int{1, 3, 101, 110})...)
	}
	var xs []int
	a := r.Intn(3)
	b := r.Intn(40)
	if a == 2 {
		b = hx.Pick(r, 0, 39, 40, 47, 48, 127, 999, 1<<31-1-80, r.Intn(1<<20))
	}
	xs = append(xs, a, b)
	for i := r.Intn(6); i > 0; i-- {
		xs = append(xs, edge())
	}
	if !valid {
		switch r.Intn(5) {
		case 0:
			xs = xs[:r.Intn(2)] // fewer than two arcs
		case 1:
			xs[0] = 3 + r.Intn(5)
		case 2:
			xs[0], xs[1] = r.Intn(2), 40+r.Intn(100)
		case 3:
			xs = append(xs, 1<<31+r.Intn(1000))
		case 4:
			xs[0], xs[1] = 2, 1<<31-80+r.Intn(1000)
		}
	}
	return xs
}

func genKeyData(r *rand.Rand) []byte {
	n := hx.Pick(r, 0, 1, 32, 32, 32, 100, 117, 118, 119, 120, 121, 122, 123, 124, 125, 126, 127, 128, 200, 255, 256, 300, r.Intn(300))
	if r.Intn(200) == 0 {
		n = hx.Pick(r, 65535, 65536, 70000)
	}
	return hx.Bytes(r, n)
}

func mutateDER(r *rand.Rand, d []byte) []byte {
	d = append([]byte{}, d...)
	switch r.Intn(8) {
	case 0:
		if len(d) > 0 {
			d = d[:r.Intn(len(d))]
		}
	case 1:
		d = append(d, hx.Bytes(r, 1+r.Intn(3))...)
	case 2, 3:
		if len(d) > 0 {
			d[r.Intn(min(len(d), 16))] ^= byte(1 << uint(r.Intn(8)))
		}
	case 4: // non-minimal outer length
		if len(d) > 2 && d[1] < 128 {
			d = append([]byte{d[0], 0x81, d[1]}, d[2:]...)
		}
	case 5:
		d = hx.Bytes(r, r.Intn(40))
	case 6: // parameters NULL inside the algorithm identifier (valid DER that the strict model does not accept)
		return d
	default:
		if len(d) > 0 {
			d[r.Intn(len(d))] = byte(r.Intn(256))
		}
	}
	return d
}

var b64alpha = p2p.Base64Alphabet

func mutateText(r *rand.Rand, t []byte) []byte {
	t = append([]byte{}, t...)
	switch r.Intn(8) {
	case 0:
		t[r.Intn(len(t))] = hx.Pick(r, byte('!'), '=', '+', '/', ' ', 0, 0xff, '.', '@')
	case 1:
		t[r.Intn(len(t))] = hx.Pick(r, byte('\n'), '\r')
	case 2: // non-canonical trailing bits
		i := strings.IndexByte(b64alpha, t[len(t)-1])
		t[len(t)-1] = b64alpha[(i&^3)|(1+r.Intn(3))]
	case 3:
		t = t[:r.Intn(len(t))]
	case 4:
		t = append(t, b64alpha[r.Intn(64)])
	case 5:
		for i := range t {
			t[i] = '!'
		}
	case 6:
		t[r.Intn(len(t))] = b64alpha[r.Intn(64)]
	case 7:
		t = hx.Bytes(r, 43)
	}
	return t
}

func keyStream(r *rand.Rand, n int, tier string, o *hx.Out) {
	emit := func(kind string, op ...string) {
		o.Emit("key/"+kind, true, strings.Join(op, " "), keyDo(op))
	}
	for i := 0; i < n; i++ {
		switch r.Intn(7) {
		case 0:
			id := genPid(r)
			emit("pid-marshal", "pid-marshal", hx.Hex(id))
			t, _ := pid(id).MarshalText()
			emit("pid-unmarshal", "pid-unmarshal", hx.Hex(t))
		case 1:
			t, _ := pid(genPid(r)).MarshalText()
			emit("pid-unmarshal-bad", "pid-unmarshal", hx.Hex(mutateText(r, t)))
		case 2:
			a, b := genPid(r), genPid(r)
			if r.Intn(3) == 0 {
				b = append([]byte{}, a...)
				b[r.Intn(32)] ^= byte(1 << uint(r.Intn(8)))
			}
			emit("pid-cmp", "pid-cmp", hx.Hex(a), hx.Hex(b))
		case 3:
			arcs, data := genArcs(r, r.Intn(6) > 0), genKeyData(r)
			emit("key-marshal", "key-marshal", arcsStr(arcs), hx.Hex(data))
			k := x509.PublicKey{Algorithm: oids.New(arcs...), Data: data}
			emit("key-parse", "key-parse", hx.Hex(x509.MarshalPublicKey(nil, &k)))
		case 4:
			arcs, data := genArcs(r, true), hx.Bytes(r, r.Intn(40))
			k := x509.PublicKey{Algorithm: oids.New(arcs...), Data: data}
			emit("key-parse-mut", "key-parse", hx.Hex(mutateDER(r, x509.MarshalPublicKey(nil, &k))))
		default:
			a1, d1 := genArcs(r, true), hx.Bytes(r, r.Intn(6))
			a2, d2 := a1, d1
			switch r.Intn(4) {
			case 0:
				a2 = genArcs(r, true)
			case 1:
				d2 = hx.Bytes(r, r.Intn(6))
			case 2:
				d2 = append(append([]byte{}, d1...), 0)
			}
			emit("key-equal", "key-equal", arcsStr(a1), hx.Hex(d1), arcsStr(a2), hx.Hex(d2))
		}
	}
}

func keyReplay(op []string, o *hx.Out) {
	o.Emit("key/"+op[0], true, strings.Join(op, " "), keyDo(op))
}

// keyOracle: C17 stated on the implementation.
func keyOracle(r *rand.Rand, n int, tier string, infile string) (cases int, fails []string) {
	fail := func(f string, a ...any) {
		if len(fails) < 30 {
			fails = append(fails, fmt.Sprintf(f, a...))
		}
	}
	checkPid := func(id []byte) {
		cases++
		p := pid(id)
		t, _ := p.MarshalText()
		var q p2p.PeerID
		if err := q.UnmarshalText(t); err != nil || q != p {
			fail("peer id %s does not round-trip through text %q (err=%v)", hx.Hex(id), t, err)
		}
	}
	checkText := func(t []byte) {
		cases++
		var q p2p.PeerID
		res := hx.Guard(func() string {
			if err := q.UnmarshalText(t); err != nil {
				return "err"
			}
			return "ok"
		})
		if res == "fault" {
			fail("UnmarshalText panics on %s", hx.Hex(t))
		}
		if res == "ok" {
			back, _ := q.MarshalText()
			if !bytes.Equal(back, t) {
				fail("UnmarshalText accepts %s (%q) which is not the encoding of the id it yields (%q)", hx.Hex(t), t, back)
			}
		}
	}
	checkOrder := func(a, b []byte) {
		cases++
		ta, _ := pid(a).MarshalText()
		tb, _ := pid(b).MarshalText()
		if sign(bytes.Compare(ta, tb)) != sign(bytes.Compare(a, b)) {
			fail("text order differs from byte order for %s vs %s", hx.Hex(a), hx.Hex(b))
		}
	}
	checkKey := func(arcs []int, data []byte) {
		cases++
		k := x509.PublicKey{Algorithm: oids.New(arcs...), Data: data}
		enc := x509.MarshalPublicKey(nil, &k)
		k2, err := x509.ParsePublicKey(enc)
		if err != nil || !x509.EqualPublicKeys(&k, &k2) {
			fail("public key oid=%s len(data)=%d does not round-trip: err=%v", arcsStr(arcs), len(data), err)
			return
		}
		// the fingerprint is a function of the key alone: identical for the key and its re-parsed copy, and it is
		// the hash of the canonical encoding at every computation site of one swarm package
		if p2pkeswarm.DefaultFingerprinter(&k) != p2pkeswarm.DefaultFingerprinter(&k2) {
			fail("p2pkeswarm fingerprint differs between a key and its re-parsed copy oid=%s", arcsStr(arcs))
		}
		if quicswarm.DefaultFingerprinter(k) != quicswarm.DefaultFingerprinter(k2) {
			fail("quicswarm fingerprint differs between a key and its re-parsed copy oid=%s", arcsStr(arcs))
		}
		var want p2p.PeerID
		sha3.ShakeSum256(want[:], enc)
		if p2pkeswarm.DefaultFingerprinter(&k) != want {
			fail("p2pkeswarm fingerprint is not the hash of the canonical key encoding oid=%s", arcsStr(arcs))
		}
		if quicswarm.DefaultFingerprinter(k) != p2p.PeerID(sha3.Sum256(enc)) {
			fail("quicswarm fingerprint is not the hash of the canonical key encoding oid=%s", arcsStr(arcs))
		}
	}
	// two different keys whose (object identifier text, key bytes) run together to the same string: "1.3.101.11"+"2"+X and
	// "1.3.101.112"+X, "1.3.101"+".1"+X and "1.3.101.1"+X. Whatever one of them was given, the other must still get the
	// hash of ITS canonical encoding (a fingerprint is a function of the key alone, not of what was fingerprinted before).
	checkRunTogether := func(arcs []int, d int, x []byte) {
		last := arcs[len(arcs)-1]
		longer := append(append([]int{}, arcs[:len(arcs)-1]...), last*10+d)
		deeper := append(append([]int{}, arcs...), d)
		checkKey(arcs, append([]byte(strconv.Itoa(d)), x...))
		checkKey(longer, x)
		checkKey(arcs, append([]byte("."+strconv.Itoa(d)), x...))
		checkKey(deeper, x)
		checkKey(longer, x)
		checkKey(arcs, append([]byte(strconv.Itoa(d)), x...))
	}
	checkEq := func(a1 []int, d1 []byte, a2 []int, d2 []byte) {
		cases++
		k1 := x509.PublicKey{Algorithm: oids.New(a1...), Data: d1}
		k2 := x509.PublicKey{Algorithm: oids.New(a2...), Data: d2}
		if x509.EqualPublicKeys(&k1, &k2) != bytes.Equal(x509.MarshalPublicKey(nil, &k1), x509.MarshalPublicKey(nil, &k2)) {
			fail("EqualPublicKeys disagrees with equality of encodings: %s/%s vs %s/%s", arcsStr(a1), hx.Hex(d1), arcsStr(a2), hx.Hex(d2))
		}
	}
	for _, op := range readOps(infile) {
		switch op[0] {
		case "pid-marshal":
			checkPid(hx.UnHex(op[1]))
		case "pid-unmarshal":
			checkText(hx.UnHex(op[1]))
		case "pid-cmp":
			checkOrder(hx.UnHex(op[1]), hx.UnHex(op[2]))
		case "key-marshal":
			if arcs := parseArcs(op[1]); validArcs(arcs) {
				checkKey(arcs, hx.UnHex(op[2]))
			}
		case "key-equal":
			checkEq(parseArcs(op[1]), hx.UnHex(op[2]), parseArcs(op[3]), hx.UnHex(op[4]))
		}
	}
	for i := 0; i < n; i++ {
		id := genPid(r)
		checkPid(id)
		t, _ := pid(id).MarshalText()
		checkText(mutateText(r, t))
		b := append([]byte{}, id...)
		b[r.Intn(32)] ^= byte(1 << uint(r.Intn(8)))
		checkOrder(id, b)
		checkOrder(genPid(r), genPid(r))
		a1, d1 := genArcs(r, true), genKeyData(r)
		checkKey(a1, d1)
		checkEq(a1, d1, genArcs(r, true), d1)
		checkEq(a1, d1, a1, append(append([]byte{}, d1...), 0))
		if i%8 == 0 && len(a1) >= 3 && a1[len(a1)-1] < 1<<26 {
			checkRunTogether(a1, 1+r.Intn(9), genKeyData(r))
		}
	}
	if oracleOffset == 0 {
		cases += fingerprinterLayersCase(fail)
	}
	return cases, fails
}

func validArcs(xs []int) bool {
	if len(xs) < 2 || xs[0] > 2 || (xs[0] < 2 && xs[1] >= 40) || 40*xs[0]+xs[1] >= 1<<31 {
		return false
	}
	for _, x := range xs[2:] {
		if x >= 1<<31 {
			return false
		}
	}
	return true
}

// fingerprinterLayersCase (C17, "identical across every layer that computes it"): swarms configured with a fingerprint
// function of their own. The identity a node advertises (LocalAddrs), the one it is known by to its peers (Src of what
// it sends), the one it is addressed by (Dst of what it receives) and the fingerprint of the key LookupPublicKey
// returns are all that function applied to the node's public key.
func fingerprinterLayersCase(fail func(string, ...any)) (cases int) {
	custom := func(k *x509.PublicKey) p2p.PeerID {
		return p2p.PeerID(sha3.Sum256(append([]byte("verif:"), x509.MarshalPublicKey(nil, k)...)))
	}
	// p2pkeswarm over the in-memory transport
	{
		cases++
		realm := memswarm.NewRealm(memswarm.WithQueueLen(16))
		a := p2pkeswarm.New[memswarm.Addr](realm.NewSwarm(), testPrivKey(501), p2pkeswarm.WithFingerprinter[memswarm.Addr](custom))
		b := p2pkeswarm.New[memswarm.Addr](realm.NewSwarm(), testPrivKey(502), p2pkeswarm.WithFingerprinter[memswarm.Addr](custom))
		pubA, pubB := a.PublicKey(), b.PublicKey()
		idA, idB := custom(&pubA), custom(&pubB)
		if got := a.LocalAddrs()[0].ID; got != idA {
			fail("p2pkeswarm with a configured fingerprinter advertises the identity %v, the fingerprint of its key is %v", got, idA)
		}
		type seen struct {
			src, dst, lk p2p.PeerID
			lkErr        error
		}
		ch := make(chan seen, 1)
		go b.Receive(context.Background(), func(m p2p.Message[p2pkeswarm.Addr[memswarm.Addr]]) {
			lctx, cf := context.WithTimeout(context.Background(), time.Second)
			defer cf()
			var lk p2p.PeerID
			pk, err := b.LookupPublicKey(lctx, m.Src)
			if err == nil {
				lk = custom(&pk)
			}
			ch <- seen{m.Src.ID, m.Dst.ID, lk, err}
		})
		ctx, cf := context.WithTimeout(context.Background(), 3*time.Second)
		err := a.Tell(ctx, b.LocalAddrs()[0], p2p.IOVec{[]byte("who am i")})
		cf()
		if err != nil {
			fail("p2pkeswarm with a configured fingerprinter: Tell to the address the peer advertises fails: %v", err)
		} else {
			select {
			case s := <-ch:
				if s.src != idA || s.dst != idB || s.lkErr != nil || s.lk != idA {
					fail("p2pkeswarm with a configured fingerprinter: message from %v to %v arrives as from %v to %v; the key looked up for its source has fingerprint %v (err=%v)", idA, idB, s.src, s.dst, s.lk, s.lkErr)
				}
			case <-time.After(3 * time.Second):
				fail("p2pkeswarm with a configured fingerprinter: a message told to the address the peer advertises is not delivered")
			}
		}
		a.Close()
		b.Close()
	}
	// quicswarm over UDP (skipped when the sockets cannot be had)
	qcustom := func(k x509.PublicKey) p2p.PeerID { return custom(&k) }
	qa, err1 := quicswarm.NewOnUDP("127.0.0.1:0", testPrivKey(503), quicswarm.WithFingerprinter[udpswarm.Addr](qcustom))
	qb, err2 := quicswarm.NewOnUDP("127.0.0.1:0", testPrivKey(504), quicswarm.WithFingerprinter[udpswarm.Addr](qcustom))
	if err1 == nil && err2 == nil {
		cases++
		idA, idB := qcustom(qa.PublicKey()), qcustom(qb.PublicKey())
		if got := qa.LocalAddrs()[0].ID; got != idA {
			fail("quicswarm with a configured fingerprinter advertises the identity %v, the fingerprint of its key is %v", got, idA)
		}
		ch := make(chan [2]p2p.PeerID, 1)
		go qb.Receive(context.Background(), func(m p2p.Message[quicswarm.Addr[udpswarm.Addr]]) { ch <- [2]p2p.PeerID{m.Src.ID, m.Dst.ID} })
		ctx, cf := context.WithTimeout(context.Background(), 3*time.Second)
		err := qa.Tell(ctx, qb.LocalAddrs()[0], p2p.IOVec{[]byte("who am i")})
		cf()
		if err == nil {
			select {
			case s := <-ch:
				if s[0] != idA || s[1] != idB {
					fail("quicswarm with a configured fingerprinter: message from %v to %v arrives as from %v to %v", idA, idB, s[0], s[1])
				}
			case <-time.After(3 * time.Second):
			}
		} else if !strings.Contains(err.Error(), "deadline") && !strings.Contains(err.Error(), "timeout") {
			fail("quicswarm with a configured fingerprinter: Tell to the address the peer advertises fails: %v", err)
		}
	}
	if qa != nil {
		qa.Close()
	}
	if qb != nil {
		qb.Close()
	}
	return cases
}
