package main

import (
	"context"
	"fmt"
	"math/rand"
	"strconv"
	"strings"
	"runtime"
	"sync"
	"sync/atomic"
	"time"

	"go.brendoncarroll.net/p2p"
	"go.brendoncarroll.net/p2p/s/memswarm"
	"go.brendoncarroll.net/p2p/s/swarmutil"
	"verifharness/internal/hx"
)

func init() {
	streams["hub"] = hubStream
	replayers["hub"] = func() replayFn { st := &hubState{}; return st.apply }
	oracles["hub"] = hubOracle
}

type hubPart struct {
	mu      sync.Mutex
	state   string // blocked | cb<d> | ok | ok<n> | ctx | closed | nil
	cancel  context.CancelFunc
	release chan int
}

func (p *hubPart) set(s string) { p.mu.Lock(); p.state = s; p.mu.Unlock() }
func (p *hubPart) get() string  { p.mu.Lock(); defer p.mu.Unlock(); return p.state }

type hubState struct {
	kind string
	tell swarmutil.TellHub[memswarm.Addr]
	ask  swarmutil.AskHub[memswarm.Addr]
	rs   []*hubPart
	ds   []*hubPart
	// queue scenario
	q      *swarmutil.Queue[memswarm.Addr]
	qparts map[int]*hubPart
	qgot   map[int]string
	qcb    int
}

func errStr(err error) string {
	switch {
	case err == nil:
		return "nil"
	case err == context.Canceled || err == context.DeadlineExceeded:
		return "ctx"
	case p2p.IsErrClosed(err):
		return "closed"
	}
	return "err:" + err.Error()
}

func (st *hubState) obs() string {
	var parts []string
	for i, r := range st.rs {
		parts = append(parts, fmt.Sprintf("R%d:%s", i, r.get()))
	}
	for i, d := range st.ds {
		parts = append(parts, fmt.Sprintf("D%d:%s", i, d.get()))
	}
	if len(parts) == 0 {
		return "-"
	}
	return strings.Join(parts, " ")
}

// settle waits until the observable state has been stable for a few milliseconds.
func settle(obs func() string) string {
	last := obs()
	stable := 0
	for i := 0; i < 400 && stable < 4; i++ {
		time.Sleep(250 * time.Microsecond)
		cur := obs()
		if cur == last {
			stable++
		} else {
			stable = 0
			last = cur
		}
	}
	return last
}

func (st *hubState) qObs() string {
	cb := 0
	wait := 0
	for _, p := range st.qparts {
		switch {
		case strings.HasPrefix(p.get(), "cb"):
			cb++
		case p.get() == "blocked":
			wait++
		}
	}
	return fmt.Sprintf("len=%d free=%d cb=%d wait=%d", st.q.Len(), st.q.Cap()-st.q.Len()-cb, cb, wait)
}

func (st *hubState) apply(op []string, o *hx.Out) {
	line := strings.Join(op, " ")
	atoi := func(s string) int { n, _ := strconv.Atoi(s); return n }
	res := hx.Guard(func() string {
		switch op[0] {
		case "hub-new":
			for _, p := range append(append([]*hubPart{}, st.rs...), st.ds...) {
				p.cancel()
				select {
				case p.release <- 0:
				default:
				}
			}
			*st = hubState{kind: op[1]}
			st.tell = swarmutil.NewTellHub[memswarm.Addr]()
			st.ask = swarmutil.NewAskHub[memswarm.Addr]()
			return "ok"
		case "recv":
			ctx, cf := context.WithCancel(context.Background())
			p := &hubPart{state: "blocked", cancel: cf, release: make(chan int, 1)}
			st.rs = append(st.rs, p)
			go func() {
				var err error
				if st.kind == "tell" {
					err = st.tell.Receive(ctx, func(m p2p.Message[memswarm.Addr]) {
						p.set("cb" + strconv.Itoa(m.Src.N))
						<-p.release
					})
				} else {
					err = st.ask.ServeAsk(ctx, func(ctx context.Context, resp []byte, m p2p.Message[memswarm.Addr]) int {
						p.set("cb" + strconv.Itoa(m.Src.N))
						return <-p.release
					})
				}
				if err == nil {
					if strings.HasPrefix(p.get(), "cb") {
						p.set("ok")
					} else {
						p.set("nil")
					}
				} else {
					p.set(errStr(err))
				}
			}()
			return settle(st.obs)
		case "deliver":
			ctx, cf := context.WithCancel(context.Background())
			p := &hubPart{state: "blocked", cancel: cf, release: make(chan int, 1)}
			id := len(st.ds)
			st.ds = append(st.ds, p)
			msg := p2p.Message[memswarm.Addr]{Src: memswarm.Addr{N: id}, Payload: []byte{byte(id)}}
			go func() {
				if st.kind == "tell" {
					err := st.tell.Deliver(ctx, msg)
					if err == nil {
						p.set("ok0")
					} else {
						p.set(errStr(err))
					}
				} else {
					n, err := st.ask.Deliver(ctx, make([]byte, 8), msg)
					if err == nil {
						p.set("ok" + strconv.Itoa(n))
					} else {
						p.set(errStr(err))
					}
				}
			}()
			return settle(st.obs)
		case "cancel-r":
			st.rs[atoi(op[1])].cancel()
			return settle(st.obs)
		case "cancel-d":
			st.ds[atoi(op[1])].cancel()
			return settle(st.obs)
		case "close":
			if st.kind == "tell" {
				st.tell.CloseWithError(nil)
			} else {
				st.ask.Close()
			}
			return settle(st.obs)
		case "release":
			p := st.rs[atoi(op[1])]
			if !strings.HasPrefix(p.get(), "cb") {
				return "not-enabled"
			}
			p.release <- atoi(op[2])
			return settle(st.obs)
		case "q-new":
			if st.q != nil {
				for _, p := range st.qparts {
					p.cancel()
					select {
					case p.release <- 0:
					default:
					}
				}
			}
			q := swarmutil.NewQueue[memswarm.Addr](atoi(op[1]), atoi(op[2]))
			st.q = &q
			st.qparts = map[int]*hubPart{}
			return "ok"
		case "q-deliver":
			src, n := atoi(op[1]), atoi(op[2])
			payload := make([]byte, n)
			for i := range payload {
				payload[i] = byte(src)
			}
			var ok bool
			if op[3] == "1" {
				ok = st.q.DeliverVec(memswarm.Addr{N: src}, memswarm.Addr{}, p2p.IOVec{payload})
			} else {
				ok = st.q.Deliver(p2p.Message[memswarm.Addr]{Src: memswarm.Addr{N: src}, Payload: payload})
			}
			got := ""
			settle(st.qObs)
			for r, p := range st.qparts {
				if s := p.get(); strings.HasPrefix(s, "cbnew:") {
					got = fmt.Sprintf(" got=%d:%s", r, strings.TrimPrefix(s, "cbnew:"))
					p.set("cb")
				}
			}
			b := 0
			if ok {
				b = 1
			}
			return fmt.Sprintf("%d%s %s", b, got, st.qObs())
		case "q-recv":
			r := atoi(op[1])
			ctx, cf := context.WithCancel(context.Background())
			p := &hubPart{state: "blocked", cancel: cf, release: make(chan int, 1)}
			st.qparts[r] = p
			go func() {
				err := st.q.Receive(ctx, func(m p2p.Message[memswarm.Addr]) {
					p.set(fmt.Sprintf("cbnew:%d:%d", m.Src.N, len(m.Payload)))
					<-p.release
				})
				if err == nil {
					p.set("done")
				} else {
					p.set(errStr(err))
				}
			}()
			settle(st.qObs)
			s := p.get()
			switch {
			case strings.HasPrefix(s, "cbnew:"):
				p.set("cb")
				return fmt.Sprintf("got=%d:%s %s", r, strings.TrimPrefix(s, "cbnew:"), st.qObs())
			case s == "blocked":
				return "blocked " + st.qObs()
			default:
				return s + " " + st.qObs()
			}
		case "q-late-deliver":
			src, n := atoi(op[1]), atoi(op[2])
			payload := make([]byte, n)
			var ok bool
			if op[3] == "1" {
				ok = st.q.DeliverVec(memswarm.Addr{N: src}, memswarm.Addr{}, p2p.IOVec{payload})
			} else {
				ok = st.q.Deliver(p2p.Message[memswarm.Addr]{Src: memswarm.Addr{N: src}, Payload: payload})
			}
			return fmt.Sprintf("%v len=%d", ok, st.q.Len())
		case "q-late-recv":
			res := make(chan string, 1)
			go func() {
				got := ""
				err := st.q.Receive(context.Background(), func(m p2p.Message[memswarm.Addr]) { got = fmt.Sprintf("got=%d:%d", m.Src.N, len(m.Payload)) })
				if err == nil {
					res <- "nil " + got
				} else {
					res <- errStr(err)
				}
			}()
			select {
			case x := <-res:
				return fmt.Sprintf("%s len=%d", x, st.q.Len())
			case <-time.After(500 * time.Millisecond):
				return "blocks"
			}
		case "q-recv-done": // Receive with a context that is already done: it may take a message or not, but never lose one
			ctx, cf := context.WithCancel(context.Background())
			cf()
			got := ""
			err := st.q.Receive(ctx, func(m p2p.Message[memswarm.Addr]) { got = fmt.Sprintf("got=%d:%d", m.Src.N, len(m.Payload)) })
			if err == nil {
				return "nil " + got + " " + st.qObs()
			}
			return errStr(err) + " " + st.qObs()
		case "q-cancel":
			p := st.qparts[atoi(op[1])]
			p.cancel()
			settle(st.qObs)
			return p.get() + " " + st.qObs()
		case "q-release":
			p := st.qparts[atoi(op[1])]
			p.release <- 0
			settle(st.qObs)
			r := "ok"
			if p.get() != "done" {
				r = p.get()
			}
			return r + " " + st.qObs()
		case "q-purge":
			n := st.q.Purge()
			return fmt.Sprintf("%d %s", n, st.qObs())
		case "q-close":
			waiting := 0
			for _, p := range st.qparts {
				if p.get() == "blocked" {
					waiting++
				}
			}
			done := make(chan struct{})
			go func() { st.q.Close(); close(done) }()
			closed := 0
			select {
			case <-done:
				closed = 1
			case <-time.After(20 * time.Millisecond):
			}
			settle(st.qObs)
			woken := 0
			for _, p := range st.qparts {
				if p.get() == "closed" {
					woken++
					p.set("gone")
				}
			}
			_ = waiting
			if closed == 0 {
				return "closed=0 woken=0 " + st.qObs()
			}
			return fmt.Sprintf("closed=1 woken=%d len=0 free=0 cb=0 wait=0", woken)
		}
		return "bad-op"
	})
	o.Emit(op[0], !strings.HasSuffix(op[0], "-new"), line, res)
}

// hubScenario: operations on one hub with callbacks held open by the harness. To keep outcomes determined
// (up to the choices the model follows), at most one side has parked participants at any time.
func hubScenario(r *rand.Rand, exec func(op string) string) {
	kind := hx.Pick(r, "tell", "ask")
	exec("hub-new " + kind)
	type part struct{ state string }
	nr, nd := 0, 0
	last := ""
	stateOf := func(name string) string {
		for _, w := range strings.Fields(last) {
			if strings.HasPrefix(w, name+":") {
				return strings.TrimPrefix(w, name+":")
			}
		}
		return ""
	}
	closed := false
	steps := 4 + r.Intn(14)
	for k := 0; k < steps; k++ {
		var blockedR, blockedD, inCb []int
		for i := 0; i < nr; i++ {
			switch s := stateOf(fmt.Sprintf("R%d", i)); {
			case s == "blocked":
				blockedR = append(blockedR, i)
			case strings.HasPrefix(s, "cb"):
				inCb = append(inCb, i)
			}
		}
		for j := 0; j < nd; j++ {
			if stateOf(fmt.Sprintf("D%d", j)) == "blocked" {
				blockedD = append(blockedD, j)
			}
		}
		x := r.Intn(12)
		switch {
		case x < 3 && nr < 6:
			last = exec("recv")
			nr++
		case x < 6 && nd < 6:
			last = exec("deliver")
			nd++
		case x < 8 && len(inCb) > 0:
			last = exec(fmt.Sprintf("release %d %d", inCb[r.Intn(len(inCb))], r.Intn(9)))
		case x == 8 && len(blockedR) > 0:
			last = exec(fmt.Sprintf("cancel-r %d", blockedR[r.Intn(len(blockedR))]))
		case x == 9 && len(blockedD) > 0:
			last = exec(fmt.Sprintf("cancel-d %d", blockedD[r.Intn(len(blockedD))]))
		case x == 10 && !closed && r.Intn(2) == 0:
			last = exec("close")
			closed = true
		case x == 11 && closed:
			last = exec("close")
		}
	}
	// let every callback finish so that goroutines are released
	for i := 0; i < nr; i++ {
		if strings.HasPrefix(stateOf(fmt.Sprintf("R%d", i)), "cb") {
			last = exec(fmt.Sprintf("release %d 1", i))
		}
	}
}

func queueScenario(r *rand.Rand, exec func(op string) string) {
	cap := 1 + r.Intn(4)
	mtu := hx.Pick(r, 1, 4, 16)
	exec(fmt.Sprintf("q-new %d %d", cap, mtu))
	nextR := 0
	var inCb, waiting []int
	closed := false
	steps := 5 + r.Intn(20)
	for k := 0; k < steps && !closed; k++ {
		switch x := r.Intn(14); {
		case x < 5:
			res := exec(fmt.Sprintf("q-deliver %d %d %d", 1+r.Intn(200), hx.Pick(r, 0, 1, mtu-1, mtu, mtu+1), r.Intn(2)))
			if strings.Contains(res, "got=") && len(waiting) > 0 {
				inCb = append(inCb, waiting[0])
				waiting = waiting[1:]
			}
		case x < 8 && len(waiting) == 0:
			res := exec(fmt.Sprintf("q-recv %d", nextR))
			if strings.HasPrefix(res, "got=") {
				inCb = append(inCb, nextR)
			} else if strings.HasPrefix(res, "blocked") {
				waiting = append(waiting, nextR)
			}
			nextR++
		case x < 10 && len(inCb) > 0:
			i := r.Intn(len(inCb))
			exec(fmt.Sprintf("q-release %d", inCb[i]))
			inCb = append(inCb[:i], inCb[i+1:]...)
		case x == 10 && len(waiting) > 0:
			exec(fmt.Sprintf("q-cancel %d", waiting[0]))
			waiting = waiting[1:]
		case x == 11 && r.Intn(2) == 0:
			exec("q-purge")
		case x == 11 && len(waiting) == 0:
			exec("q-recv-done")
		case x == 12 && len(inCb) == 0 && r.Intn(2) == 0:
			exec("q-close")
			closed = true
		}
	}
	if closed { // the queue stays closed: nothing is accepted and nothing is handed out
		for k := r.Intn(6); k > 0; k-- {
			if r.Intn(2) == 0 {
				exec(fmt.Sprintf("q-late-deliver %d %d %d", 1+r.Intn(200), hx.Pick(r, 0, 1, mtu), r.Intn(2)))
			} else {
				exec(fmt.Sprintf("q-late-recv %d", nextR))
				nextR++
			}
		}
	}
	for _, i := range inCb {
		exec(fmt.Sprintf("q-release %d", i))
	}
}

func hubStream(r *rand.Rand, n int, tier string, o *hx.Out) {
	st := &hubState{}
	total := 0
	for total < n {
		f := func(op string) string { st.apply(strings.Fields(op), o); total++; return o.Last() }
		if r.Intn(3) == 0 {
			queueScenario(r, f)
		} else {
			hubScenario(r, f)
		}
	}
}

// hubOracle: C12/C13 on the real hubs under genuine concurrency (no harness-imposed order): p producers and r
// receivers race with cancellations and a close; afterwards every call must have returned, each message was seen
// by at most one callback, Deliver==nil implies its callback finished first, Deliver!=nil implies nobody saw it,
// no call returns nil after close without a callback, no callback starts after Close returned and the parked
// calls have left.
func hubOracle(r *rand.Rand, n int, tier string, infile string) (cases int, fails []string) {
	for cases < n {
		cases++
		if cases%4 == 0 {
			if f := queueOracleCase(r); f != "" && len(fails) < 20 {
				fails = append(fails, f)
			}
			if f := queueRaceCase(r); f != "" && len(fails) < 20 {
				fails = append(fails, f)
			}
			continue
		}
		kind := hx.Pick(r, "tell", "ask")
		np, nrecv := 1+r.Intn(5), 1+r.Intn(5)
		tell := swarmutil.NewTellHub[memswarm.Addr]()
		ask := swarmutil.NewAskHub[memswarm.Addr]()
		var mu sync.Mutex
		seen := map[int]int{}    // message -> callbacks that saw it
		cbDone := map[int]bool{} // message -> callback finished
		var violations []string
		bad := func(f string, a ...any) {
			mu.Lock()
			violations = append(violations, fmt.Sprintf(f, a...))
			mu.Unlock()
		}
		var wg sync.WaitGroup
		closedAt := make(chan struct{})
		for i := 0; i < nrecv; i++ {
			ctx, cf := context.WithCancel(context.Background())
			if r.Intn(3) == 0 {
				d := time.Duration(r.Intn(2000)) * time.Microsecond
				time.AfterFunc(d, cf)
			}
			defer cf()
			wg.Add(1)
			go func() {
				defer wg.Done()
				for k := 0; k < 50; k++ {
					sawCb := false
					cb := func(id int) {
						sawCb = true
						mu.Lock()
						seen[id]++
						mu.Unlock()
						time.Sleep(time.Duration(id%3) * 50 * time.Microsecond)
						mu.Lock()
						cbDone[id] = true
						mu.Unlock()
					}
					var err error
					if kind == "tell" {
						err = tell.Receive(ctx, func(m p2p.Message[memswarm.Addr]) { cb(m.Src.N) })
					} else {
						err = ask.ServeAsk(ctx, func(_ context.Context, _ []byte, m p2p.Message[memswarm.Addr]) int { cb(m.Src.N); return m.Src.N % 7 })
					}
					if err == nil && !sawCb {
						bad("%s receive returned nil without a callback", kind)
						return
					}
					if err != nil {
						if ctx.Err() == nil {
							select {
							case <-closedAt:
							default:
								bad("%s receive returned %v although neither cancelled nor closed", kind, err)
							}
						}
						return
					}
				}
			}()
		}
		for j := 0; j < np; j++ {
			j := j
			ctx, cf := context.WithCancel(context.Background())
			if r.Intn(4) == 0 {
				time.AfterFunc(time.Duration(r.Intn(1500))*time.Microsecond, cf)
			}
			defer cf()
			wg.Add(1)
			go func() {
				defer wg.Done()
				for k := 0; k < 8; k++ {
					id := j*100 + k + 1
					msg := p2p.Message[memswarm.Addr]{Src: memswarm.Addr{N: id}}
					var err error
					var nres int
					if kind == "tell" {
						err = tell.Deliver(ctx, msg)
					} else {
						nres, err = ask.Deliver(ctx, make([]byte, 4), msg)
					}
					mu.Lock()
					s, done := seen[id], cbDone[id]
					mu.Unlock()
					if err == nil && (!done || s != 1) {
						bad("%s deliver(%d) returned nil but callbacks seen=%d finished=%v", kind, id, s, done)
					}
					if err == nil && kind == "ask" && nres != id%7 {
						bad("ask deliver(%d) returned %d, its handler answered %d", id, nres, id%7)
					}
					if err != nil && s != 0 {
						bad("%s deliver(%d) returned %v although a callback saw the message", kind, id, err)
					}
					if err != nil {
						return
					}
				}
			}()
		}
		time.Sleep(time.Duration(r.Intn(1500)) * time.Microsecond)
		close(closedAt)
		if kind == "tell" {
			tell.CloseWithError(nil)
		} else {
			ask.Close()
		}
		fin := make(chan struct{})
		go func() { wg.Wait(); close(fin) }()
		select {
		case <-fin:
		case <-time.After(2 * time.Second):
			bad("%s: calls still blocked 2s after Close (producers=%d receivers=%d)", kind, np, nrecv)
		}
		mu.Lock()
		for id, c := range seen {
			if c > 1 {
				violations = append(violations, fmt.Sprintf("%s message %d entered %d callbacks", kind, id, c))
			}
		}
		if len(fails) < 20 {
			fails = append(fails, violations...)
		}
		mu.Unlock()
	}
	return cases, fails
}

// queueRaceCase: C13 on swarmutil.Queue when receivers outnumber the messages. One message is in the queue, several
// receivers sharing one context enter Receive at the same moment, the context ends once the callback has run: exactly
// one receiver gets the message and every other one returns promptly with the context's error (or, in the Close
// variant, with the closed error) instead of staying parked.
func queueRaceCase(r *rand.Rand) string {
	for round := 0; round < 30; round++ {
		q := swarmutil.NewQueue[memswarm.Addr](1+r.Intn(2), 16)
		nmsg := 1
		for i := 0; i < nmsg; i++ {
			q.Deliver(p2p.Message[memswarm.Addr]{Payload: []byte{byte(i)}})
		}
		nrecv := 2 + r.Intn(7)
		ctx, cancel := context.WithCancel(context.Background())
		var start atomic.Bool
		var cbs atomic.Int32
		res := make(chan error, nrecv)
		for i := 0; i < nrecv; i++ {
			go func() {
				for !start.Load() {
				}
				res <- q.Receive(ctx, func(m p2p.Message[memswarm.Addr]) { cbs.Add(1) })
			}()
		}
		start.Store(true)
		deadline := time.Now().Add(2 * time.Second)
		for cbs.Load() < int32(nmsg) && time.Now().Before(deadline) {
			runtime.Gosched()
		}
		byClose := r.Intn(2) == 0
		if byClose {
			go q.Close()
		} else {
			cancel()
		}
		got, nils := 0, 0
		timeout := time.After(2 * time.Second)
	wait:
		for got < nrecv {
			select {
			case err := <-res:
				got++
				if err == nil {
					nils++
				}
			case <-timeout:
				break wait
			}
		}
		cancel()
		q.Close()
		if got < nrecv {
			how := "cancellation of their context"
			if byClose {
				how = "Close"
			}
			return fmt.Sprintf("C13 queue: %d message(s) queued, %d receivers entered Receive together: only %d returned within 2s of %s (%d took a message)", nmsg, nrecv, got, how, nils)
		}
		if int(cbs.Load()) != nmsg || nils != nmsg {
			return fmt.Sprintf("C13 queue: %d message(s) queued, %d receivers: %d callbacks ran and %d receivers returned nil", nmsg, nrecv, cbs.Load(), nils)
		}
	}
	return ""
}

// queueOracleCase: C12 on swarmutil.Queue under genuine concurrency. Producers and receivers race with a Close;
// once Close has returned no callback may start, late Delivers must not resurrect the queue, and every Receive
// made afterwards must return an error without running its callback.
func queueOracleCase(r *rand.Rand) string {
	capN := 1 + r.Intn(6)
	q := swarmutil.NewQueue[memswarm.Addr](capN, 16)
	var mu sync.Mutex
	var violations []string
	bad := func(f string, a ...any) {
		mu.Lock()
		violations = append(violations, fmt.Sprintf(f, a...))
		mu.Unlock()
	}
	var closeReturned atomic.Bool
	var wg sync.WaitGroup
	var accepted, seenCb atomic.Int64
	nrecv, np := r.Intn(4), 1+r.Intn(4)
	// receivers whose context is already done or ends at any moment: they may or may not take a message, but a
	// message the queue accepted is seen by exactly one callback, or is still queued (C13)
	for i := 0; i < 1+r.Intn(3); i++ {
		wg.Add(1)
		go func() {
			defer wg.Done()
			for k := 0; k < 30; k++ {
				ctx, cf := context.WithCancel(context.Background())
				if k%2 == 0 {
					cf()
				} else {
					time.AfterFunc(time.Duration(k)*10*time.Microsecond, cf)
				}
				err := q.Receive(ctx, func(m p2p.Message[memswarm.Addr]) { seenCb.Add(1) })
				cf()
				if err != nil && p2p.IsErrClosed(err) {
					return
				}
			}
		}()
	}
	for i := 0; i < nrecv; i++ {
		wg.Add(1)
		go func() {
			defer wg.Done()
			for k := 0; k < 40; k++ {
				saw := false
				err := q.Receive(context.Background(), func(m p2p.Message[memswarm.Addr]) {
					saw = true
					seenCb.Add(1)
					if closeReturned.Load() {
						bad("queue callback started after Close had returned")
					}
					time.Sleep(time.Duration(m.Src.N%3) * 20 * time.Microsecond)
				})
				if err == nil && !saw {
					bad("queue Receive returned nil without a callback")
				}
				if err != nil {
					return
				}
			}
		}()
	}
	for j := 0; j < np; j++ {
		j := j
		wg.Add(1)
		go func() {
			defer wg.Done()
			for k := 0; k < 10; k++ {
				if (j+k)%4 == 3 {
					// a message over the queue's MTU is refused by Deliver (DeliverVec leaves the check to its callers) and
					// leaves the queue as it was
					over := make([]byte, 17+k)
					if q.Deliver(p2p.Message[memswarm.Addr]{Src: memswarm.Addr{N: j*100 + k}, Payload: over}) {
						bad("queue with MTU 16 accepted a message of %d bytes", len(over))
					}
					continue
				}
				if q.Deliver(p2p.Message[memswarm.Addr]{Src: memswarm.Addr{N: j*100 + k}, Payload: []byte{byte(k)}}) {
					accepted.Add(1)
				}
				if k%3 == 2 {
					time.Sleep(50 * time.Microsecond)
				}
			}
		}()
	}
	time.Sleep(time.Duration(r.Intn(800)) * time.Microsecond)
	if r.Intn(2) == 0 { // let everybody finish first and account for every accepted message
		pw := make(chan struct{})
		go func() { wg.Wait(); close(pw) }()
		select {
		case <-pw:
			if a, s, l := accepted.Load(), seenCb.Load(), int64(q.Len()); a != s+l {
				return fmt.Sprintf("C13 queue: %d messages were accepted by Deliver, %d were seen by a callback and %d are still queued: %d were lost (receivers with contexts that end at any moment; cap=%d)", a, s, l, a-s-l, capN)
			}
		case <-time.After(2 * time.Second):
		}
	}
	cd := make(chan struct{})
	go func() { q.Close(); close(cd) }()
	select {
	case <-cd:
		closeReturned.Store(true)
	case <-time.After(2 * time.Second):
		return fmt.Sprintf("C12 queue Close did not return within 2s (cap=%d receivers=%d producers=%d)", capN, nrecv, np)
	}
	fin := make(chan struct{})
	go func() { wg.Wait(); close(fin) }()
	select {
	case <-fin:
	case <-time.After(2 * time.Second):
		bad("queue: calls still blocked 2s after Close")
	}
	// afterwards
	late := 1 + r.Intn(2*capN+2)
	lateAccepted := 0
	for k := 0; k < late; k++ {
		if q.Deliver(p2p.Message[memswarm.Addr]{Src: memswarm.Addr{N: 9000 + k}, Payload: []byte{1}}) {
			lateAccepted++
		}
	}
	for k := 0; k < 6; k++ {
		ran := false
		done := make(chan error, 1)
		go func() {
			done <- q.Receive(context.Background(), func(m p2p.Message[memswarm.Addr]) { ran = true })
		}()
		select {
		case err := <-done:
			if ran {
				bad("a message (of %d delivered late, %d accepted) reached a Receive callback after Close had returned", late, lateAccepted)
			}
			if err == nil {
				bad("queue Receive after Close returned nil (%d late Delivers, %d accepted)", late, lateAccepted)
			}
		case <-time.After(time.Second):
			bad("queue Receive after Close blocks")
		}
	}
	if q.Close() != nil {
		bad("second Close returns an error")
	}
	mu.Lock()
	defer mu.Unlock()
	if len(violations) > 0 {
		return "C12 " + violations[0] + fmt.Sprintf(" (cap=%d receivers=%d producers=%d)", capN, nrecv, np)
	}
	return ""
}
