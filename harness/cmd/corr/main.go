// corr drives the real go-p2p implementation (built from /repo's working tree with -tags verif) and writes
// one operation per line together with the implementation's observable result, for the Lean driver to replay.
package main

import (
	"flag"
	"fmt"
	"io"
	"log"
	"math/rand"
	"os"
	"runtime"
	"sort"
	"strings"
	"time"

	"verifharness/internal/hx"
)

type streamFn func(r *rand.Rand, n int, tier string, o *hx.Out)

var streams = map[string]streamFn{}

// An oracle restates the property directly on the implementation (no model involved). It is run by the
// violation search over the inputs of disagreeing lines (infile, may be empty) and a fresh directed sample,
// and returns the number of cases tried and a description of every failing one.
type oracleFn func(r *rand.Rand, n int, tier string, infile string) (cases int, fails []string)

var oracles = map[string]oracleFn{}

func main() {
	log.SetOutput(io.Discard) // the library logs dropped/invalid messages; they are not observations
	if len(os.Args) < 2 {
		names := []string{}
		for k := range streams {
			names = append(names, k)
		}
		sort.Strings(names)
		fmt.Fprintln(os.Stderr, "usage: corr <stream> [-seed N] [-n N] [-tier quick|thorough] [-out FILE] [-stats FILE]; streams:", names)
		os.Exit(2)
	}
	name := os.Args[1]
	fs := flag.NewFlagSet(name, flag.ExitOnError)
	seed := fs.Int64("seed", 1, "PRNG seed")
	n := fs.Int("n", 1000, "number of cases")
	tier := fs.String("tier", "quick", "tier")
	out := fs.String("out", "-", "ops file")
	stats := fs.String("stats", "", "stats json file")
	replay := fs.String("replay", "", "ops file to re-run (ops are re-executed on the implementation)")
	mode := fs.String("mode", "corr", "corr | oracle")
	fs.Parse(os.Args[2:])
	if needBubble[name] {
		// the whole run happens under a fake clock (testing/synctest): timers fire deterministically
		inBubble(func() {
			run(name, *seed, *n, *tier, *out, *stats, *replay, *mode)
			os.Stdout.Sync()
			os.Exit(0) // do not wait for goroutines or timers the code under test may have leaked
		})
		return
	}
	run(name, *seed, *n, *tier, *out, *stats, *replay, *mode)
}

// oracleOffset: cases done by earlier slices of this oracle run; oracles that cycle through kinds of cases by index
// continue the cycle from here (an oracle that started every slice at index 0 only ever ran its first kinds)
var oracleOffset int

// oracles that only compute (no sockets, no timers, no sleeping): a quick slice of theirs takes seconds, so one that
// has not come back after three minutes is stuck (e.g. on a mutex the code under test never released)
var computeOnly = map[string]bool{"cache": true, "cacheorder": true, "key": true, "addr": true, "dht": true, "node": true}

// streams that only exist in the build with the fake clock (go >= 1.25, bin/corr26)
var needBubble = map[string]bool{"ket": true}

func run(name string, seedV int64, nV int, tierV, outV, statsV, replayV, modeV string) {
	seed, n, tier, out, stats, replay, mode := &seedV, &nV, &tierV, &outV, &statsV, &replayV, &modeV
	if *mode == "oracle" {
		of, ok := oracles[name]
		if !ok {
			fmt.Println("oracle cases=0 (stream has no oracle)")
			return
		}
		// in slices, so that failures are reported as they are found and a failing implementation (which can make
		// every case slow: time-outs) does not have to sit through the whole sample
		r := rand.New(rand.NewSource(*seed))
		cases, nfails := 0, 0
		chunk := max(1, (*n+7)/8)
		for done := 0; done < *n && nfails < 12; done += chunk {
			in := ""
			if done == 0 {
				in = *replay
			}
			oracleOffset = done
			// a deadlock in the code under test must not make the check sit until its caller's time-out: a slice that
			// does not come back is reported and the run ends
			type sliceRes struct {
				c     int
				fails []string
			}
			resCh := make(chan sliceRes, 1)
			go func() {
				c, fails := of(r, min(chunk, *n-done), *tier, in)
				resCh <- sliceRes{c, fails}
			}()
			limit := 8 * time.Minute
			if *tier == "thorough" {
				limit = 40 * time.Minute
			} else if computeOnly[name] {
				limit = 3 * time.Minute
			}
			if needBubble[name] {
				// under the fake clock a timer fires as soon as every goroutine is blocked: no wall-clock watchdog there
				limit = 1 << 62
			}
			var c int
			var fails []string
			select {
			case sr := <-resCh:
				c, fails = sr.c, sr.fails
			case <-time.After(limit):
				buf := make([]byte, 1<<20)
				buf = buf[:runtime.Stack(buf, true)]
				var where []string
				for _, blk := range strings.Split(string(buf), "\n\n") {
					if strings.Contains(blk, "go.brendoncarroll.net/p2p") && len(where) < 6 {
						for _, l := range strings.Split(blk, "\n") {
							if strings.HasPrefix(l, "go.brendoncarroll.net/p2p") {
								where = append(where, l)
								break
							}
						}
					}
				}
				fmt.Printf("ORACLE-FAIL %s oracle: a case did not finish within %v (deadlock?); goroutines in the library: %s\n", name, limit, strings.Join(where, " | "))
				fmt.Printf("oracle cases=%d fails=%d\n", cases+1, nfails+1)
				os.Stdout.Sync()
				os.Exit(0)
			}
			cases += c
			nfails += len(fails)
			for _, f := range fails {
				fmt.Println("ORACLE-FAIL", f)
			}
			os.Stdout.Sync()
		}
		fmt.Printf("oracle cases=%d fails=%d\n", cases, nfails)
		return
	}
	o := hx.NewOut(*out, *seed)
	if *replay != "" {
		rf, ok := replayers[name]
		if !ok {
			fmt.Fprintln(os.Stderr, "stream has no replayer:", name)
			os.Exit(2)
		}
		runReplay(rf, *replay, o)
		o.Close(*stats)
		return
	}
	f, ok := streams[name]
	if !ok {
		fmt.Fprintln(os.Stderr, "unknown stream", name)
		os.Exit(2)
	}
	f(rand.New(rand.NewSource(*seed)), *n, *tier, o)
	o.Close(*stats)
}
