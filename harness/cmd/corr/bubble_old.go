//go:build !go1.25

package main

import (
	"fmt"
	"os"
)

func inBubble(f func()) {
	fmt.Fprintln(os.Stderr, "this stream needs the fake clock of testing/synctest: use bin/corr26 (built with go1.26)")
	os.Exit(2)
}
