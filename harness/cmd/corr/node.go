//go:build go1.25

package main

// node: kademlia.DHTNode (dht_node.go) under the fake clock, so that the time.Now() calls inside the handlers
// are known to the model (Model/DHTNode.lean): creation times are distinct and the eviction victim is determined.

import (
	"bytes"
	"fmt"
	"math/rand"
	"sort"
	"strconv"
	"strings"
	"time"

	"go.brendoncarroll.net/p2p"
	"go.brendoncarroll.net/p2p/p/kademlia"
	"verifharness/internal/hx"
)

func init() {
	streams["node"] = nodeStream
	replayers["node"] = func() replayFn { st := &nodeState{t0: time.Now()}; return st.apply }
	oracles["node"] = nodeOracle
	needBubble["node"] = true
}

type nodeState struct {
	n  *kademlia.DHTNode
	t0 time.Time
}

func (st *nodeState) now() int64 { return time.Since(st.t0).Milliseconds() }

func npid(b []byte) (id p2p.PeerID) {
	copy(id[:], b)
	return id
}

func infoIDs(ns []kademlia.NodeInfo) string {
	if len(ns) == 0 {
		return "-"
	}
	ss := make([]string, len(ns))
	for i, n := range ns {
		ss[i] = hx.Hex(n.ID[:]) + ":" + hx.Hex(n.Info)
	}
	return strings.Join(ss, ",")
}

func (st *nodeState) apply(op []string, o *hx.Out) {
	line := strings.Join(op, " ")
	atoi := func(s string) int { n, _ := strconv.Atoi(s); return n }
	b2i := func(b bool) int {
		if b {
			return 1
		}
		return 0
	}
	res := hx.Guard(func() string {
		switch op[0] {
		case "n-new":
			st.n = kademlia.NewDHTNode(kademlia.DHTNodeParams{LocalID: npid(hx.UnHex(op[1])), PeerCacheSize: atoi(op[2]), DataCacheSize: atoi(op[3]),
				MaxPeerTTL: ms(atoi(op[4])), MaxDataTTL: ms(atoi(op[5]))})
			return "ok"
		case "n-tick":
			time.Sleep(ms(atoi(op[1])))
			return fmt.Sprintf("now=%d", st.now())
		case "n-addpeer":
			return fmt.Sprintf("%d now=%d", b2i(st.n.AddPeer(npid(hx.UnHex(op[1])), hx.UnHex(op[2]))), st.now())
		case "n-rmpeer":
			return strconv.Itoa(b2i(st.n.RemovePeer(npid(hx.UnHex(op[1])))))
		case "n-getpeer":
			v, ok := st.n.GetPeer(npid(hx.UnHex(op[1])))
			if !ok {
				return "none"
			}
			return hx.Hex(v)
		case "n-put":
			ttl, _ := strconv.ParseUint(op[3], 10, 64)
			r, err := st.n.HandlePut(p2p.PeerID{}, kademlia.PutReq{Key: hx.UnHex(op[1]), Value: hx.UnHex(op[2]), TTLms: ttl})
			if err != nil {
				return "err"
			}
			return fmt.Sprintf("accepted=%d count=%d now=%d closer=%s", b2i(r.Accepted), st.n.Count(), st.now(), infoIDs(r.Closer))
		case "n-localput":
			ok := st.n.Put(hx.UnHex(op[1]), hx.UnHex(op[2]), ms(atoi(op[3])))
			return fmt.Sprintf("%d count=%d now=%d", b2i(ok), st.n.Count(), st.now())
		case "n-get":
			r, err := st.n.HandleGet(p2p.PeerID{}, kademlia.GetReq{Key: hx.UnHex(op[1])})
			if err != nil {
				return "err"
			}
			v := "none"
			if r.Value != nil {
				v = hx.Hex(r.Value)
			}
			return fmt.Sprintf("value=%s closer=%s", v, infoIDs(r.Closer))
		case "n-find":
			r, err := st.n.HandleFindNode(p2p.PeerID{}, kademlia.FindNodeReq{Target: npid(hx.UnHex(op[1])), Limit: atoi(op[2])})
			if err != nil {
				return "err"
			}
			return infoIDs(r.Nodes)
		}
		return "bad-op"
	})
	o.Emit(op[0], op[0] != "n-new" && op[0] != "n-tick", line, res)
}

// nodeIDs: ids arranged around the local id so that buckets fill up: the id that shares i leading bits with it
// and differs in a few low bytes
func nearID(r *rand.Rand, local []byte, bit int) []byte {
	id := append([]byte{}, local...)
	id[bit/8] ^= 0x80 >> (bit % 8)
	for k := 0; k < 2; k++ {
		id[len(id)-1-r.Intn(3)] ^= byte(r.Intn(4))
	}
	return id
}

func nodeScenario(r *rand.Rand, exec func(op string) string) {
	local := hx.Bytes(r, 32)
	if r.Intn(4) == 0 {
		for i := range local {
			local[i] = byte(hx.Pick(r, 0x00, 0xff, 0x80, 0x01))
		}
	}
	peerSize := hx.Pick(r, 0, 1, 7, 8, 9, 16, 40, 255, 256, 257, 300)
	dataSize := hx.Pick(r, 0, 0, 1, 2, 3, 5, 8, 20)
	exec(fmt.Sprintf("n-new %s %d %d %d %d", hx.Hex(local), peerSize, dataSize, hx.Pick(r, 0, 50, 1000), hx.Pick(r, 0, 100, 5000)))
	var ids, keys [][]byte
	someID := func() []byte {
		if len(ids) > 0 && r.Intn(3) > 0 {
			return ids[r.Intn(len(ids))]
		}
		var id []byte
		switch r.Intn(6) {
		case 0:
			id = hx.Bytes(r, 32)
		case 1:
			id = append([]byte{}, local...)
		default:
			id = nearID(r, local, hx.Pick(r, 0, 1, 2, 3, 7, 8, 9, 15, 100, 254, 255, r.Intn(256)))
		}
		ids = append(ids, id)
		return id
	}
	someKey := func() []byte {
		if len(keys) > 0 && r.Intn(3) > 0 {
			return keys[r.Intn(len(keys))]
		}
		var k []byte
		switch r.Intn(5) {
		case 0:
			k = hx.Bytes(r, hx.Pick(r, 0, 1, 2, 31, 33, 40))
		case 1:
			k = append([]byte{}, local...)
		default:
			k = nearID(r, local, hx.Pick(r, 0, 1, 2, 3, 7, 8, 9, 100, 255, r.Intn(256)))
		}
		keys = append(keys, k)
		return k
	}
	for k := r.Intn(3) * r.Intn(25); k > 0; k-- { // a routing table with something in it
		exec("n-tick 1")
		exec(fmt.Sprintf("n-addpeer %s %s", hx.Hex(someID()), hx.Hex(hx.Bytes(r, r.Intn(2)))))
	}
	steps := 10 + r.Intn(50)
	for k := 0; k < steps; k++ {
		exec(fmt.Sprintf("n-tick %d", 1+r.Intn(3)*r.Intn(200))) // creation times are pairwise different
		switch x := r.Intn(20); {
		case x < 6:
			exec(fmt.Sprintf("n-addpeer %s %s", hx.Hex(someID()), hx.Hex(hx.Bytes(r, r.Intn(3)))))
		case x < 7:
			exec(fmt.Sprintf("n-rmpeer %s", hx.Hex(someID())))
		case x < 8:
			exec(fmt.Sprintf("n-getpeer %s", hx.Hex(someID())))
		case x < 12:
			exec(fmt.Sprintf("n-put %s %s %d", hx.Hex(someKey()), hx.Hex(hx.Bytes(r, 1+r.Intn(3))), hx.Pick(r, 0, 1, 99, 100, 101, 5000, 5001, 1<<40)))
		case x < 13:
			exec(fmt.Sprintf("n-localput %s %s %d", hx.Hex(someKey()), hx.Hex(hx.Bytes(r, 1+r.Intn(3))), hx.Pick(r, 0, 1, 100, 100000)))
		case x < 16:
			exec(fmt.Sprintf("n-get %s", hx.Hex(someKey())))
		default:
			t := someID()
			if r.Intn(3) == 0 {
				t = hx.Bytes(r, 32)
			}
			exec(fmt.Sprintf("n-find %s %d", hx.Hex(t), hx.Pick(r, -1, 0, 1, 2, 3, 9, 10, 11, 100, 1<<31)))
		}
	}
}

func nodeStream(r *rand.Rand, n int, tier string, o *hx.Out) {
	st := &nodeState{t0: time.Now()}
	for o.N < n {
		nodeScenario(r, func(op string) string {
			st.apply(strings.Fields(op), o)
			return o.Last()
		})
	}
}

// nodeOracle restates on the real node what a responder must guarantee to the iterative operations (C20):
// FindNode answers with at most min(limit, 10) distinct peers it actually knows, never itself, nearest first;
// the closer lists of Put/Get hold only peers strictly closer to the key than the node itself; Accepted is
// truthful: an accepted key can be read back at once, a refused one was not stored, and a node without a data
// cache accepts nothing.
func nodeOracle(r *rand.Rand, n int, tier string, infile string) (cases int, fails []string) {
	o := hx.NewOut("/dev/null", 0)
	defer o.Close("")
	for cases < n {
		st := &nodeState{t0: time.Now()}
		var hist []string
		bad := func(f string, a ...any) {
			if len(fails) < 20 {
				h := hist
				if len(h) > 40 {
					h = h[len(h)-40:]
				}
				// what a list of peers must look like (only nearer peers, nearest first, complete) is C19's business as
				// well as C20's: those verdicts carry no tag; the rest speaks for C20
				tag := "C20 "
				if strings.Contains(f, "closer") || strings.Contains(f, "ordered") || strings.HasPrefix(f, "%s lists") {
					tag = ""
				}
				fails = append(fails, tag+fmt.Sprintf(f, a...)+" history=["+strings.Join(h, "; ")+"]")
			}
		}
		var local []byte
		peers := map[string]bool{}
		dataSize, peerCap := 0, 0
		nodeScenario(r, func(op string) string {
			cases++
			f := strings.Fields(op)
			st.apply(f, o)
			res := o.Last()
			if f[0] != "n-tick" {
				hist = append(hist, op+" -> "+res)
			}
			if res == "fault" {
				bad("%s panics (%s)", f[0], hx.LastPanic)
				return res
			}
			parse := func(s string) (ids [][]byte) {
				if s == "-" || s == "" {
					return nil
				}
				for _, e := range strings.Split(s, ",") {
					ids = append(ids, hx.UnHex(strings.SplitN(e, ":", 2)[0]))
				}
				return ids
			}
			checkList := func(what string, key []byte, ids [][]byte, strict bool) {
				seen := map[string]bool{}
				for i, id := range ids {
					if bytes.Equal(id, local) {
						bad("%s lists the node itself", what)
					}
					if !peers[string(id)] {
						bad("%s lists %x…, which is not a peer the node knows", what, id[:4])
					}
					if seen[string(id)] {
						bad("%s lists %x… twice", what, id[:4])
					}
					seen[string(id)] = true
					if i > 0 && kademlia.DistanceLt(key, id, ids[i-1]) {
						bad("%s is not ordered by distance at position %d", what, i)
					}
					if strict && !kademlia.DistanceLt(key, id, local) {
						bad("%s lists %x…, which is not closer to the key than the node itself", what, id[:4])
					}
				}
			}
			field := func(name string) string {
				for _, w := range strings.Fields(res) {
					if strings.HasPrefix(w, name+"=") {
						return strings.TrimPrefix(w, name+"=")
					}
				}
				return ""
			}
			switch f[0] {
			case "n-new":
				local = hx.UnHex(f[1])
				peerCap, _ = strconv.Atoi(f[2])
				dataSize, _ = strconv.Atoi(f[3])
				peers = map[string]bool{}
			case "n-addpeer":
				// membership is tracked from what the node itself reports (evictions are the cache's business: C18)
				peers = map[string]bool{}
				for _, id := range st.n.ListPeers(0) {
					peers[string(id[:])] = true
				}
				if bytes.Equal(hx.UnHex(f[1]), local) && strings.HasPrefix(res, "1") {
					bad("AddPeer accepted the node's own id")
				}
				if peers[string(local)] {
					bad("the node lists itself among its peers")
				}
			case "n-rmpeer":
				peers = map[string]bool{}
				for _, id := range st.n.ListPeers(0) {
					peers[string(id[:])] = true
				}
			case "n-find":
				ids := parse(res)
				lim, _ := strconv.Atoi(f[2])
				if lim > 10 {
					lim = 10
				}
				if lim < 0 {
					lim = 0
				}
				if len(ids) > lim {
					bad("FindNode with limit %s answers %d nodes", f[2], len(ids))
				}
				if len(ids) < lim && len(ids) < len(peers) {
					bad("FindNode with limit %s answers only %d nodes although %d peers are known", f[2], len(ids), len(peers))
				}
				target := hx.UnHex(f[1])
				checkList("FindNode", target, ids, false)
				// nearest-first also means: no known peer is closer than the last one listed
				if len(ids) > 0 && len(ids) == lim {
					last := ids[len(ids)-1]
					for p := range peers {
						listed := false
						for _, id := range ids {
							listed = listed || string(id) == p
						}
						if !listed && kademlia.DistanceLt(target, []byte(p), last) {
							bad("FindNode omits %x…, which is closer to the target than a node it lists", []byte(p)[:4])
						}
					}
				}
			case "n-put":
				key := hx.UnHex(f[1])
				checkList("the closer list of Put", key, parse(field("closer")), true)
				got := st.n.Get(key)
				if field("accepted") == "1" {
					if dataSize == 0 {
						bad("a node without a data cache answers Accepted")
					}
					if !bytes.Equal(got, hx.UnHex(f[2])) {
						bad("Put answered Accepted but the value cannot be read back (got %x)", got)
					}
				} else if bytes.Equal(got, hx.UnHex(f[2])) && len(got) > 0 {
					// (the same value may have been there before: only flag a value that was not)
					stored := false
					for _, h := range hist[:len(hist)-1] {
						stored = stored || (strings.Contains(h, " "+f[1]+" "+f[2]+" ") && strings.Contains(h, "accepted=1"))
					}
					if !stored {
						bad("Put answered not accepted but the value was stored")
					}
				}
			case "n-get":
				key, ids := hx.UnHex(f[1]), parse(field("closer"))
				checkList("the closer list of Get", key, ids, true)
				// … and ALL of them, whether or not the node holds a value for the key (keys no shorter than the ids: the
				// short-key behaviour of the bucket index is the known finding of C19)
				if len(key) >= len(local) {
					listed := map[string]bool{}
					for _, id := range ids {
						listed[string(id)] = true
					}
					// "the locus" of a node whose peer cache is smaller than one slot per bit of its id is the id cut to
					// PeerCacheSize/8 bytes (NewDHTNode): that is what "closer than the node" is measured against
					locus := local
					if peerCap < 8*len(local) {
						locus = local[:peerCap/8]
					}
					for _, id := range st.n.ListPeers(0) {
						if kademlia.DistanceLt(key, id[:], locus) && !listed[string(id[:])] {
							bad("the closer list of Get omits %x…, a peer the node knows that is closer to the key than the node itself (value held: %v)", id[:4], field("value") != "-")
						}
					}
				}
			}
			return res
		})
		_ = sort.Ints
	}
	return cases, fails
}
