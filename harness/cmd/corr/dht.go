package main

import (
	"bytes"
	"encoding/binary"
	"errors"
	"fmt"
	"math/rand"
	"strconv"
	"strings"
	"time"

	"go.brendoncarroll.net/p2p"
	"go.brendoncarroll.net/p2p/p/kademlia"
	"verifharness/internal/hx"
)

func init() {
	streams["dht"] = dhtStream
	replayers["dht"] = func() replayFn { return dhtReplay }
	oracles["dht"] = dhtOracle
}

type dhtEntry struct {
	kind  byte
	peers []p2p.PeerID
}

type dhtNet struct {
	order []p2p.PeerID
	tab   map[p2p.PeerID]dhtEntry
}

func pid(b []byte) (ret p2p.PeerID) { copy(ret[:], b); return ret }

func (n *dhtNet) String() string {
	if len(n.order) == 0 {
		return "-"
	}
	var sb strings.Builder
	for i, id := range n.order {
		if i > 0 {
			sb.WriteByte(';')
		}
		e := n.tab[id]
		sb.WriteString(hx.Hex(id[:]))
		sb.WriteByte('=')
		sb.WriteByte(e.kind)
		sb.WriteByte('/')
		for j, p := range e.peers {
			if j > 0 {
				sb.WriteByte(',')
			}
			sb.WriteString(hx.Hex(p[:]))
		}
	}
	return sb.String()
}

func parseDhtNet(s string) *dhtNet {
	n := &dhtNet{tab: map[p2p.PeerID]dhtEntry{}}
	if s == "-" {
		return n
	}
	for _, ent := range strings.Split(s, ";") {
		kv := strings.SplitN(ent, "=", 2)
		id := pid(hx.UnHex(kv[0]))
		kp := strings.SplitN(kv[1], "/", 2)
		e := dhtEntry{kind: kp[0][0]}
		if kp[1] != "" {
			for _, p := range strings.Split(kp[1], ",") {
				e.peers = append(e.peers, pid(hx.UnHex(p)))
			}
		}
		n.order = append(n.order, id)
		n.tab[id] = e
	}
	return n
}

func idsStr(ids []p2p.PeerID) string {
	if len(ids) == 0 {
		return "-"
	}
	ss := make([]string, len(ids))
	for i, id := range ids {
		ss[i] = hx.Hex(id[:])
	}
	return strings.Join(ss, ",")
}

func parseIDs(s string) (ret []p2p.PeerID) {
	if s == "-" || s == "" {
		return nil
	}
	for _, p := range strings.Split(s, ",") {
		ret = append(ret, pid(hx.UnHex(p)))
	}
	return ret
}

func nodeInfo(id p2p.PeerID) kademlia.NodeInfo {
	return kademlia.NodeInfo{ID: id, Info: append([]byte{}, id[:2]...)}
}

func nodeInfos(ids []p2p.PeerID) (ret []kademlia.NodeInfo) {
	for _, id := range ids {
		ret = append(ret, nodeInfo(id))
	}
	return ret
}

type dhtRun struct {
	asks   []p2p.PeerID
	result string
	// fields for the oracle
	closest             p2p.PeerID
	accepted, contacted int
	responded           int
	err                 bool
	value, from         []byte
	added               int
	timedOut, panicked  bool
}

// dhtDo runs one iterative operation of the real implementation against the simulated network.
func dhtDo(op string, key []byte, param int, initial []p2p.PeerID, net *dhtNet) (run dhtRun) {
	done := make(chan struct{})
	go func() {
		defer close(done)
		defer func() {
			if r := recover(); r != nil {
				run.panicked = true
				run.result = "fault"
				hx.LastPanic = fmt.Sprint(r)
			}
		}()
		lookup := func(n kademlia.NodeInfo) (dhtEntry, error) {
			run.asks = append(run.asks, n.ID)
			e, ok := net.tab[n.ID]
			if !ok || e.kind == 'f' {
				return e, errors.New("unreachable")
			}
			return e, nil
		}
		b01 := func(b bool) int {
			if b {
				return 1
			}
			return 0
		}
		switch op {
		case "findnode":
			res, err := kademlia.DHTFindNode(kademlia.DHTFindNodeParams{
				Initial: nodeInfos(initial), Target: pid(key),
				// a record is "forged" when the last byte of its id is 3 mod 4: a quarter of all records, so that
				// answers contain runs of adjacent invalid entries
				Validate: func(n kademlia.NodeInfo) bool { return n.ID[31]%4 != 3 },
				Ask: func(n kademlia.NodeInfo, req kademlia.FindNodeReq) (kademlia.FindNodeRes, error) {
					e, err := lookup(n)
					if err != nil {
						return kademlia.FindNodeRes{}, err
					}
					return kademlia.FindNodeRes{Nodes: nodeInfos(e.peers)}, nil
				}})
			run.closest, run.contacted, run.err = res.Closest, res.Contacted, err != nil
			run.result = fmt.Sprintf("asks=%s closest=%s info=%s contacted=%d err=%d", idsStr(run.asks), hx.Hex(res.Closest[:]), hx.Hex(res.Info), res.Contacted, b01(err != nil))
		case "join":
			seen := map[p2p.PeerID]bool{}
			added := kademlia.DHTJoin(kademlia.DHTJoinParams{
				Initial: nodeInfos(initial), Target: pid(key),
				AddPeer: func(id p2p.PeerID, info []byte) bool {
					if seen[id] {
						return false
					}
					seen[id] = true
					return true
				},
				Ask: func(n kademlia.NodeInfo, req kademlia.FindNodeReq) (kademlia.FindNodeRes, error) {
					e, err := lookup(n)
					if err != nil {
						return kademlia.FindNodeRes{}, err
					}
					return kademlia.FindNodeRes{Nodes: nodeInfos(e.peers)}, nil
				}})
			run.added = added
			run.result = fmt.Sprintf("asks=%s added=%d", idsStr(run.asks), added)
		case "get":
			res, err := kademlia.DHTGet(kademlia.DHTGetParams{
				Initial: nodeInfos(initial), Key: key,
				// two validators that agree on every value a node can send (three bytes): one rejects the absent value, the
				// other (a size-limit style check) accepts it
				Validate: func(v []byte) bool {
					if param%2 == 1 {
						return len(v) <= 3 && (len(v) == 0 || v[0] != 0)
					}
					return len(v) > 0 && v[0] != 0
				},
				Ask: func(n kademlia.NodeInfo, req kademlia.GetReq) (kademlia.GetRes, error) {
					e, err := lookup(n)
					if err != nil {
						return kademlia.GetRes{}, err
					}
					r := kademlia.GetRes{Closer: nodeInfos(e.peers)}
					if e.kind == 'a' {
						r.Value = append([]byte{1}, n.ID[:2]...)
					} else if e.kind == 'v' {
						r.Value = append([]byte{0}, n.ID[:2]...)
					}
					return r, nil
				}})
			run.closest, run.contacted, run.responded, run.err = res.Closest, res.NumContacted, res.NumResponded, err != nil
			run.value, run.from = res.Value, res.From[:]
			v := "-"
			if res.Value != nil {
				v = hx.Hex(res.Value)
			}
			run.result = fmt.Sprintf("asks=%s value=%s from=%s closest=%s contacted=%d responded=%d err=%d", idsStr(run.asks), v, hx.Hex(res.From[:]), hx.Hex(res.Closest[:]), res.NumContacted, res.NumResponded, b01(err != nil))
		case "put":
			res, err := kademlia.DHTPut(kademlia.DHTPutParams{
				Initial: nodeInfos(initial), Key: key, Value: []byte("v"), TTL: time.Minute, MinAccepted: param,
				Ask: func(n kademlia.NodeInfo, req kademlia.PutReq) (kademlia.PutRes, error) {
					e, err := lookup(n)
					if err != nil {
						return kademlia.PutRes{}, err
					}
					return kademlia.PutRes{Accepted: e.kind == 'a', Closer: nodeInfos(e.peers)}, nil
				}})
			run.closest, run.accepted, run.contacted, run.responded, run.err = res.Closest, res.Accepted, res.Contacted, res.Responded, err != nil
			run.result = fmt.Sprintf("asks=%s closest=%s accepted=%d contacted=%d responded=%d err=%d", idsStr(run.asks), hx.Hex(res.Closest[:]), res.Accepted, res.Contacted, res.Responded, b01(err != nil))
		}
	}()
	select {
	case <-done:
	case <-time.After(5 * time.Second):
		run.timedOut = true
		run.result = "no-termination"
	}
	return run
}

// genDhtNet builds a simulated network: honest-looking tables plus adversarial entries (cycles, self
// references, the zero id, fabricated ids that do not exist, very long lists, nodes nearer and nearer to the key).
func genDhtNet(r *rand.Rand, key []byte) (*dhtNet, []p2p.PeerID) {
	n := hx.Pick(r, 1, 2, 3, 4, 6, 10, 20, 40)
	net := &dhtNet{tab: map[p2p.PeerID]dhtEntry{}}
	var ids []p2p.PeerID
	for len(ids) < n {
		var id p2p.PeerID
		switch r.Intn(6) {
		case 0: // shares a long prefix with the key
			copy(id[:], key)
			i := r.Intn(256)
			id[i/8] ^= 0x80 >> uint(i%8)
			for j := i/8 + 1; j < 32; j++ {
				id[j] = byte(r.Intn(256))
			}
		case 1: // the key itself / the zero id
			if r.Intn(2) == 0 {
				copy(id[:], key)
			}
		default:
			r.Read(id[:])
		}
		if _, ok := net.tab[id]; ok {
			continue
		}
		ids = append(ids, id)
		net.order = append(net.order, id)
		net.tab[id] = dhtEntry{}
	}
	kinds := "ooaaavf"
	for _, id := range ids {
		e := dhtEntry{kind: kinds[r.Intn(len(kinds))]}
		np := hx.Pick(r, 0, 1, 2, 3, 5, 8, 12)
		if r.Intn(25) == 0 {
			np = 60
		}
		for j := 0; j < np; j++ {
			switch r.Intn(12) {
			case 0:
				e.peers = append(e.peers, id) // itself
			case 1:
				e.peers = append(e.peers, p2p.PeerID{}) // zero id
			case 2: // fabricated
				var f p2p.PeerID
				r.Read(f[:])
				if r.Intn(2) == 0 {
					copy(f[:], key[:min(len(key), 31)])
				}
				e.peers = append(e.peers, f)
			default:
				e.peers = append(e.peers, ids[r.Intn(len(ids))])
			}
		}
		net.tab[id] = e
	}
	ninit := hx.Pick(r, 0, 1, 1, 2, 3, 4, 6)
	var initial []p2p.PeerID
	for j := 0; j < ninit; j++ {
		initial = append(initial, ids[r.Intn(len(ids))]) // duplicates possible
	}
	if r.Intn(10) == 0 {
		var f p2p.PeerID
		r.Read(f[:])
		initial = append(initial, f) // unknown initial peer
	}
	return net, initial
}

func genDhtCase(r *rand.Rand) (op string, key []byte, param int, initial []p2p.PeerID, net *dhtNet) {
	op = hx.Pick(r, "findnode", "join", "get", "put")
	key = hx.Bytes(r, 32)
	if r.Intn(8) == 0 {
		key = make([]byte, 32)
	}
	if (op == "get" || op == "put") && r.Intn(6) == 0 {
		key = append(key, hx.Bytes(r, 1+r.Intn(8))...) // longer keys are fine; shorter ones make ids indistinguishable
	}
	net, initial = genDhtNet(r, key[:32])
	if op == "put" {
		param = hx.Pick(r, 0, 1, 2, 3, 5)
	}
	if op == "get" {
		param = r.Intn(2) // which of the two equivalent validators the caller passes
	}
	return
}

func dhtLine(op string, key []byte, param int, initial []p2p.PeerID, net *dhtNet) string {
	return fmt.Sprintf("dht %s %s %d %s %s", op, hx.Hex(key), param, idsStr(initial), net.String())
}

func dhtStream(r *rand.Rand, n int, tier string, o *hx.Out) {
	for i := 0; i < n; i++ {
		op, key, param, initial, net := genDhtCase(r)
		run := dhtDo(op, key, param, initial, net)
		o.Emit("dht/"+op, len(run.asks) > 1, dhtLine(op, key, param, initial, net), run.result)
	}
	for _, lim := range []int{0, 1, 3, 9, 10, 11, 50, 1000} {
		o.Emit("findnodelimit", true, fmt.Sprintf("findnodelimit %d", lim), strconv.Itoa(findNodeLimitDo(lim)))
	}
}

// findNodeLimitDo asks a real DHTNode with 40 known peers for `lim` nodes.
func findNodeLimitDo(lim int) int {
	var local p2p.PeerID
	node := kademlia.NewDHTNode(kademlia.DHTNodeParams{LocalID: local, PeerCacheSize: 1000})
	for i := 0; i < 40; i++ {
		var id p2p.PeerID
		id[0] = byte(i + 1)
		id[5] = byte(i * 7)
		node.AddPeer(id, nil)
	}
	res, _ := node.HandleFindNode(local, kademlia.FindNodeReq{Target: pid([]byte{9, 9}), Limit: lim})
	return len(res.Nodes)
}

func dhtReplay(op []string, o *hx.Out) {
	line := strings.Join(op, " ")
	switch op[0] {
	case "dht":
		param, _ := strconv.Atoi(op[3])
		run := dhtDo(op[1], hx.UnHex(op[2]), param, parseIDs(op[4]), parseDhtNet(op[5]))
		o.Emit("dht/"+op[1], true, line, run.result)
	case "findnodelimit":
		lim, _ := strconv.Atoi(op[1])
		o.Emit("findnodelimit", true, line, strconv.Itoa(findNodeLimitDo(lim)))
	}
}

func xorDist(key []byte, id p2p.PeerID) []byte {
	l := min(len(key), 32)
	d := make([]byte, l)
	for i := range d {
		d[i] = key[i] ^ id[i]
	}
	return d
}

// dhtOracle: C20 stated on the implementation with global knowledge of the simulated network.
// dhtFabricatorCase: responders that make up fresh peers for as long as they are asked. With a key shorter than the ids
// many ids are equally far from the key; a responder that only ever names peers no nearer than itself must not keep the
// operation going: every operation ends after the initial peers (C20: terminates whatever peer lists are returned,
// fabricated ones included). A second network names peers that really are nearer, a bounded number of times: those
// are followed.
func dhtFabricatorCase(r *rand.Rand, fail func(string, ...any)) {
	for _, op := range []string{"get", "put"} {
		for _, nearer := range []int{0, 5} {
			key := hx.Bytes(r, 2)
			var start kademlia.NodeInfo
			copy(start.ID[:], key)
			start.ID[1] ^= 0x40 // two bytes visible to the two-byte key
			start.ID[2] = 1
			asks, fresh := 0, 0
			const limit = 300
			peersOf := func(n kademlia.NodeInfo) (out []kademlia.NodeInfo, err error) {
				asks++
				if asks > limit {
					return nil, errors.New("gone")
				}
				for k := 0; k < 2; k++ { // the same two leading bytes: exactly as far from the key as n
					fresh++
					x := n
					binary.BigEndian.PutUint32(x.ID[4:], uint32(fresh))
					out = append(out, x)
				}
				if nearer > 0 && n.ID[1] != key[1] { // one peer that is nearer, until the distance in byte 1 is used up
					x := n
					d := (n.ID[1] ^ key[1]) >> 1
					x.ID[1] = key[1] ^ d
					out = append(out, x, n)
				}
				return out, nil
			}
			done := make(chan struct{})
			go func() {
				defer close(done)
				defer func() { recover() }()
				if op == "get" {
					kademlia.DHTGet(kademlia.DHTGetParams{Initial: []kademlia.NodeInfo{start}, Key: key,
						Ask: func(n kademlia.NodeInfo, _ kademlia.GetReq) (kademlia.GetRes, error) {
							ps, err := peersOf(n)
							return kademlia.GetRes{Closer: ps}, err
						}})
				} else {
					kademlia.DHTPut(kademlia.DHTPutParams{Initial: []kademlia.NodeInfo{start}, Key: key, Value: []byte("v"), TTL: time.Minute,
						Ask: func(n kademlia.NodeInfo, _ kademlia.PutReq) (kademlia.PutRes, error) {
							ps, err := peersOf(n)
							return kademlia.PutRes{Accepted: true, Closer: ps}, err
						}})
				}
			}()
			select {
			case <-done:
			case <-time.After(5 * time.Second):
				fail("%s with fabricating responders did not terminate within 5s", op)
				continue
			}
			want := 1
			if nearer > 0 {
				want = 8 // the nearer chain halves the distance in byte 1: 0x40, 0x20, ..., 0x01, 0
			}
			if asks > want {
				fail("%s with a 2-byte key: responders that only make up peers no nearer than themselves kept the operation going for %d asks (the nearer peers they name justify %d)", op, asks, want)
			}
		}
	}
}

func dhtOracle(r *rand.Rand, n int, tier string, infile string) (cases int, fails []string) {
	if oracleOffset == 0 {
		dhtFabricatorCase(r, func(f string, a ...any) { fails = append(fails, fmt.Sprintf(f, a...)) })
		cases += 4
	}
	check := func(op string, key []byte, param int, initial []p2p.PeerID, net *dhtNet) {
		cases++
		run := dhtDo(op, key, param, initial, net)
		line := dhtLine(op, key, param, initial, net)
		fail := func(f string, a ...any) {
			if len(fails) < 30 {
				fails = append(fails, fmt.Sprintf(f, a...)+" history=["+line+"]")
			}
		}
		if run.panicked {
			fail("%s panics (%s)", op, hx.LastPanic)
			return
		}
		if run.timedOut {
			fail("%s did not terminate within 5s", op)
			return
		}
		seen := map[p2p.PeerID]bool{}
		mentioned := map[p2p.PeerID]bool{}
		for _, id := range initial {
			mentioned[id] = true
		}
		for _, id := range run.asks {
			if seen[id] {
				fail("%s contacted %s twice", op, hx.Hex(id[:4]))
				return
			}
			seen[id] = true
			if !mentioned[id] {
				fail("%s contacted %s which nobody mentioned", op, hx.Hex(id[:4]))
				return
			}
			if e, ok := net.tab[id]; ok && e.kind != 'f' {
				for _, p := range e.peers {
					mentioned[p] = true
				}
			}
		}
		nearestOf := func(pred func(id p2p.PeerID, e dhtEntry, ok bool) bool) (best p2p.PeerID, any bool) {
			for _, id := range run.asks {
				e, ok := net.tab[id]
				if !pred(id, e, ok) {
					continue
				}
				if !any || bytes.Compare(xorDist(key, id), xorDist(key, best)) < 0 {
					best, any = id, true
				}
			}
			return
		}
		switch op {
		case "put":
			acc := 0
			for _, id := range run.asks {
				if e, ok := net.tab[id]; ok && e.kind == 'a' {
					acc++
				}
			}
			if run.accepted != acc {
				fail("put reports accepted=%d but %d distinct nodes accepted", run.accepted, acc)
			}
			min := param
			if min < 1 {
				min = 2
			}
			if run.err != (acc < min) {
				fail("put error=%v with %d acceptors and minimum %d", run.err, acc, min)
			}
			if best, any := nearestOf(func(id p2p.PeerID, e dhtEntry, ok bool) bool { return ok && e.kind == 'a' }); any && run.closest != best {
				fail("put reports closest=%s but the nearest acceptor is %s", hx.Hex(run.closest[:4]), hx.Hex(best[:4]))
			}
		case "get":
			if run.value != nil {
				f := pid(run.from)
				e, ok := net.tab[f]
				if !seen[f] || !ok || e.kind != 'a' || !bytes.Equal(run.value, append([]byte{1}, f[:2]...)) {
					fail("get returned value %s from %s which is not a validated value of a contacted node", hx.Hex(run.value), hx.Hex(f[:4]))
				}
			}
			// truthful: a contacted node answered with a value that passes validation => that (or another such) value is
			// reported. (The error is tied to From being the zero id, which the model mirrors; the property does not speak
			// about it.)
			for _, id := range run.asks {
				if e, ok := net.tab[id]; ok && e.kind == 'a' && run.value == nil {
					fail("get contacted %s, which answered with a valid value, but reports no value (err=%v)", hx.Hex(id[:4]), run.err)
					break
				}
			}
			if best, any := nearestOf(func(id p2p.PeerID, e dhtEntry, ok bool) bool { return ok && e.kind != 'f' }); any && run.closest != best {
				fail("get reports closest=%s but the nearest responder is %s", hx.Hex(run.closest[:4]), hx.Hex(best[:4]))
			}
		case "findnode":
			// a record that did not pass validation is never contacted and never reported (initial peers are the
			// caller's own and are not validated)
			isInitial := map[p2p.PeerID]bool{}
			for _, id := range initial {
				isInitial[id] = true
			}
			for _, a := range run.asks {
				if id := a; id[31]%4 == 3 && !isInitial[id] {
					fail("findnode contacted %s, a record that did not pass validation", hx.Hex(id[:4]))
					break
				}
			}
			if run.closest[31]%4 == 3 && !isInitial[run.closest] && len(run.asks) > 0 {
				fail("findnode reports closest=%s, a record that did not pass validation", hx.Hex(run.closest[:4]))
			}
			// the reported closest is a node that was mentioned, and no contacted node is nearer
			if len(initial) > 0 && !mentioned[run.closest] {
				fail("findnode reports closest=%s which nobody mentioned", hx.Hex(run.closest[:4]))
			}
			if best, any := nearestOf(func(id p2p.PeerID, e dhtEntry, ok bool) bool { return true }); any && bytes.Compare(xorDist(key, best), xorDist(key, run.closest)) < 0 {
				fail("findnode reports closest=%s but contacted %s is nearer", hx.Hex(run.closest[:4]), hx.Hex(best[:4]))
			}
			if run.err != (run.closest != pid(key)) {
				fail("findnode error=%v but closest==target is %v", run.err, run.closest == pid(key))
			}
		}
	}
	for _, op := range readOps(infile) {
		if op[0] == "dht" && len(op) == 6 {
			param, _ := strconv.Atoi(op[3])
			check(op[1], hx.UnHex(op[2]), param, parseIDs(op[4]), parseDhtNet(op[5]))
		}
	}
	for i := 0; i < n; i++ {
		check(genDhtCase(r))
	}
	for _, lim := range []int{0, 1, 3, 9, 10, 11, 50, 1000, -1} {
		cases++
		if got := findNodeLimitDo(lim); got > 10 || (lim >= 0 && lim <= 10 && got != lim) {
			fails = append(fails, fmt.Sprintf("HandleFindNode(limit=%d) returned %d nodes", lim, got))
		}
	}
	return cases, fails
}
