package main

import (
	"context"
	"encoding/binary"
	"fmt"
	"math/rand"
	"strconv"
	"strings"
	"time"

	"go.brendoncarroll.net/p2p"
	"go.brendoncarroll.net/p2p/p/p2pmux"
	"go.brendoncarroll.net/p2p/s/memswarm"
	"verifharness/internal/hx"
)

func init() {
	streams["mux"] = muxStream
	replayers["mux"] = func() replayFn { return muxReplay }
}

var muxKinds = []string{"str", "varint", "u16", "u32", "u64"}

func flat(v p2p.IOVec) []byte { return p2p.VecBytes(nil, v) }

// muxDo applies the real mux function of kind k to channel token c.
func muxDo(k, c string, p []byte) string {
	return hx.Guard(func() string {
		// the caller's vector: several segments and spare capacity (what append / make(IOVec, n, m) / a sub-slice
		// give), still owned by the caller after the call
		v, same := callerVec(p)
		var out p2p.IOVec
		switch k {
		case "str":
			out = p2pmux.VerifStringMux(string(hx.UnHex(c)), v)
		case "varint":
			n, _ := strconv.ParseUint(c, 10, 64)
			out = p2pmux.VerifVarintMux(n, v)
		case "u16":
			n, _ := strconv.ParseUint(c, 10, 16)
			out = p2pmux.VerifUint16Mux(uint16(n), v)
		case "u32":
			n, _ := strconv.ParseUint(c, 10, 32)
			out = p2pmux.VerifUint32Mux(uint32(n), v)
		case "u64":
			n, _ := strconv.ParseUint(c, 10, 64)
			out = p2pmux.VerifUint64Mux(n, v)
		default:
			return "bad-kind"
		}
		res := hx.Hex(flat(out))
		if !same() {
			res += " caller-vector-changed"
		}
		return res
	})
}

// callerVec cuts p into 1-3 segments held in a vector with spare capacity; same reports whether the vector
// (its length, the spare slots and every segment) is still what the caller built.
func callerVec(p []byte) (p2p.IOVec, func() bool) {
	k := 1 + len(p)%3
	v := make(p2p.IOVec, 0, k+2)
	var keep [][]byte
	for i := 0; i < k; i++ {
		seg := append([]byte{}, p[i*len(p)/k:(i+1)*len(p)/k]...)
		v = append(v, seg)
		keep = append(keep, append([]byte{}, seg...))
	}
	full := v[:cap(v)]
	return v, func() bool {
		if len(v) != k {
			return false
		}
		for i := range keep {
			if string(full[i]) != string(keep[i]) {
				return false
			}
		}
		for i := k; i < len(full); i++ {
			if full[i] != nil {
				return false
			}
		}
		return true
	}
}

func demuxDo(k string, frame []byte) string {
	frame = hx.Exact(frame)
	return hx.Guard(func() string {
		var c string
		var body []byte
		var err error
		switch k {
		case "str":
			var s string
			s, body, err = p2pmux.VerifStringDemux(frame)
			c = hx.Hex([]byte(s))
		case "varint":
			var n uint64
			n, body, err = p2pmux.VerifVarintDemux(frame)
			c = strconv.FormatUint(n, 10)
		case "u16":
			var n uint16
			n, body, err = p2pmux.VerifUint16Demux(frame)
			c = strconv.FormatUint(uint64(n), 10)
		case "u32":
			var n uint32
			n, body, err = p2pmux.VerifUint32Demux(frame)
			c = strconv.FormatUint(uint64(n), 10)
		case "u64":
			var n uint64
			n, body, err = p2pmux.VerifUint64Demux(frame)
			c = strconv.FormatUint(n, 10)
		}
		if err != nil {
			return "err"
		}
		return "ok " + c + " " + hx.Hex(body)
	})
}

func randChan(r *rand.Rand, k string) string {
	switch k {
	case "str":
		if r.Intn(4) == 0 {
			// names around the sizes a fixed header buffer or a one-byte length would have (a hex digest is 64 bytes)
			return hx.Hex(hx.Bytes(r, hx.Pick(r, 31, 32, 33, 54, 55, 56, 62, 63, 64, 65, 127, 128, 129, 255, 256, 257)))
		}
		return hx.Hex(hx.Bytes(r, hx.SmallLen(r)))
	case "varint", "u64":
		return strconv.FormatUint(hx.EdgeU64(r), 10)
	case "u16":
		return strconv.FormatUint(hx.EdgeU64(r)&0xffff, 10)
	case "u32":
		return strconv.FormatUint(hx.EdgeU64(r)&0xffffffff, 10)
	}
	panic(k)
}

// mutateFrame produces malformed and boundary frames from a valid one.
func mutateFrame(r *rand.Rand, f []byte) []byte {
	f = append([]byte{}, f...)
	switch r.Intn(7) {
	case 0: // truncate
		if len(f) > 0 {
			f = f[:r.Intn(len(f))]
		}
	case 1: // replace the header by an extreme uvarint
		v := hx.Pick(r, uint64(1)<<63, ^uint64(0), uint64(1)<<63-1, uint64(1)<<62, uint64(len(f)), uint64(len(f))+1, 1<<32)
		h := binary.AppendUvarint(nil, v)
		f = append(h, f[min(len(f), 1):]...)
	case 2: // overlong / overflowing varint
		f = append([]byte{0xff, 0xff, 0xff, 0xff, 0xff, 0xff, 0xff, 0xff, 0xff, byte(r.Intn(4))}, f...)
	case 3: // 11-byte continuation run
		f = append([]byte{0x80, 0x80, 0x80, 0x80, 0x80, 0x80, 0x80, 0x80, 0x80, 0x80, 0x80}, f...)
	case 4: // flip a byte
		if len(f) > 0 {
			f[r.Intn(len(f))] ^= byte(1 << uint(r.Intn(8)))
		}
	case 5: // raw random
		f = hx.Bytes(r, r.Intn(24))
	case 6: // length field exactly at / one past the end
		body := hx.Bytes(r, r.Intn(5))
		f = append(binary.AppendUvarint(nil, uint64(len(body)+r.Intn(3)-1)), body...)
	}
	return f
}

func muxStream(r *rand.Rand, n int, tier string, o *hx.Out) {
	for i := 0; i < n; i++ {
		k := muxKinds[r.Intn(len(muxKinds))]
		c := randChan(r, k)
		p := hx.Bytes(r, hx.SmallLen(r))
		op := fmt.Sprintf("mux %s %s %s", k, c, hx.Hex(p))
		frame := muxDo(k, c, p)
		o.Emit("mux/"+k, true, op, frame)
		if frame == "fault" {
			continue
		}
		fb := hx.UnHex(strings.Fields(frame)[0])
		if r.Intn(3) > 0 {
			fb = mutateFrame(r, fb)
		}
		o.Emit("demux/"+k, true, "demux "+k+" "+hx.Hex(fb), demuxDo(k, fb))
	}
	// MTU() and channel dispatch on real muxed swarms over an in-memory realm
	nsw := n / 150
	if nsw < 4 {
		nsw = 4
	}
	for i := 0; i < nsw; i++ {
		k := muxKinds[r.Intn(len(muxKinds))]
		muxSwarmCase(r, k, o)
	}
}

func muxSwarmCase(r *rand.Rand, k string, o *hx.Out) {
	inner := hx.Pick(r, 16, 64, 127, 128, 129, 300, 1200, 16383, 16384, 65536)
	nopen := 1 + r.Intn(6)
	chans := map[string]bool{}
	var opened []string
	for len(opened) < nopen {
		c := randChan(r, k)
		if !chans[c] {
			chans[c] = true
			opened = append(opened, c)
		}
	}
	var tells []string
	for j := 0; j < 6; j++ {
		c := opened[r.Intn(len(opened))]
		if r.Intn(4) == 0 {
			c = randChan(r, k) // possibly unopened at the destination
		}
		tells = append(tells, c)
	}
	ops := muxSwarmRun(k, inner, opened, tells, r.Int63())
	for _, l := range ops {
		o.Emit(l[0], true, l[1], l[2])
	}
}

type chanSwarm struct {
	c string
	s p2p.Swarm[memswarm.Addr]
}

func openChan(k string, base p2p.Swarm[memswarm.Addr]) func(c string) p2p.Swarm[memswarm.Addr] {
	switch k {
	case "str":
		m := p2pmux.NewStringMux[memswarm.Addr](base)
		return func(c string) p2p.Swarm[memswarm.Addr] { return m.Open(string(hx.UnHex(c))) }
	case "varint":
		m := p2pmux.NewVarintMux[memswarm.Addr](base)
		return func(c string) p2p.Swarm[memswarm.Addr] { n, _ := strconv.ParseUint(c, 10, 64); return m.Open(n) }
	case "u16":
		m := p2pmux.NewUint16Mux[memswarm.Addr](base)
		return func(c string) p2p.Swarm[memswarm.Addr] {
			n, _ := strconv.ParseUint(c, 10, 16)
			return m.Open(uint16(n))
		}
	case "u32":
		m := p2pmux.NewUint32Mux[memswarm.Addr](base)
		return func(c string) p2p.Swarm[memswarm.Addr] {
			n, _ := strconv.ParseUint(c, 10, 32)
			return m.Open(uint32(n))
		}
	case "u64":
		m := p2pmux.NewUint64Mux[memswarm.Addr](base)
		return func(c string) p2p.Swarm[memswarm.Addr] { n, _ := strconv.ParseUint(c, 10, 64); return m.Open(n) }
	}
	panic(k)
}

type gotMsg struct {
	c    string
	body []byte
}

// muxSwarmRun builds two muxes over one realm, opens `opened` on the receiving side and every told channel
// on the sending side, and reports MTU() per opened channel and where each told payload arrived.
func muxSwarmRun(k string, inner int, opened []string, tells []string, pseed int64) (lines [][3]string) {
	pr := rand.New(rand.NewSource(pseed))
	realm := memswarm.NewRealm(memswarm.WithMTU(inner), memswarm.WithQueueLen(16))
	a, b := realm.NewSwarm(), realm.NewSwarm()
	defer a.Close()
	defer b.Close()
	openA, openB := openChan(k, a), openChan(k, b)
	ctx, cf := context.WithCancel(context.Background())
	defer cf()
	got := make(chan gotMsg, 64)
	for _, c := range opened {
		c := c
		s := openB(c)
		lines = append(lines, [3]string{"mtu/" + k, fmt.Sprintf("mtu %s %s %d", k, c, inner), strconv.Itoa(s.MTU())})
		go func() {
			for {
				if err := s.Receive(ctx, func(m p2p.Message[memswarm.Addr]) {
					got <- gotMsg{c, append([]byte{}, m.Payload...)}
				}); err != nil {
					return
				}
			}
		}()
	}
	senders := map[string]p2p.Swarm[memswarm.Addr]{}
	for _, c := range tells {
		s, ok := senders[c]
		if !ok {
			s = openA(c)
			senders[c] = s
		}
		plen := pr.Intn(8)
		p := hx.Bytes(pr, plen)
		if fixedPayload != nil {
			p = fixedPayload
		}
		op := fmt.Sprintf("dispatch %s %d %s %s %s", k, inner, c, hx.Hex(p), strings.Join(opened, " "))
		if err := s.Tell(ctx, b.LocalAddr(), p2p.IOVec{p}); err != nil {
			res := "tell-err-other"
			if p2p.IsErrMTUExceeded(err) {
				res = "tell-err"
			}
			lines = append(lines, [3]string{"dispatch/" + k, op, res})
			continue
		}
		isOpen := false
		for _, oc := range opened {
			if oc == c {
				isOpen = true
			}
		}
		wait := 2 * time.Second
		if !isOpen {
			wait = 30 * time.Millisecond
		}
		select {
		case g := <-got:
			lines = append(lines, [3]string{"dispatch/" + k, op, "got " + g.c + " " + hx.Hex(g.body)})
		case <-time.After(wait):
			lines = append(lines, [3]string{"dispatch/" + k, op, "none"})
		}
	}
	return lines
}

// muxSwarmRunPayload replays one dispatch line with its exact payload.
func muxSwarmRunPayload(k string, inner int, opened []string, c string, p []byte) [][3]string {
	fixedPayload = p
	defer func() { fixedPayload = nil }()
	return muxSwarmRun(k, inner, opened, []string{c}, 1)
}

var fixedPayload []byte

func muxReplay(op []string, o *hx.Out) {
	line := strings.Join(op, " ")
	switch op[0] {
	case "mux":
		o.Emit("mux/"+op[1], true, line, muxDo(op[1], op[2], hx.UnHex(op[3])))
	case "demux":
		o.Emit("demux/"+op[1], true, line, demuxDo(op[1], hx.UnHex(op[2])))
	case "mtu":
		inner, _ := strconv.Atoi(op[3])
		ls := muxSwarmRun(op[1], inner, []string{op[2]}, nil, 1)
		o.Emit(ls[0][0], true, ls[0][1], ls[0][2])
	case "dispatch":
		// re-run with the same channel, the same open set and the same payload length (payload itself is regenerated)
		inner, _ := strconv.Atoi(op[2])
		ls := muxSwarmRunPayload(op[1], inner, op[5:], op[3], hx.UnHex(op[4]))
		for _, l := range ls {
			if strings.HasPrefix(l[1], "dispatch") {
				o.Emit(l[0], true, l[1], l[2])
			}
		}
	}
}

func init() { oracles["mux"] = muxOracle }

// muxOracle: C15/C08/C09 stated on the implementation — demux(mux(c,p)) = (c,p); demux never panics;
// a payload of exactly MTU() is accepted and delivered to the channel it was told on and only there.
func muxOracle(r *rand.Rand, n int, tier string, infile string) (cases int, fails []string) {
	if oracleOffset == 0 {
		// the open-channel table decides delivery, also after a channel was closed and opened again
		muxReopenDeliveryCase(func(f string, a ...any) { fails = append(fails, fmt.Sprintf(f, a...)) })
		cases++
	}
	try := func(k, c string, p []byte) {
		cases++
		f := muxDo(k, c, p)
		if f == "fault" {
			fails = append(fails, fmt.Sprintf("mux panics: kind=%s chan=%s payload=%s", k, c, hx.Hex(p)))
			return
		}
		if strings.HasSuffix(f, " caller-vector-changed") {
			fails = append(fails, fmt.Sprintf("the %s multiplexer writes into the caller's vector (spare capacity): told segments are changed after the call, a second Tell of the same vector sends something else; chan=%s payload=%s", k, c, hx.Hex(p)))
			f = strings.TrimSuffix(f, " caller-vector-changed")
		}
		want := "ok " + c + " " + hx.Hex(p)
		if got := demuxDo(k, hx.UnHex(f)); got != want {
			fails = append(fails, fmt.Sprintf("round trip: kind=%s chan=%s payload=%s frame=%s demux=%q", k, c, hx.Hex(p), f, got))
		}
	}
	tryFrame := func(k string, f []byte) {
		cases++
		if demuxDo(k, f) == "fault" {
			fails = append(fails, fmt.Sprintf("demux panics: kind=%s frame=%s (%s)", k, hx.Hex(f), hx.LastPanic))
		}
	}
	trySwarm := func(k string, inner int, c string) {
		cases++
		ls := muxSwarmRun(k, inner, []string{c}, nil, 1)
		mtu, _ := strconv.Atoi(ls[0][2])
		if mtu < 0 {
			return
		}
		res := muxSwarmRunPayload(k, inner, []string{c}, c, make([]byte, mtu))
		for _, l := range res {
			if strings.HasPrefix(l[1], "dispatch") && !strings.HasPrefix(l[2], "got "+c+" ") {
				fails = append(fails, fmt.Sprintf("payload of exactly MTU()=%d on kind=%s chan=%s inner=%d: %s", mtu, k, c, inner, l[2]))
			}
		}
		res = muxSwarmRunPayload(k, inner, []string{c}, c, make([]byte, mtu+1))
		for _, l := range res {
			if strings.HasPrefix(l[1], "dispatch") && l[2] != "tell-err" {
				fails = append(fails, fmt.Sprintf("payload of MTU()+1=%d on kind=%s chan=%s inner=%d not refused with the MTU error: %s", mtu+1, k, c, inner, l[2]))
			}
		}
	}
	for _, op := range readOps(infile) {
		switch {
		case op[0] == "mux" && len(op) == 4:
			try(op[1], op[2], hx.UnHex(op[3]))
		case op[0] == "demux" && len(op) == 3:
			tryFrame(op[1], hx.UnHex(op[2]))
		case op[0] == "mtu" && len(op) == 4:
			inner, _ := strconv.Atoi(op[3])
			trySwarm(op[1], inner, op[2])
		case op[0] == "dispatch" && len(op) >= 5:
			inner, _ := strconv.Atoi(op[2])
			trySwarm(op[1], inner, op[3])
		}
	}
	if f := muxLateReaderCase(r); f != "" {
		fails = append(fails, f)
	}
	cases++
	for i := 0; i < n; i++ {
		k := muxKinds[r.Intn(len(muxKinds))]
		c := randChan(r, k)
		p := hx.Bytes(r, hx.SmallLen(r))
		try(k, c, p)
		tryFrame(k, mutateFrame(r, hx.UnHex(strings.Fields(muxDo(k, c, p) + " ")[0])))
		if i%500 == 0 {
			trySwarm(k, hx.Pick(r, 16, 64, 128, 300, 1200, 65536), c)
		}
	}
	return cases, fails
}

// muxLateReaderCase: a message is told on channel 1 while nobody reads that channel; meanwhile traffic flows on
// channel 2 (the transport underneath recycles its few receive buffers); then channel 1 is read. What arrives there
// must be what was told there (C15: channels are isolated; C14: the payload handed to a callback is not rewritten).
func muxLateReaderCase(r *rand.Rand) string {
	realm := memswarm.NewRealm(memswarm.WithQueueLen(hx.Pick(r, 1, 2, 4)))
	sx, sy := realm.NewSwarm(), realm.NewSwarm()
	mx, my := p2pmux.NewUint16Mux[memswarm.Addr](sx), p2pmux.NewUint16Mux[memswarm.Addr](sy)
	x1, x2 := mx.Open(1), mx.Open(2)
	y1, y2 := my.Open(1), my.Open(2)
	defer sx.Close()
	defer sy.Close()
	ctx, cf := context.WithTimeout(context.Background(), 5*time.Second)
	defer cf()
	dst := x1.LocalAddrs()[0]
	want := "channel-one-payload-" + strconv.Itoa(r.Intn(1000))
	if err := y1.Tell(ctx, dst, p2p.IOVec{[]byte(want)}); err != nil {
		return ""
	}
	got2 := 0
	done := make(chan struct{})
	go func() {
		defer close(done)
		for got2 < 24 {
			rctx, rcf := context.WithTimeout(ctx, 300*time.Millisecond)
			err := x2.Receive(rctx, func(m p2p.Message[memswarm.Addr]) { got2++ })
			rcf()
			if err != nil {
				return
			}
		}
	}()
	for i := 0; i < 32; i++ {
		y2.Tell(ctx, dst, p2p.IOVec{[]byte(fmt.Sprintf("channel-two-msg-%03d-padding", i))})
		time.Sleep(200 * time.Microsecond)
	}
	<-done
	got := ""
	rctx, rcf := context.WithTimeout(ctx, time.Second)
	err := x1.Receive(rctx, func(m p2p.Message[memswarm.Addr]) { got = string(m.Payload) })
	rcf()
	if err == nil && got != want {
		return fmt.Sprintf("a message told on channel 1 (%q) while nobody was reading it arrives on channel 1 as %q after traffic on channel 2: the payload was rewritten while it waited", want, got)
	}
	return ""
}
