package main

import (
	"bytes"
	"fmt"
	"math/bits"
	"math/rand"
	"sort"
	"strconv"
	"strings"
	"time"

	"go.brendoncarroll.net/p2p/p/kademlia"
	"verifharness/internal/hx"
)

func init() {
	streams["cache"] = cacheStream
	replayers["cache"] = func() replayFn { st := &cacheState{}; return st.apply }
	oracles["cache"] = func(r *rand.Rand, n int, tier string, infile string) (int, []string) {
		return cacheOracle(r, n, tier, infile, true, false)
	}
	oracles["cacheorder"] = func(r *rand.Rand, n int, tier string, infile string) (int, []string) {
		return cacheOracle(r, n, tier, infile, false, true)
	}
}

func tm(t int64) time.Time {
	if t == 0 {
		return time.Time{}
	}
	return time.Unix(t, 0)
}

type cacheState struct {
	c     *kademlia.Cache[[]byte]
	locus []byte
}

type keyGen struct {
	locus []byte
	pool  [][]byte
}

// newKeyGen builds a small key universe around a locus so that sequences revisit keys and fill chosen buckets.
func newKeyGen(r *rand.Rand, locus []byte, allowShort bool) *keyGen {
	g := &keyGen{locus: locus}
	nbits := 8 * len(locus)
	npool := 6 + r.Intn(30)
	for len(g.pool) < npool {
		var k []byte
		switch r.Intn(8) {
		case 0: // equal to the locus (deepest bucket)
			k = append([]byte{}, locus...)
		case 1, 2, 3: // shares exactly i leading bits with the locus
			k = append([]byte{}, locus...)
			if nbits > 0 {
				i := r.Intn(nbits)
				k[i/8] ^= 0x80 >> uint(i%8)
				for j := i + 1; j < nbits; j++ {
					if r.Intn(2) == 0 {
						k[j/8] ^= 0x80 >> uint(j%8)
					}
				}
			}
		case 4: // longer than the locus
			k = append(append([]byte{}, locus...), hx.Bytes(r, 1+r.Intn(3))...)
			if len(locus) > 0 && r.Intn(2) == 0 {
				k[r.Intn(len(locus))] ^= byte(1 + r.Intn(255))
			}
		case 5: // shorter than the locus
			if allowShort && len(locus) > 0 {
				k = hx.Bytes(r, r.Intn(len(locus)))
				if r.Intn(2) == 0 {
					copy(k, locus)
				}
			} else {
				k = hx.Bytes(r, len(locus))
			}
		default:
			k = hx.Bytes(r, len(locus))
		}
		g.pool = append(g.pool, k)
	}
	return g
}

func (g *keyGen) key(r *rand.Rand) []byte { return g.pool[r.Intn(len(g.pool))] }

// query keys: pool keys, the locus, prefixes and extensions, random
func (g *keyGen) query(r *rand.Rand) []byte {
	switch r.Intn(6) {
	case 0:
		return g.locus
	case 1:
		k := g.key(r)
		return k[:r.Intn(len(k)+1)]
	case 2:
		return append(append([]byte{}, g.key(r)...), hx.Bytes(r, 1+r.Intn(2))...)
	case 3:
		return hx.Bytes(r, len(g.locus))
	case 4:
		k := append([]byte{}, g.key(r)...)
		if len(k) > 0 {
			k[len(k)-1] ^= byte(1 << uint(r.Intn(8)))
		}
		return k
	default:
		return g.key(r)
	}
}

func keysStr(ks [][]byte) string {
	if len(ks) == 0 {
		return "-"
	}
	ss := make([]string, len(ks))
	for i, k := range ks {
		ss[i] = hx.Hex(k)
	}
	return strings.Join(ss, ",")
}

func (st *cacheState) apply(op []string, o *hx.Out) {
	line := strings.Join(op, " ")
	atoi := func(s string) int64 { n, _ := strconv.ParseInt(s, 10, 64); return n }
	res := hx.Guard(func() string {
		switch op[0] {
		case "new":
			st.locus = hx.UnHex(op[1])
			r := "ok"
			func() {
				defer func() {
					if recover() != nil {
						r = "panic"
					}
				}()
				st.c = kademlia.NewCache[[]byte](st.locus, int(atoi(op[2])), int(atoi(op[3])))
			}()
			return r
		case "put", "upd":
			key, val, now, exp := hx.UnHex(op[1]), hx.UnHex(op[2]), atoi(op[3]), atoi(op[4])
			var ev *kademlia.Entry[[]byte]
			var added bool
			if op[0] == "put" {
				ev, added = st.c.Put(key, val, tm(now), tm(exp))
			} else {
				ev, added = st.c.Update(key, func(e kademlia.Entry[[]byte], exists bool) kademlia.Entry[[]byte] {
					if !exists {
						e.Key = key
						e.CreatedAt = tm(now)
					}
					e.ExpiresAt = tm(exp)
					e.Value = val
					return e
				})
			}
			evs := "-"
			if ev != nil {
				evs = hx.Hex(ev.Key)
			}
			a := 0
			if added {
				a = 1
			}
			return fmt.Sprintf("evicted=%s added=%d count=%d", evs, a, st.c.Count())
		case "get":
			v, ok := st.c.Get(hx.UnHex(op[1]), time.Time{})
			// Contains is the same look-up (an entry stays visible until Expire, Delete or an eviction removes it),
			// whatever time the caller passes: no time, a past one, one far in the future
			cs := ""
			for _, at := range []time.Time{{}, tm(1), tm(1 << 40)} {
				if st.c.Contains(hx.UnHex(op[1]), at) {
					cs += "1"
				} else {
					cs += "0"
				}
			}
			if !ok {
				return "none c=" + cs
			}
			return hx.Hex(v) + " c=" + cs
		case "del":
			e := st.c.Delete(hx.UnHex(op[1]))
			s := "-"
			if e != nil {
				s = hx.Hex(e.Key)
			}
			return fmt.Sprintf("%s count=%d", s, st.c.Count())
		case "expire":
			// the caller's slice may already hold entries (expired entries of several sweeps collected in one slice)
			pre := make([]kademlia.Entry[[]byte], ((atoi(op[1])%3)+3)%3)
			for i := range pre {
				pre[i].Key = []byte{0xee, byte(i)}
			}
			out := st.c.Expire(pre, tm(atoi(op[1])))
			if len(out) < len(pre) {
				return "expire-dropped-callers-entries"
			}
			for i := range pre {
				if !bytes.Equal(out[i].Key, []byte{0xee, byte(i)}) {
					return "expire-changed-callers-entries"
				}
			}
			out = out[len(pre):]
			var ks [][]byte
			for _, e := range out {
				ks = append(ks, e.Key)
			}
			sort.Slice(ks, func(i, j int) bool { return bytes.Compare(ks[i], ks[j]) < 0 })
			return fmt.Sprintf("%s count=%d", keysStr(ks), st.c.Count())
		case "count":
			return strconv.Itoa(st.c.Count())
		case "dump":
			var es []kademlia.Entry[[]byte]
			st.c.ForEach(nil, func(e kademlia.Entry[[]byte]) bool { es = append(es, e); return true })
			sort.Slice(es, func(i, j int) bool { return bytes.Compare(es[i].Key, es[j].Key) < 0 })
			if len(es) == 0 {
				return "-"
			}
			ss := make([]string, len(es))
			for i, e := range es {
				ss[i] = fmt.Sprintf("%s:%s:%d:%d", hx.Hex(e.Key), hx.Hex(e.Value), untm(e.CreatedAt), untm(e.ExpiresAt))
			}
			return strings.Join(ss, ",")
		case "foreach":
			var ks [][]byte
			st.c.ForEach(hx.UnHex(op[1]), func(e kademlia.Entry[[]byte]) bool { ks = append(ks, e.Key); return true })
			return keysStr(ks)
		case "closest":
			e := st.c.Closest(hx.UnHex(op[1]))
			if e == nil {
				return "none"
			}
			return hx.Hex(e.Key)
		case "closer":
			var ks [][]byte
			st.c.ForEachCloser(hx.UnHex(op[1]), func(e kademlia.Entry[[]byte]) bool { ks = append(ks, e.Key); return true })
			return keysStr(ks)
		case "matching":
			var ks [][]byte
			nbits, _ := strconv.Atoi(op[2])
			st.c.ForEachMatching(hx.Exact(hx.UnHex(op[1])), nbits, func(e kademlia.Entry[[]byte]) bool { ks = append(ks, e.Key); return true })
			return keysStr(ks)
		}
		return "bad-op"
	})
	kind := op[0]
	o.Emit("cache/"+kind, kind != "new" && kind != "count", line, res)
}

func untm(t time.Time) int64 {
	if t.IsZero() {
		return 0
	}
	return t.Unix()
}

func cacheSeq(r *rand.Rand, nops int, allowShort bool, emit func(op string)) {
	loclen := hx.Pick(r, 0, 1, 1, 1, 2, 2, 3, 32)
	locus := hx.Bytes(r, loclen)
	if r.Intn(3) == 0 {
		for i := range locus {
			locus[i] = 0
		}
	}
	minPer := hx.Pick(r, 0, 0, 1, 1, 2)
	floor := minPer * 8 * loclen
	max := floor + hx.Pick(r, 0, 0, 1, 2, 3, 5, 8, 20)
	if r.Intn(15) == 0 {
		max = 0
	}
	if max < floor {
		max = floor
	}
	emit(fmt.Sprintf("new %s %d %d", hx.Hex(locus), max, minPer))
	g := newKeyGen(r, locus, allowShort)
	now := int64(0)
	if r.Intn(4) > 0 {
		now = 1000
	}
	for i := 0; i < nops; i++ {
		if now > 0 && r.Intn(3) == 0 {
			now += int64(r.Intn(5))
		}
		switch x := r.Intn(20); {
		case x < 8:
			exp := int64(0)
			if r.Intn(4) > 0 {
				exp = now + int64(r.Intn(30))
			}
			op := "put"
			if r.Intn(4) == 0 {
				op = "upd"
			}
			emit(fmt.Sprintf("%s %s %s %d %d", op, hx.Hex(g.key(r)), hx.Hex(hx.Bytes(r, r.Intn(3))), now, exp))
		case x < 10:
			emit("get " + hx.Hex(g.key(r)))
		case x < 12:
			emit("del " + hx.Hex(g.key(r)))
		case x < 13:
			emit(fmt.Sprintf("expire %d", now+int64(r.Intn(20))-2))
		case x < 14:
			emit("dump")
		case x < 16:
			emit("foreach " + hx.Hex(g.query(r)))
		case x < 17:
			emit("closest " + hx.Hex(g.query(r)))
		case x < 18:
			emit("closer " + hx.Hex(g.query(r)))
		case x < 19:
			// prefix queries: a prefix of the locus, of an entry-like key, or random; bit counts around the byte
			// boundaries and the prefix length
			p := g.query(r)
			if len(p) > 0 && r.Intn(2) == 0 {
				p = p[:1+r.Intn(len(p))]
			}
			nb := hx.Pick(r, 0, 1, 4, 7, 8, 9, 15, 16, 17, 8*len(p)-1, 8*len(p), r.Intn(8*len(p)+1))
			if nb < 0 {
				nb = 0
			}
			if nb > 8*len(p) && r.Intn(10) > 0 { // asking for more bits than the prefix has is a documented panic: rare
				nb = 8 * len(p)
			}
			emit(fmt.Sprintf("matching %s %d", hx.Hex(p), nb))
		default:
			emit("count")
		}
	}
	emit("dump")
}

func cacheStream(r *rand.Rand, n int, tier string, o *hx.Out) {
	st := &cacheState{}
	total := 0
	for total < n {
		nops := 20 + r.Intn(200)
		cacheSeq(r, nops, true, func(op string) { st.apply(strings.Fields(op), o); total++ })
	}
}

// cacheOracle restates C18/C19 on the implementation with a reference map kept by the oracle itself:
// Count() equals the number of entries ForEach enumerates and never exceeds max; an entry disappears only by
// Delete, Expire output or a reported eviction; Get returns the latest value; Expire removes exactly the
// expired entries; ForEach(k) is a permutation in non-decreasing distance; Closest is a minimum; ForEachCloser
// yields all and only the entries nearer to k than the locus.
func cacheOracle(r *rand.Rand, n int, tier string, infile string, checkMap, checkOrder bool) (cases int, fails []string) {
	fail := func(hist []string, format string, a ...any) {
		if len(fails) < 40 {
			h := hist
			if len(h) > 40 {
				h = h[len(h)-40:]
			}
			fails = append(fails, fmt.Sprintf(format, a...)+" history=["+strings.Join(h, "; ")+"]")
		}
	}
	type ref struct {
		val     []byte
		expires int64
	}
	runSeq := func(ops [][]string) {
		var st *cacheState
		var refm map[string]ref
		var hist []string
		var max, minPer int
		o := hx.NewOut("/dev/null", 0)
		defer o.Close("")
		for _, op := range ops {
			cases++
			hist = append(hist, strings.Join(op, " "))
			if op[0] == "new" {
				st = &cacheState{}
				refm = map[string]ref{}
				hist = hist[len(hist)-1:]
				max, _ = strconv.Atoi(op[2])
				minPer, _ = strconv.Atoi(op[3])
			}
			if st == nil {
				continue
			}
			before := o.N
			st.apply(op, o)
			_ = before
			res := o.Last()
			if res == "fault" && op[0] == "matching" {
				if nb, _ := strconv.Atoi(op[2]); nb > 8*len(hx.UnHex(op[1])) {
					continue // more bits than the prefix has: HasPrefix panics by contract ("nbits longer than prefix")
				}
			}
			if res == "fault" {
				fail(hist, "panic (%s)", hx.LastPanic)
				st = nil
				continue
			}
			if op[0] == "new" && res != "ok" {
				st = nil
				continue
			}
			atoi := func(s string) int64 { n, _ := strconv.ParseInt(s, 10, 64); return n }
			switch op[0] {
			case "put", "upd":
				f := strings.Fields(res)
				ev := strings.TrimPrefix(f[0], "evicted=")
				if max > 0 {
					refm[op[1]] = ref{hx.UnHex(op[2]), atoi(op[4])}
				}
				if ev != "-" {
					if _, ok := refm[ev]; !ok && checkMap {
						fail(hist, "reported victim %s was not in the cache", ev)
					}
					delete(refm, ev)
					if checkMap {
						// the victim comes from the farthest bucket that holds more than the protected minimum (inside a bucket
						// the newest entry goes: C18 is read at bucket granularity, as the theorem victim_farthest_unprotected is).
						// Buckets by the usual rule: the number of leading bits a key shares with the locus.
						bucketOf := func(k []byte) int {
							for i := 0; i < len(k) && i < len(st.locus); i++ {
								if x := k[i] ^ st.locus[i]; x != 0 {
									return 8*i + bits.LeadingZeros8(x)
								}
							}
							return 8 * len(st.locus)
						}
						counts := map[int]int{}
						for k := range refm {
							counts[bucketOf(hx.UnHex(k))]++
						}
						v := hx.UnHex(ev)
						for k := range refm {
							x := hx.UnHex(k)
							if counts[bucketOf(x)] > minPer && bucketOf(v) > bucketOf(x) {
								fail(hist, "C18 evicted %s (shares %d leading bits with the locus %x) although %s, in a farther bucket (%d bits) that holds more than the protected minimum, was kept", ev, bucketOf(v), st.locus, k, bucketOf(x))
								break
							}
						}
					}
				}
			case "get":
				want := "none c=000"
				if e, ok := refm[op[1]]; ok {
					want = hx.Hex(e.val) + " c=111"
				}
				if res != want && checkMap {
					fail(hist, "Get(%s) and Contains at three times = %s, reference map says %s", op[1], res, want)
				}
			case "del":
				delete(refm, op[1])
			case "expire":
				now := atoi(op[1])
				var want []string
				for k, e := range refm {
					if e.expires != 0 && tm(e.expires).Before(tm(now)) {
						want = append(want, k)
						delete(refm, k)
					}
				}
				sort.Slice(want, func(i, j int) bool { return bytes.Compare(hx.UnHex(want[i]), hx.UnHex(want[j])) < 0 })
				ws := "-"
				if len(want) > 0 {
					ws = strings.Join(want, ",")
				}
				if strings.Fields(res)[0] != ws && checkMap {
					fail(hist, "Expire(%d) removed %s, exactly the expired entries are %s", now, strings.Fields(res)[0], ws)
				}
			case "matching":
				if checkOrder && res != "fault" {
					prefix := hx.UnHex(op[1])
					nbits, _ := strconv.Atoi(op[2])
					got := map[string]int{}
					if res != "-" {
						for _, s := range strings.Split(res, ",") {
							got[s]++
						}
					}
					for k := range refm {
						kb := hx.UnHex(k)
						want := len(kb)*8 >= nbits && sharedBits(kb, prefix) >= nbits
						if want && got[k] != 1 {
							fail(hist, "ForEachMatching(%s, %d bits) visits %s %d times, it has the prefix", op[1], nbits, k, got[k])
						}
						if !want && got[k] != 0 {
							fail(hist, "ForEachMatching(%s, %d bits) visits %s, which does not have the prefix", op[1], nbits, k)
						}
					}
				}
			case "foreach", "closest", "closer":
				k := hx.UnHex(op[1])
				var got [][]byte
				if res != "-" && res != "none" {
					for _, s := range strings.Split(res, ",") {
						got = append(got, hx.UnHex(s))
					}
				}
				if checkOrder {
					cacheOrderOracle(op[0], k, st.locus, got, refKeys(refm), func(f string, a ...any) { fail(hist, f, a...) })
					// the comparator every ordered query rests on, against the definition: compare the XOR distances
					// (over the common length) as byte strings; a query key shorter than both keys sees equal distances
					keys := append(refKeys(refm), st.locus)
					for i := 0; i < len(keys) && i < 6; i++ {
						a, b := keys[i], keys[(i*7+3)%len(keys)]
						want := bytes.Compare(kademlia.Distance(k, a), kademlia.Distance(k, b))
						if gotc := kademlia.DistanceCmp(k, a, b); sign(gotc) != want {
							fail(hist, "DistanceCmp(%s, %s, %s) = %d, the distances %s and %s compare %d", hx.Hex(k), hx.Hex(a), hx.Hex(b), gotc,
								hx.Hex(kademlia.Distance(k, a)), hx.Hex(kademlia.Distance(k, b)), want)
							break
						}
						if lt := kademlia.DistanceLt(k, a, b); lt != (want < 0) {
							fail(hist, "DistanceLt(%s, %s, %s) = %v, the distances compare %d", hx.Hex(k), hx.Hex(a), hx.Hex(b), lt, want)
							break
						}
					}
				}
			}
			if !checkMap {
				continue
			}
			// count and content against the reference after every op
			cnt := st.c.Count()
			var all []string
			st.c.ForEach(nil, func(e kademlia.Entry[[]byte]) bool { all = append(all, hx.Hex(e.Key)); return true })
			if cnt != len(all) {
				fail(hist, "Count()=%d but the cache holds %d entries", cnt, len(all))
				st = nil
				continue
			}
			if cnt > max {
				fail(hist, "Count()=%d exceeds max=%d", cnt, max)
			}
			if len(all) != len(refm) {
				fail(hist, "cache holds %d entries, reference map (puts minus deletes/expired/reported victims) holds %d", len(all), len(refm))
				st = nil
				continue
			}
			for _, k := range all {
				if _, ok := refm[k]; !ok {
					fail(hist, "cache holds %s which the reference map does not", k)
					st = nil
					break
				}
			}
		}
	}
	if in := readOps(infile); len(in) > 0 {
		runSeq(in)
	}
	for cases < n {
		var ops [][]string
		cacheSeq(r, 20+r.Intn(120), false, func(op string) { ops = append(ops, strings.Fields(op)) })
		runSeq(ops)
	}
	// the recorded finding: entries whose key is shorter than the locus
	for i := 0; i < 200; i++ {
		var ops [][]string
		cacheSeq(r, 30+r.Intn(60), true, func(op string) { ops = append(ops, strings.Fields(op)) })
		runSeq(ops)
	}
	return cases, fails
}

func refKeys[V any](m map[string]V) [][]byte {
	var ks [][]byte
	for k := range m {
		ks = append(ks, hx.UnHex(k))
	}
	return ks
}

// brute-force order oracle, written against bytes.Compare of XOR distances (not against DistanceCmp)
func distOf(x, a []byte) []byte {
	l := len(x)
	if len(a) < l {
		l = len(a)
	}
	d := make([]byte, l)
	for i := range d {
		d[i] = x[i] ^ a[i]
	}
	return d
}

func cacheOrderOracle(kind string, k, locus []byte, got [][]byte, all [][]byte, fail func(string, ...any)) {
	short := false
	for _, a := range all {
		if len(a) < len(locus) {
			short = true
		}
	}
	tag := ""
	if short {
		tag = " [entry key shorter than locus]"
	}
	switch kind {
	case "foreach":
		if len(got) != len(all) {
			fail("ForEach(%s) visited %d entries of %d%s", hx.Hex(k), len(got), len(all), tag)
			return
		}
		seen := map[string]bool{}
		for _, g := range got {
			if seen[string(g)] {
				fail("ForEach(%s) visited %s twice%s", hx.Hex(k), hx.Hex(g), tag)
				return
			}
			seen[string(g)] = true
		}
		for i := 0; i+1 < len(got); i++ {
			if bytes.Compare(distOf(k, got[i]), distOf(k, got[i+1])) > 0 {
				fail("ForEach(%s) visits %s before %s although it is farther%s", hx.Hex(k), hx.Hex(got[i]), hx.Hex(got[i+1]), tag)
				return
			}
		}
	case "closest":
		if len(all) == 0 {
			if len(got) != 0 {
				fail("Closest on an empty cache returned %s", hx.Hex(got[0]))
			}
			return
		}
		if len(got) != 1 {
			fail("Closest(%s) returned nothing from a non-empty cache%s", hx.Hex(k), tag)
			return
		}
		for _, a := range all {
			if bytes.Compare(distOf(k, a), distOf(k, got[0])) < 0 {
				fail("Closest(%s) = %s but %s is nearer%s", hx.Hex(k), hx.Hex(got[0]), hx.Hex(a), tag)
				return
			}
		}
	case "closer":
		want := map[string]bool{}
		for _, a := range all {
			if bytes.Compare(distOf(k, a), distOf(k, locus)) < 0 {
				want[string(a)] = true
			}
		}
		for _, g := range got {
			if !want[string(g)] {
				fail("ForEachCloser(%s) yielded %s which is not nearer than the locus%s", hx.Hex(k), hx.Hex(g), tag)
				return
			}
			delete(want, string(g))
		}
		for a := range want {
			fail("ForEachCloser(%s) missed %s which is nearer than the locus%s", hx.Hex(k), hx.Hex([]byte(a)), tag)
			return
		}
	}
}

// sharedBits is the number of leading bits a and b have in common (over the shorter of the two)
func sharedBits(a, b []byte) int {
	for i := 0; i < len(a) && i < len(b); i++ {
		if x := a[i] ^ b[i]; x != 0 {
			return 8*i + bits.LeadingZeros8(x)
		}
	}
	return 8 * min(len(a), len(b))
}
