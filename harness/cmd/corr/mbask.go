package main

// mbask: model-free oracle for C11 on p/mbapp's ask/reply matching. An asker (restarted now and then on the same
// transport address: its counter starts again) has several asks outstanding to two responders; the network is the
// harness: it holds every datagram and hands requests and replies over late, out of order, more than once, after
// the ask was cancelled or after the asker restarted. Every Ask that returns success must return exactly what the
// handler produced for that very request.

import (
	"context"
	"fmt"
	"math/rand"
	"strings"
	"sync"
	"time"

	"go.brendoncarroll.net/p2p"
	"go.brendoncarroll.net/p2p/p/mbapp"
	"go.brendoncarroll.net/p2p/s/memswarm"
	"verifharness/internal/hx"
)

func init() { oracles["mbask"] = mbaskOracle }

// keepInner survives the Close of the swarm on top, so that a new one can be built on the same address.
type keepInner struct {
	p2p.SecureSwarm[memswarm.Addr, int]
}

func (k keepInner) Close() error { return nil }

type mbPkt struct {
	src, dst memswarm.Addr
	data     []byte
}

func mbaskOracle(r *rand.Rand, n int, tier string, infile string) (cases int, fails []string) {
	for cases < n {
		cases++
		if f := mbaskCase(r); f != "" && len(fails) < 10 {
			fails = append(fails, f)
		}
	}
	return cases, fails
}

func mbaskCase(r *rand.Rand) string {
	var mu sync.Mutex
	var held []mbPkt
	var log []string
	note := func(f string, a ...any) {
		mu.Lock()
		log = append(log, fmt.Sprintf(f, a...))
		mu.Unlock()
	}
	realm := memswarm.NewSecureRealm[int](memswarm.WithMTU(1200), memswarm.WithTellTransform(func(m *memswarm.Message) bool {
		mu.Lock()
		held = append(held, mbPkt{m.Src, m.Dst, append([]byte{}, m.Payload...)})
		mu.Unlock()
		return false
	}))
	ctx, cancel := context.WithCancel(context.Background())
	defer cancel()
	innerA := keepInner{realm.NewSwarm(0)}
	addrA := innerA.LocalAddrs()[0]
	var resp [2]*mbapp.Swarm[memswarm.Addr, int]
	var respAddr [2]memswarm.Addr
	release := make(chan struct{}) // handlers that were told to wait continue when this is closed
	for i := range resp {
		in := realm.NewSwarm(i + 1)
		respAddr[i] = in.LocalAddrs()[0]
		resp[i] = mbapp.New[memswarm.Addr, int](in, 1<<16)
		sw := resp[i]
		idx := i
		for w := 0; w < 4; w++ {
			go func() {
				for {
					if err := sw.ServeAsk(ctx, func(ctx context.Context, out []byte, m p2p.Message[memswarm.Addr]) int {
						req := string(m.Payload)
						if strings.HasSuffix(req, "!slow") {
							select {
							case <-release:
							case <-ctx.Done():
							}
						}
						if strings.HasSuffix(req, "!fail") {
							return -3
						}
						return copy(out, fmt.Sprintf("re%d:%s", idx, req))
					}); err != nil {
						return
					}
				}
			}()
		}
	}
	defer func() {
		for _, s := range resp {
			s.Close()
		}
	}()
	type result struct {
		req  string
		to   int
		resp string
		err  error
		late bool
	}
	var results []result
	var wg sync.WaitGroup
	var asker *mbapp.Swarm[memswarm.Addr, int]
	incarnation := 0
	newAsker := func() {
		if asker != nil {
			asker.Close()
		}
		incarnation++
		asker = mbapp.New[memswarm.Addr, int](innerA, 1<<16)
		note("asker incarnation %d", incarnation)
	}
	newAsker()
	defer func() { asker.Close() }()
	nask := 0
	ask := func() {
		nask++
		to := r.Intn(2)
		req := fmt.Sprintf("q%d-%d", incarnation, nask) + hx.Pick(r, "", "", "", "!slow", "!slow", "!fail")
		timeout := time.Duration(hx.Pick(r, 30, 30, 400)) * time.Millisecond
		sw := asker
		wg.Add(1)
		go func() {
			defer wg.Done()
			c2, cf := context.WithTimeout(ctx, timeout)
			defer cf()
			buf := make([]byte, 256)
			t0 := time.Now()
			n, err := sw.Ask(c2, buf, respAddr[to], p2p.IOVec{[]byte(req)})
			res := result{req: req, to: to, err: err, late: time.Since(t0) > timeout+300*time.Millisecond}
			if err == nil {
				res.resp = string(buf[:n])
			}
			mu.Lock()
			results = append(results, res)
			mu.Unlock()
		}()
		note("ask %s -> responder %d (timeout %v)", req, to, timeout)
	}
	// deliver one held datagram to the node it is addressed to (the asker's address = the current incarnation)
	deliver := func(p mbPkt, tag string) {
		switch {
		case p.dst == addrA:
			sw := asker
			mbapp.VerifHandleMessage(ctx, sw, p.src, p.dst, hx.Exact(p.data))
		default:
			for i := range resp {
				if p.dst == respAddr[i] {
					sw := resp[i]
					go mbapp.VerifHandleMessage(ctx, sw, p.src, p.dst, hx.Exact(p.data)) // may wait in the handler
				}
			}
		}
		note("%s datagram %v->%v (%d bytes)", tag, p.src, p.dst, len(p.data))
	}
	steps := 15 + r.Intn(40)
	for k := 0; k < steps; k++ {
		time.Sleep(time.Millisecond)
		switch x := r.Intn(20); {
		case x < 7:
			ask()
		case x < 15:
			mu.Lock()
			if len(held) == 0 {
				mu.Unlock()
				continue
			}
			i := r.Intn(len(held))
			p := held[i]
			dup := r.Intn(6) == 0
			if !dup {
				held = append(held[:i], held[i+1:]...)
			}
			mu.Unlock()
			deliver(p, map[bool]string{true: "duplicated", false: "delivered"}[dup])
		case x < 16:
			time.Sleep(35 * time.Millisecond) // short asks time out
		case x < 18:
			newAsker()
		default:
			select {
			case <-release:
			default:
				close(release)
				note("slow handlers released")
			}
		}
	}
	select {
	case <-release:
	default:
		close(release)
	}
	// flush: everything still held is delivered, replies included
	for round := 0; round < 6; round++ {
		time.Sleep(3 * time.Millisecond)
		mu.Lock()
		ps := held
		held = nil
		mu.Unlock()
		for _, p := range ps {
			deliver(p, "flushed")
		}
	}
	done := make(chan struct{})
	go func() { wg.Wait(); close(done) }()
	select {
	case <-done:
	case <-time.After(3 * time.Second):
		return "C11 an Ask is still blocked 3 s after its context's deadline history=[" + strings.Join(log, "; ") + "]"
	}
	mu.Lock()
	defer mu.Unlock()
	for _, res := range results {
		want := fmt.Sprintf("re%d:%s", res.to, res.req)
		if res.err == nil && res.resp != want {
			return fmt.Sprintf("C11 Ask(%q) to responder %d succeeded with %q; the handler produced %q for that request history=[%s]", res.req, res.to, res.resp, want, strings.Join(log, "; "))
		}
		if res.err == nil && strings.HasSuffix(res.req, "!fail") {
			return fmt.Sprintf("C11 Ask(%q) succeeded although the handler signalled failure history=[%s]", res.req, strings.Join(log, "; "))
		}
		if res.late {
			return fmt.Sprintf("C11 Ask(%q) returned long after its deadline history=[%s]", res.req, strings.Join(log, "; "))
		}
	}
	return ""
}
