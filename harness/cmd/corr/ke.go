package main

import (
	"bytes"
	crand "crypto/rand"

	"google.golang.org/protobuf/proto"

	"context"
	"crypto/ed25519"
	"encoding/binary"
	"fmt"
	"github.com/flynn/noise"
	"math/rand"
	"strconv"
	"strings"
	"sync"
	"time"

	"go.brendoncarroll.net/p2p"
	"go.brendoncarroll.net/p2p/f/x509"
	"go.brendoncarroll.net/p2p/p/p2pke"
	"go.uber.org/zap"
	"golang.org/x/crypto/blake2b"
	"verifharness/internal/hx"
)

func init() {
	streams["ke"] = keStream
	replayers["ke"] = func() replayFn { st := newKeState(); return st.apply }
	oracles["ke"] = keOracle
}

const nKeKeys = 4

var keKeys = func() (ret [nKeKeys]x509.PrivateKey) {
	reg := x509.DefaultRegistry()
	for i := range ret {
		seed := make([]byte, ed25519.SeedSize)
		seed[0] = byte(i + 1)
		algo, signer := x509.SignerFromStandard(ed25519.NewKeyFromSeed(seed))
		priv, err := reg.StoreSigner(algo, signer)
		if err != nil {
			panic(err)
		}
		ret[i] = priv
	}
	return ret
}()

var kePubs = func() (ret [nKeKeys][]byte) {
	reg := x509.DefaultRegistry()
	for i := range ret {
		pub, err := reg.PublicFromPrivate(&keKeys[i])
		if err != nil {
			panic(err)
		}
		ret[i] = x509.MarshalPublicKey(nil, &pub)
	}
	return ret
}()

func keyIndex(k x509.PublicKey) string {
	if k.IsZero() {
		return "-"
	}
	enc := x509.MarshalPublicKey(nil, &k)
	for i := range kePubs {
		if bytes.Equal(enc, kePubs[i]) {
			return strconv.Itoa(i)
		}
	}
	return "?"
}

type keChan struct {
	c    *p2pke.Channel
	sent [][]byte
}

type keState struct {
	base   time.Time
	msgs   [][]byte
	index  map[string]int
	sess   map[int]*p2pke.Session
	chans  map[int]*keChan
	hashed map[int]bool
	forged map[int]bool // junk derived by the adversary: not a well-formed hello even if its counter is 0
	// pending x-hash ops to emit after the current op
	pendingHash []int
}

func newKeState() *keState {
	return &keState{base: time.Unix(1_700_000_000, 0), index: map[string]int{}, sess: map[int]*p2pke.Session{},
		chans: map[int]*keChan{}, hashed: map[int]bool{}, forged: map[int]bool{}}
}

func (st *keState) intern(b []byte) int {
	if i, ok := st.index[string(b)]; ok {
		return i
	}
	i := len(st.msgs)
	st.msgs = append(st.msgs, append([]byte{}, b...))
	st.index[string(b)] = i
	if len(b) >= 4 && binary.BigEndian.Uint32(b) == 0 && !st.hashed[i] {
		st.hashed[i] = true
		st.pendingHash = append(st.pendingHash, i)
	}
	return i
}

func (st *keState) msgStr(b []byte) string {
	if len(b) == 0 {
		return "none"
	}
	return "msg " + strconv.Itoa(st.intern(b))
}

func (st *keState) at(n int) time.Time { return st.base.Add(time.Duration(n) * time.Second) }

func sessObs(s *p2pke.Session) string {
	r := 0
	if s.IsReady() {
		r = 1
	}
	return fmt.Sprintf("ready=%d rkey=%s hs=%d nonce=%d", r, keyIndex(s.RemoteKey()), s.VerifHsIndex(), s.VerifNonce())
}

func chanObs(c *p2pke.Channel) string {
	sl := c.VerifSlots()
	f := func(s p2pke.VerifSlot) string {
		if !s.Present {
			return "-"
		}
		r := "R"
		if s.IsInit {
			r = "I"
		}
		return r + strconv.Itoa(int(s.HsIndex))
	}
	return fmt.Sprintf("p=%s c=%s n=%s rkey=%s", f(sl[0]), f(sl[1]), f(sl[2]), keyIndex(c.RemoteKey()))
}

func (st *keState) apply(op []string, o *hx.Out) {
	line := strings.Join(op, " ")
	atoi := func(s string) int { n, _ := strconv.Atoi(s); return n }
	res := hx.Guard(func() string {
		switch op[0] {
		case "reset":
			for _, c := range st.chans {
				c.c.Close()
			}
			*st = *newKeState()
			return "ok"
		case "s-new":
			s := p2pke.NewSession(p2pke.SessionConfig{Registry: x509.DefaultRegistry(), PrivateKey: keKeys[atoi(op[3])],
				IsInit: op[2] == "1", Now: st.at(atoi(op[4])), RejectAfter: 1e6 * time.Hour, Logger: zap.NewNop()})
			st.sess[atoi(op[1])] = s
			if op[2] == "1" {
				return st.msgStr(s.Handshake(nil))
			}
			return "ok"
		case "s-hs":
			return st.msgStr(st.sess[atoi(op[1])].Handshake(nil))
		case "s-deliver":
			s := st.sess[atoi(op[1])]
			isApp, out, err := s.Deliver(nil, hx.Lend(st.msgs[atoi(op[2])]), st.at(atoi(op[3])))
			if out != nil {
				out = append([]byte{}, out...)
			}
			hx.Reclaim() // the caller's buffer is only valid during the call
			var r string
			switch {
			case err != nil:
				r = "err"
			case isApp:
				r = "app " + hx.Hex(out)
			case out == nil && st.isData(atoi(op[2])):
				r = "drop"
			default:
				r = "hs " + st.msgStr(out)
			}
			return r + " " + sessObs(s)
		case "s-send":
			s := st.sess[atoi(op[1])]
			out, err := s.Send(nil, hx.UnHex(op[2]), st.at(atoi(op[3])))
			if err != nil {
				return "err " + sessObs(s)
			}
			return st.msgStr(out) + " " + sessObs(s)
		case "x-hash":
			return "ok"
		case "x-junk": // the harness made the bytes when it generated the op; on replay they are rebuilt
			b := st.mkJunk(atoi(op[1]), atoi(op[2]), op[3] == "1")
			st.forged[st.intern(b)] = true
			return st.msgStr(b)
		case "x-short":
			st.forged[st.intern([]byte{0, 0})] = true
			return st.msgStr([]byte{0, 0})
		case "x-eph":
			b := append([]byte{}, st.msgs[atoi(op[1])]...)
			binary.BigEndian.PutUint64(b[4:], uint64(atoi(op[2]))) // a different (valid) curve point, unknown secret
			return st.msgStr(b)
		case "x-splice":
			a, b := st.msgs[atoi(op[1])], st.msgs[atoi(op[2])]
			return st.msgStr(append(append([]byte{}, a[:36]...), b[36:]...))
		case "x-lie": // the InitHello claims another key: same time-stamp, same signature, key k
			m := st.msgs[atoi(op[1])]
			body := m[36:]
			if len(body) < 2 {
				return "bad-op"
			}
			l := int(binary.BigEndian.Uint16(body[len(body)-2:]))
			if l > len(body)-2 {
				return "bad-op"
			}
			var ih p2pke.InitHello
			if err := proto.Unmarshal(body[len(body)-2-l:len(body)-2], &ih); err != nil {
				return "bad-op"
			}
			ih.KeyX509 = kePubs[atoi(op[2])]
			data, err := proto.Marshal(&ih)
			if err != nil {
				return "bad-op"
			}
			out := append(append([]byte{}, m[:36]...), data...)
			out = binary.BigEndian.AppendUint16(out, uint16(len(data)))
			return st.msgStr(out)
		case "c-new":
			kc := &keChan{}
			acc := op[3]
			kc.c = p2pke.NewChannel(p2pke.ChannelConfig{
				Registry: x509.DefaultRegistry(), PrivateKey: keKeys[atoi(op[2])], Logger: zap.NewNop(),
				Send: func(b []byte) { kc.sent = append(kc.sent, append([]byte{}, b...)) },
				AcceptKey: func(k *x509.PublicKey) bool {
					switch {
					case acc == "all":
						return true
					case acc == "none":
						return false
					}
					return keyIndex(*k) == strings.TrimPrefix(acc, "only:")
				},
				KeepAliveTimeout: 1e5 * time.Hour, HandshakeBackoff: 1e5 * time.Hour, RekeyAfterTime: 1e5 * time.Hour, RejectAfterTime: 1e5 * time.Hour,
			})
			kc.c.VerifDetachTimers()
			st.chans[atoi(op[1])] = kc
			return "ok"
		case "c-deliver":
			kc := st.chans[atoi(op[1])]
			kc.sent = nil
			out, err := kc.c.Deliver(nil, hx.Lend(st.msgs[atoi(op[2])]))
			if out != nil {
				out = append([]byte{}, out...)
			}
			hx.Reclaim()
			app := "-"
			if err != nil {
				app = "err"
			} else if out != nil {
				app = hx.Hex(out)
			}
			return fmt.Sprintf("app=%s sent=%s %s", app, st.sentStr(kc), chanObs(kc.c))
		case "c-send":
			kc := st.chans[atoi(op[1])]
			kc.sent = nil
			ctx, cf := context.WithCancel(context.Background())
			cf()
			err := kc.c.Send(ctx, p2p.IOVec{hx.UnHex(op[2])})
			if err == context.Canceled {
				return "blocked " + chanObs(kc.c)
			}
			if err != nil {
				return "err " + chanObs(kc.c)
			}
			return fmt.Sprintf("sent=%s %s", st.sentStr(kc), chanObs(kc.c))
		case "c-rekey":
			kc := st.chans[atoi(op[1])]
			kc.c.VerifOnRekey()
			return "hello=- " + chanObs(kc.c)
		case "c-hs":
			kc := st.chans[atoi(op[1])]
			kc.sent = nil
			kc.c.VerifOnHandshake()
			return fmt.Sprintf("sent=%s %s", st.sentStr(kc), chanObs(kc.c))
		}
		return "bad-op"
	})
	o.Emit(op[0], op[0] != "reset" && op[0] != "x-hash", line, res)
	for len(st.pendingHash) > 0 {
		i := st.pendingHash[0]
		st.pendingHash = st.pendingHash[1:]
		h := blake2b.Sum256(st.msgs[i])
		o.Emit("x-hash", false, fmt.Sprintf("x-hash %d %s", i, hx.Hex(h[:])), "ok")
	}
}

func (st *keState) isData(i int) bool {
	b := st.msgs[i]
	return len(b) >= 4 && binary.BigEndian.Uint32(b) >= 4
}

func (st *keState) sentStr(kc *keChan) string {
	if len(kc.sent) == 0 {
		return "-"
	}
	ss := make([]string, len(kc.sent))
	for i, b := range kc.sent {
		ss[i] = strconv.Itoa(st.intern(b))
	}
	return strings.Join(ss, ",")
}

// mkJunk derives a message that fails every check from message src: header counter ctr; long says whether
// the body keeps at least 32 bytes.
func (st *keState) mkJunk(src, ctr int, long bool) []byte {
	b := append([]byte{}, st.msgs[src]...)
	for len(b) < 60 {
		b = append(b, byte(len(b)*7+src))
	}
	if !long {
		b = b[:4+8]
	}
	binary.BigEndian.PutUint32(b, uint32(ctr))
	// corrupt the end of the authenticated part (signature of a hello claim / AEAD tag) and make it unique
	b[len(b)-3] ^= 0x55
	b = append(b, byte(len(st.msgs)), byte(len(st.msgs)>>8))
	if !long {
		b = b[:4+8+2]
	}
	if ctr == 0 && (src+len(st.msgs))%3 != 0 {
		// an InitHello-shaped packet whose length trailer sits at the boundaries of its body: parseInitHello reads the
		// last two bytes as the length of what precedes them (len(body)-2 is the largest valid value)
		body := len(b) - 4
		d := (src+len(st.msgs))%8 - 5 // -5 … 2
		l := body + d
		if l < 0 {
			l = 0
		}
		if len(b) >= 4+5 {
			b[len(b)-4], b[len(b)-5] = byte(len(st.msgs)), byte(len(st.msgs)>>8) // keeps the message unique
		}
		binary.BigEndian.PutUint16(b[len(b)-2:], uint16(l))
	}
	return b
}

// keScenario drives one scenario; exec executes an op line and returns the implementation's result.
func keScenario(r *rand.Rand, kind string, exec func(op string) string, st *keState) {
	n := 0
	now := func() int { n++; return n }
	lastOut := map[int]int{} // entity -> index of the last message it emitted
	rawExec := exec
	exec = func(op string) string {
		res := rawExec(op)
		f := strings.Fields(op)
		if len(f) >= 2 && (strings.HasPrefix(f[0], "s-") || strings.HasPrefix(f[0], "c-")) {
			ent, _ := strconv.Atoi(f[1])
			for _, tok := range strings.Fields(res) {
				if strings.HasPrefix(tok, "sent=") && tok != "sent=-" {
					parts := strings.Split(strings.TrimPrefix(tok, "sent="), ",")
					lastOut[ent], _ = strconv.Atoi(parts[len(parts)-1])
				}
			}
			if i := strings.Index(res, "msg "); i >= 0 {
				fmt.Sscanf(res[i:], "msg %d", new(int))
				var v int
				if _, err := fmt.Sscanf(res[i:], "msg %d", &v); err == nil {
					lastOut[ent] = v
				}
			}
		}
		return res
	}
	peer := func(e int) int { return e ^ 1 }
	exec("reset")
	msgCount := func() int { return len(st.msgs) }
	anyMsg := func() int {
		if msgCount() == 0 {
			return 0
		}
		if r.Intn(3) > 0 && msgCount() > 4 {
			return msgCount() - 1 - r.Intn(4)
		}
		return r.Intn(msgCount())
	}
	adv := func() { // adversary transformation producing a new message
		if msgCount() == 0 {
			return
		}
		switch r.Intn(6) {
		case 0, 1:
			src := anyMsg()
			own := 0
			if len(st.msgs[src]) >= 4 {
				own = int(binary.BigEndian.Uint32(st.msgs[src]))
			}
			ctr := hx.Pick(r, 0, 1, 2, 3, 4, 15, 16, 17, own)
			exec(fmt.Sprintf("x-junk %d %d %d", src, ctr, r.Intn(2)))
		case 2:
			exec("x-short")
		case 3, 4, 5:
			var hellos []int
			for i, m := range st.msgs {
				if len(m) > 100 && binary.BigEndian.Uint32(m) == 0 && !st.forged[i] {
					hellos = append(hellos, i)
				}
			}
			if len(hellos) == 0 {
				return
			}
			a := hellos[r.Intn(len(hellos))]
			switch r.Intn(3) {
			case 0:
				exec(fmt.Sprintf("x-eph %d %d", a, 1_000_000+msgCount()))
			case 1:
				exec(fmt.Sprintf("x-splice %d %d", a, hellos[r.Intn(len(hellos))]))
			default:
				exec(fmt.Sprintf("x-lie %d %d", a, r.Intn(nKeKeys)))
			}
		}
	}
	if kind == "sess" {
		// sessions: an honest pair, an unrelated pair, an adversary initiator and responder holding key 3
		type sd struct {
			init bool
			key  int
		}
		defs := []sd{{true, 0}, {false, 1}, {true, 2}, {false, 0}, {true, 3}, {false, 3}, {false, 1}}
		ns := 2 + r.Intn(len(defs)-1)
		for i := 0; i < ns; i++ {
			b := 0
			if defs[i].init {
				b = 1
			}
			exec(fmt.Sprintf("s-new %d %d %d %d", i, b, defs[i].key, now()))
		}
		steps := 10 + r.Intn(60)
		progress := r.Intn(3) > 0 // mostly make progress: deliver the latest messages
		for k := 0; k < steps; k++ {
			sid := r.Intn(ns)
			x := r.Intn(20)
			if msgCount() == 0 && x < 11 {
				x = 12
			}
			switch {
			case x < 11:
				m := anyMsg()
				if progress && r.Intn(4) > 0 {
					// hand the peer's latest message to this session
					if v, ok := lastOut[peer(sid)]; ok && peer(sid) < ns {
						m = v
					}
				}
				exec(fmt.Sprintf("s-deliver %d %d %d", sid, m, now()))
			case x < 13:
				exec(fmt.Sprintf("s-hs %d", sid))
			case x < 17:
				exec(fmt.Sprintf("s-send %d %s %d", sid, hx.Hex(append([]byte{0xAB, byte(k), byte(sid)}, hx.Bytes(r, r.Intn(4))...)), now()))
			default:
				adv()
			}
		}
		return
	}
	// channels
	accs := []string{"all", "all", "all", "none", "only:0", "only:1", "only:3"}
	nc := 2 + r.Intn(2)
	keys := []int{0, 1, hx.Pick(r, 2, 3, 0)}
	for i := 0; i < nc; i++ {
		exec(fmt.Sprintf("c-new %d %d %s", i, keys[i], accs[r.Intn(len(accs))]))
	}
	steps := 10 + r.Intn(80)
	for k := 0; k < steps; k++ {
		cid := r.Intn(nc)
		x := r.Intn(20)
		if msgCount() == 0 && x < 10 {
			x = 13
		}
		switch {
		case x < 10:
			m := anyMsg()
			if r.Intn(4) > 0 {
				p := peer(cid)
				if nc == 3 && (p >= nc || r.Intn(3) == 0) {
					p = (cid + 1 + r.Intn(2)) % 3 // the third channel takes part: it answers rekeys and hellos of the other two
				}
				if v, ok := lastOut[p]; ok && p < nc {
					m = v
				}
			}
			exec(fmt.Sprintf("c-deliver %d %d %d %d", cid, m, now(), 1000+n))
		case x < 13:
			exec(fmt.Sprintf("c-send %d %s %d", cid, hx.Hex(append([]byte{0xCD, byte(k), byte(cid)}, hx.Bytes(r, r.Intn(4))...)), now()))
		case x < 15:
			exec(fmt.Sprintf("c-rekey %d %d %d", cid, now(), 1000+n))
			exec(fmt.Sprintf("c-hs %d %d", cid, now()))
		case x < 18:
			exec(fmt.Sprintf("c-hs %d %d", cid, now()))
		default:
			adv()
		}
	}
}

func keStream(r *rand.Rand, n int, tier string, o *hx.Out) {
	st := newKeState()
	total := 0
	for total < n {
		kind := hx.Pick(r, "sess", "chan")
		keScenario(r, kind, func(op string) string {
			before := o.N
			st.apply(strings.Fields(op), o)
			total += o.N - before
			return o.Last()
		}, st)
	}
	for _, c := range st.chans {
		c.c.Close()
	}
}

// keOracle restates C02/C03/C05/C06/C07 directly on the real sessions and channels (no model involved).
func keOracle(r *rand.Rand, n int, tier string, infile string) (cases int, fails []string) {
	bad := func(f string, a ...any) {
		if len(fails) < 30 {
			fails = append(fails, fmt.Sprintf(f, a...))
		}
	}
	base := time.Unix(1_700_000_000, 0)
	newSess := func(init bool, key int, t int) *p2pke.Session {
		return p2pke.NewSession(p2pke.SessionConfig{Registry: x509.DefaultRegistry(), PrivateKey: keKeys[key], IsInit: init,
			Now: base.Add(time.Duration(t) * time.Second), RejectAfter: 1e6 * time.Hour, Logger: zap.NewNop()})
	}
	now := base.Add(time.Hour)
	// (a) C06 + (b) C02 on one honest pair plus an unrelated pair
	pairCase := func() {
		cases++
		var hist []string
		I, R := newSess(true, 0, 1), newSess(false, 1, 2)
		I2, R2 := newSess(true, 2, 3), newSess(false, 0, 4)
		var pool [][]byte
		add := func(b []byte) {
			if len(b) > 0 {
				pool = append(pool, append([]byte{}, b...))
			}
		}
		add(I.Handshake(nil))
		add(I2.Handshake(nil))
		genuineOnly := r.Intn(2) == 0 // C06: only the pair's own genuine messages circulate; otherwise C02: anything goes
		keyOf := map[string]string{"I": "0", "R": "1", "I2": "2", "R2": "0"}
		sentBy := map[string]string{} // plaintext -> key index of the sending session
		sent := map[string]bool{}     // plaintexts handed to Send, per direction tag
		got := map[string]int{}       // plaintext -> times delivered
		counters := map[string]bool{} // session tag + header counter of emitted data
		deliver := func(tag string, s *p2pke.Session, m []byte) {
			hsBefore := s.VerifHsIndex()
			isApp, out, err := s.Deliver(nil, m, now)
			if s.VerifHsIndex() < hsBefore {
				bad("C06 session %s regressed from hsIndex %d to %d history=%v", tag, hsBefore, s.VerifHsIndex(), hist)
			}
			if err == nil && isApp {
				got[tag+string(out)]++
				if got[tag+string(out)] > 1 {
					bad("C02 plaintext %x delivered twice to %s history=%v", out, tag, hist)
				}
				if k, ok := sentBy[string(out)]; !ok || k != keyIndex(s.RemoteKey()) {
					bad("C02 %s (remote key %s) delivered plaintext %q that was sent by key %q (ok=%v) history=%v", tag, keyIndex(s.RemoteKey()), out, k, ok, hist)
				}
			} else if err == nil && !isApp {
				if bytes.Contains(out, []byte("MARKER-")) {
					bad("C02 application plaintext appears on the transport: %s answered a delivery with %q history=%v", tag, out, hist)
				}
				add(out)
			}
		}
		send := func(tag string, s *p2pke.Session, k int) {
			p := append([]byte("MARKER-"+tag+"-"), byte(k), byte(k>>8))
			out, err := s.Send(nil, p, now)
			if err != nil {
				return
			}
			sent[tag+string(p)] = true
			sentBy[string(p)] = keyOf[tag]
			if bytes.Contains(out, []byte("MARKER-")) {
				bad("C02 plaintext appears on the transport: session %s", tag)
			}
			c := binary.BigEndian.Uint32(out)
			if c < 16 || counters[tag+strconv.Itoa(int(c))] {
				bad("C02 session %s emitted data under header counter %d (reused or inside the handshake range) history=%v", tag, c, hist)
			}
			counters[tag+strconv.Itoa(int(c))] = true
			add(out)
		}
		sess := map[string]*p2pke.Session{"I": I, "R": R, "I2": I2, "R2": R2}
		tags := []string{"I", "R", "I", "R", "I2", "R2"}
		if genuineOnly {
			tags = []string{"I", "R"}
			pool = pool[:1]
		}
		steps := r.Intn(40)
		for k := 0; k < steps; k++ {
			tag := tags[r.Intn(len(tags))]
			switch x := r.Intn(10); {
			case x < 6 && len(pool) > 0:
				i := r.Intn(len(pool))
				if r.Intn(2) == 0 {
					i = len(pool) - 1 - r.Intn(min(3, len(pool)))
				}
				m := pool[i]
				if !genuineOnly && r.Intn(8) == 0 { // bit flip / truncation by the adversary
					m = append([]byte{}, m...)
					if r.Intn(2) == 0 && len(m) > 5 {
						m[4+r.Intn(len(m)-4)] ^= 1 << uint(r.Intn(8))
					} else {
						m = m[:r.Intn(len(m)+1)]
					}
				}
				hist = append(hist, fmt.Sprintf("deliver %s #%d", tag, i))
				deliver(tag, sess[tag], m)
			case x < 8:
				hist = append(hist, "send "+tag)
				send(tag, sess[tag], k)
			default:
				a, b := sess[tag].Handshake(nil), sess[tag].Handshake(nil)
				if !bytes.Equal(a, b) {
					bad("C06 Handshake() of %s is not idempotent", tag)
				}
				add(a)
			}
		}
		if !genuineOnly {
			return
		}
		// C06 completion: each side's current handshake message, in sequence, twice
		for round := 0; round < 2; round++ {
			if m := I.Handshake(nil); len(m) > 0 {
				deliver("R", R, m)
			}
			if m := R.Handshake(nil); len(m) > 0 {
				deliver("I", I, m)
			}
		}
		if !I.IsReady() || !R.IsReady() {
			bad("C06 after delivering each side's handshake message once more in sequence: initiator ready=%v (hs %d) responder ready=%v (hs %d) history=%v",
				I.IsReady(), I.VerifHsIndex(), R.IsReady(), R.VerifHsIndex(), hist)
			return
		}
		for _, dir := range [][2]string{{"I", "R"}, {"R", "I"}} {
			p := []byte("final-" + dir[0])
			out, err := sess[dir[0]].Send(nil, p, now)
			if err != nil {
				bad("C06 %s cannot send after completion: %v history=%v", dir[0], err, hist)
				continue
			}
			isApp, pt, err := sess[dir[1]].Deliver(nil, out, now)
			if err != nil || !isApp || !bytes.Equal(pt, p) {
				bad("C06 data from %s does not arrive at %s after completion (isApp=%v err=%v header counter %d) history=%v", dir[0], dir[1], isApp, err, binary.BigEndian.Uint32(out), hist)
			}
		}
		if rk := I.RemoteKey(); keyIndex(rk) != "1" {
			bad("C03 initiator reports remote key %s, the responder's key is 1", keyIndex(rk))
		}
		if rk := R.RemoteKey(); keyIndex(rk) != "0" {
			bad("C03 responder reports remote key %s, the initiator's key is 0", keyIndex(rk))
		}
	}
	// (c) C03: an adversary holding key 3 replays / splices a victim's claim with its own ephemeral
	forgerBroken := 0
	defer func() {
		if forgerBroken > 0 {
			bad("C02 (harness) the raw-Noise forger could not read a RespHello in %d cases: its cipher suite or framing no longer matches p/p2pke, so the forged-data case is not being exercised", forgerBroken)
		}
	}()
	spoofCase := func() {
		cases++
		victim := newSess(true, 0, 1)
		vhello := victim.Handshake(nil)
		adv := newSess(true, 3, 2)
		ahello := adv.Handshake(nil)
		spliced := append(append([]byte{}, ahello[:36]...), vhello[36:]...) // adversary ephemeral + victim's signed claim
		R := newSess(false, 1, 3)
		_, resp, err := R.Deliver(nil, spliced, now)
		if err != nil {
			return
		}
		// the adversary knows its ephemeral's secret: let its own session continue the handshake
		_, done, err := adv.Deliver(nil, resp, now)
		// A forger that does not bother with a Session: raw Noise NN as initiator, carrying the victim's copied
		// claim. It can read the RespHello (NN is unauthenticated) and then holds the transport keys, but it cannot
		// produce the InitDone. It seals data instead. Nothing of it may reach the application.
		func() {
			hs, herr := noise.NewHandshakeState(noise.Config{Initiator: true, Pattern: noise.HandshakeNN,
				CipherSuite: noise.NewCipherSuite(noise.DH25519, noise.CipherChaChaPoly, noise.HashBLAKE2b)})
			if herr != nil {
				return
			}
			forged, _, _, werr := hs.WriteMessage([]byte{0, 0, 0, 0}, vhello[36:])
			if werr != nil {
				return
			}
			R2 := newSess(false, 1, 4)
			_, rh, derr := R2.Deliver(nil, forged, now)
			if derr != nil || len(rh) < 4 {
				return
			}
			_, cs1, _, rerr := hs.ReadMessage(nil, rh[4:])
			if rerr != nil || cs1 == nil {
				forgerBroken++
				return
			}
			for _, ctr := range []uint32{16, 17, 4, 15, 1000} {
				hdr := []byte{byte(ctr >> 24), byte(ctr >> 16), byte(ctr >> 8), byte(ctr)}
				m := cs1.Cipher().Encrypt(append([]byte{}, hdr...), uint64(ctr), hdr, []byte("forged"))
				if isApp, out, err := R2.Deliver(nil, m, now); err == nil && isApp {
					bad("C02 a session handed %q to the application although the authenticated peer never gave it to Send: sealed (counter %d) by a party without any private key, which copied key 0's hello claim into its own Noise handshake and skipped the InitDone; the session names key %s as its peer", out, ctr, keyIndex(R2.RemoteKey()))
					break
				}
			}
		}()
		if err == nil && len(done) > 0 {
			R.Deliver(nil, done, now)
		}
		for k := 0; k < 4; k++ {
			if m := adv.Handshake(nil); len(m) > 0 {
				R.Deliver(nil, m, now)
			}
		}
		if (R.IsReady() || R.VerifCanSend() || R.VerifCanReceive()) && keyIndex(R.RemoteKey()) == "0" {
			bad("C03 a party holding only key 3 brought a responder to usable with the victim's key 0 as its remote key")
		}
	}
	// C14 / C07: many callers blocked on one channel whose peer does not answer (p2pkeswarm.Tell and LookupPublicKey to
	// an unreachable peer): their contexts end together; every call returns its context's error, and afterwards the
	// channel counts no waiting caller (the count decides whether a given-up handshake is started again). Under the race
	// detector the bookkeeping of the waiters is what is looked at.
	concurrentWaitersCase := func() {
		cases++
		var mu sync.Mutex
		c := p2pke.NewChannel(p2pke.ChannelConfig{Registry: x509.DefaultRegistry(), PrivateKey: keKeys[0], Logger: zap.NewNop(),
			Send:             func(b []byte) { mu.Lock(); mu.Unlock() },
			AcceptKey:        func(pk *x509.PublicKey) bool { return true },
			KeepAliveTimeout: 1e5 * time.Hour, HandshakeBackoff: 1e5 * time.Hour, RekeyAfterTime: 1e5 * time.Hour, RejectAfterTime: 1e5 * time.Hour})
		defer c.Close()
		const workers = 16
		for round := 0; round < 40; round++ {
			ctx, cancel := context.WithCancel(context.Background())
			errs := make(chan error, workers)
			for w := 0; w < workers; w++ {
				go func() { errs <- c.Send(ctx, p2p.IOVec{[]byte("to nobody")}) }()
			}
			for spin := 0; spin < 2000 && c.VerifWaiting() < workers; spin++ {
				time.Sleep(50 * time.Microsecond)
			}
			cancel()
			for w := 0; w < workers; w++ {
				select {
				case err := <-errs:
					if err == nil {
						bad("C07 Send on a channel whose peer never answers returned nil")
					}
				case <-time.After(2 * time.Second):
					bad("C07 a Send blocked on a channel is still blocked 2 s after its context was cancelled")
					return
				}
			}
			if n := c.VerifWaiting(); n != 0 {
				bad("C14 %d callers waited on one channel and all have returned (their shared context was cancelled), but the channel still counts %d waiting callers", workers, n)
				return
			}
		}
	}
	// C02: concurrent Sends on one session (the Session type is exported and used by several goroutines of a swarm):
	// no two ciphertexts under the same key and counter, and the peer accepts every one of them exactly once.
	concurrentSendCase := func() {
		cases++
		I, R := newSess(true, 0, 1), newSess(false, 1, 2)
		var toR, toI []byte = I.Handshake(nil), nil
		for k := 0; k < 4 && !(I.IsReady() && R.IsReady()); k++ {
			if len(toR) > 0 {
				_, toI, _ = R.Deliver(nil, toR, now)
			}
			toR = nil
			if len(toI) > 0 {
				_, toR, _ = I.Deliver(nil, toI, now)
			}
			toI = nil
		}
		if !I.IsReady() || !R.IsReady() {
			return
		}
		const workers, each = 8, 150
		outs := make([][][]byte, workers)
		var wg sync.WaitGroup
		for w := 0; w < workers; w++ {
			w := w
			wg.Add(1)
			go func() {
				defer wg.Done()
				for k := 0; k < each; k++ {
					out, err := I.Send(nil, []byte(fmt.Sprintf("w%d-%d", w, k)), now)
					if err == nil {
						outs[w] = append(outs[w], out)
					}
				}
			}()
		}
		wg.Wait()
		seenCtr := map[uint32]bool{}
		dups, delivered, total := 0, 0, 0
		for _, ws := range outs {
			for _, m := range ws {
				total++
				c := binary.BigEndian.Uint32(m)
				if seenCtr[c] {
					dups++
				}
				seenCtr[c] = true
				if isApp, _, err := R.Deliver(nil, m, now); err == nil && isApp {
					delivered++
				}
			}
		}
		if dups > 0 || delivered != total {
			bad("C02 %d goroutines sending on one session: %d of %d ciphertexts re-used a counter another ciphertext of the session already carried, and the peer accepted %d of %d", workers, dups, total, delivered, total)
		}
	}
	// C03: signed material of one handshake replayed in another. The adversary (no victim key) first runs handshake A
	// as a raw Noise initiator towards the victim V (an honest responder) and so obtains V's RespHello payload: V's key
	// and V's signature over the channel binding OF HANDSHAKE A. It then answers an honest initiator's InitHello as a
	// raw Noise responder with its own ephemeral and that payload. The signature is V's, but not over this handshake.
	sigReplayCase := func() {
		cases++
		suite := noise.NewCipherSuite(noise.DH25519, noise.CipherChaChaPoly, noise.HashBLAKE2b)
		adv := newSess(true, 3, 1)
		ahello := adv.Handshake(nil) // the adversary's own (valid) hello claim
		hsA, err := noise.NewHandshakeState(noise.Config{Initiator: true, Pattern: noise.HandshakeNN, CipherSuite: suite})
		if err != nil || len(ahello) < 36 {
			return
		}
		m1, _, _, err := hsA.WriteMessage([]byte{0, 0, 0, 0}, ahello[36:])
		if err != nil {
			return
		}
		V := newSess(false, 0, 2)
		_, rhA, err := V.Deliver(nil, m1, now)
		if err != nil || len(rhA) < 4 {
			return
		}
		payloadA, _, _, err := hsA.ReadMessage(nil, rhA[4:])
		if err != nil {
			forgerBroken++
			return
		}
		I := newSess(true, 1, 3)
		ih := I.Handshake(nil)
		hsB, err := noise.NewHandshakeState(noise.Config{Initiator: false, Pattern: noise.HandshakeNN, CipherSuite: suite})
		if err != nil || len(ih) < 4 {
			return
		}
		if _, _, _, err := hsB.ReadMessage(nil, ih[4:]); err != nil {
			forgerBroken++
			return
		}
		rhB, _, _, err := hsB.WriteMessage([]byte{0, 0, 0, 1}, payloadA)
		if err != nil {
			return
		}
		_, _, derr := I.Deliver(nil, rhB, now)
		if keyIndex(I.RemoteKey()) == "0" && (derr == nil || I.IsReady() || I.VerifCanSend() || I.VerifCanReceive() || I.VerifHsIndex() >= 2) {
			bad("C03 an initiator took key 0 as its peer (hsIndex %d, canSend=%v, Deliver err=%v) from a RespHello that carries key 0's signature over the channel binding of ANOTHER handshake, presented by a party without key 0", I.VerifHsIndex(), I.VerifCanSend(), derr)
		}
	}
	// C03: a signature made in ANOTHER ROLE. The adversary (no victim key) sends ONE InitHello — its own ephemeral key,
	// the victim's genuine identity claim lifted from an InitHello of the victim's — both to the victim V (an honest
	// responder, which answers with its signature over ITS handshake with that ephemeral) and to the target T. It then
	// finishes the handshake with T as a raw Noise initiator and presents V's RespHello signature as the InitDone
	// signature. T must not take key 0 as its peer: V signed as the responder of another handshake, not as T's initiator.
	crossRoleCase := func() {
		cases++
		suite := noise.NewCipherSuite(noise.DH25519, noise.CipherChaChaPoly, noise.HashBLAKE2b)
		Vi := newSess(true, 0, 1)
		vh := Vi.Handshake(nil)
		if len(vh) < 36 {
			return
		}
		// both handshake states of the adversary draw the same ephemeral key (the library generates it from Config.Random)
		var seed [64]byte
		crand.Read(seed[:])
		mk := func() (*noise.HandshakeState, []byte) {
			hs, err := noise.NewHandshakeState(noise.Config{Initiator: true, Pattern: noise.HandshakeNN, CipherSuite: suite, Random: bytes.NewReader(seed[:])})
			if err != nil {
				return nil, nil
			}
			m, _, _, err := hs.WriteMessage([]byte{0, 0, 0, 0}, vh[36:])
			if err != nil {
				return nil, nil
			}
			return hs, m
		}
		hsV, m1 := mk()
		hsT, m1b := mk()
		if hsV == nil || hsT == nil || !bytes.Equal(m1, m1b) {
			forgerBroken++
			return
		}
		V := newSess(false, 0, 2)
		_, rhV, err := V.Deliver(nil, m1, now)
		if err != nil || len(rhV) < 4 {
			return
		}
		payloadV, _, _, err := hsV.ReadMessage(nil, rhV[4:])
		if err != nil {
			forgerBroken++
			return
		}
		var rh p2pke.RespHello
		if proto.Unmarshal(payloadV, &rh) != nil || len(rh.Sig) == 0 {
			forgerBroken++
			return
		}
		T := newSess(false, 1, 3)
		_, rhT, err := T.Deliver(nil, m1, now)
		if err != nil || len(rhT) < 4 {
			return
		}
		_, cs1, _, err := hsT.ReadMessage(nil, rhT[4:])
		if err != nil || cs1 == nil {
			forgerBroken++
			return
		}
		body, err := proto.Marshal(&p2pke.InitDone{Sig: rh.Sig})
		if err != nil {
			return
		}
		hdr := []byte{0, 0, 0, 2}
		initDone := cs1.Cipher().Encrypt(append([]byte{}, hdr...), 2, hdr, body)
		_, _, derr := T.Deliver(nil, initDone, now)
		if derr == nil || T.IsReady() || T.VerifCanSend() || T.VerifCanReceive() || T.VerifHsIndex() >= 2 {
			bad("C03 a responder took key %s as its peer (hsIndex %d, ready=%v, Deliver err=%v) from an InitDone that carries key 0's signature made as the RESPONDER of another handshake (same InitHello, sent by a party without key 0 to both)", keyIndex(T.RemoteKey()), T.VerifHsIndex(), T.IsReady(), derr)
		}
	}
	// C03: a signature made for ANOTHER PURPOSE. An InitHello travels in the clear and carries the sender's key and its
	// signature over a time stamp. The adversary (no victim key) first lets the target verify the victim's genuine
	// InitHello on its responder path, then answers the target's own InitHello as a raw Noise responder with its own
	// ephemeral and a RespHello naming the victim's key with that time-stamp signature in the place of the signature
	// over this handshake's channel binding.
	crossPurposeCase := func() {
		cases++
		suite := noise.NewCipherSuite(noise.DH25519, noise.CipherChaChaPoly, noise.HashBLAKE2b)
		V := newSess(true, 0, 1)
		vh := V.Handshake(nil)
		if len(vh) < 4+32+2 {
			return
		}
		body := vh[4:]
		l := int(binary.BigEndian.Uint16(body[len(body)-2:]))
		if l+2 > len(body) {
			return
		}
		var claim p2pke.InitHello
		if proto.Unmarshal(body[len(body)-2-l:len(body)-2], &claim) != nil || len(claim.Sig) == 0 {
			forgerBroken++
			return
		}
		RT := newSess(false, 1, 2)
		RT.Deliver(nil, vh, now)
		I := newSess(true, 1, 3)
		ih := I.Handshake(nil)
		hsB, err := noise.NewHandshakeState(noise.Config{Initiator: false, Pattern: noise.HandshakeNN, CipherSuite: suite})
		if err != nil || len(ih) < 4 {
			return
		}
		if _, _, _, err := hsB.ReadMessage(nil, ih[4:]); err != nil {
			forgerBroken++
			return
		}
		payload, err := proto.Marshal(&p2pke.RespHello{KeyX509: claim.KeyX509, Sig: claim.Sig})
		if err != nil {
			return
		}
		rhB, _, _, err := hsB.WriteMessage([]byte{0, 0, 0, 1}, payload)
		if err != nil {
			return
		}
		_, _, derr := I.Deliver(nil, rhB, now)
		if keyIndex(I.RemoteKey()) == "0" && (derr == nil || I.IsReady() || I.VerifCanSend() || I.VerifCanReceive() || I.VerifHsIndex() >= 2) {
			bad("C03 an initiator took key 0 as its peer (hsIndex %d, canReceive=%v, Deliver err=%v) from a RespHello that carries key 0's signature over a TIME STAMP (lifted from one of key 0's InitHellos, which this process had just verified) where the signature over this handshake's channel binding belongs", I.VerifHsIndex(), I.VerifCanReceive(), derr)
		}
	}
	// C03: a liar. A real Session whose registry marshals the VICTIM's public key wherever its own belongs, while it
	// signs with its own private key (key 3): every claim it makes (InitHello time-stamp claim, RespHello and InitDone
	// channel-binding signatures) is well-formed, names the victim and carries a signature the victim never made.
	liarCase := func() {
		cases++
		victim := 0
		lying := func() x509.Registry {
			c := x509.DefaultRegistry()[x509.Algo_Ed25519]
			vpub, _ := x509.DefaultRegistry().PublicFromPrivate(&keKeys[victim])
			c.MarshalPublic = func(out []byte, _ x509.Verifier) []byte { return append(out, vpub.Data...) }
			return x509.Registry{x509.Algo_Ed25519: c}
		}
		newLiar := func(init bool, t int) *p2pke.Session {
			return p2pke.NewSession(p2pke.SessionConfig{Registry: lying(), PrivateKey: keKeys[3], IsInit: init,
				Now: base.Add(time.Duration(t) * time.Second), RejectAfter: 1e6 * time.Hour, Logger: zap.NewNop()})
		}
		// (a) liar initiates towards an honest responder
		L, R := newLiar(true, 1), newSess(false, 1, 2)
		var toR, toL []byte = L.Handshake(nil), nil
		for k := 0; k < 3; k++ {
			if len(toR) > 0 {
				_, toL, _ = R.Deliver(nil, toR, now)
			}
			toR = nil
			if len(toL) > 0 {
				_, toR, _ = L.Deliver(nil, toL, now)
			}
			toL = nil
			if m := L.Handshake(nil); len(toR) == 0 && len(m) > 0 {
				toR = m
			}
		}
		if keyIndex(R.RemoteKey()) == strconv.Itoa(victim) && (R.IsReady() || R.VerifCanSend() || R.VerifCanReceive() || R.VerifHsIndex() > 0) {
			bad("C03 a responder took key %d as its peer (hsIndex %d, ready=%v) from an initiator that signed every claim with key 3", victim, R.VerifHsIndex(), R.IsReady())
		}
		// (b) liar answers an honest initiator
		I, L2 := newSess(true, 1, 3), newLiar(false, 4)
		_, rh, _ := L2.Deliver(nil, I.Handshake(nil), now)
		if len(rh) > 0 {
			I.Deliver(nil, rh, now)
			if d := I.Handshake(nil); len(d) > 0 {
				if _, rd, _ := L2.Deliver(nil, d, now); len(rd) > 0 {
					I.Deliver(nil, rd, now)
				}
			}
		}
		if keyIndex(I.RemoteKey()) == strconv.Itoa(victim) && (I.IsReady() || I.VerifCanSend() || I.VerifCanReceive() || I.VerifHsIndex() > 0) {
			bad("C03 an initiator took key %d as its peer (hsIndex %d, ready=%v) from a responder that signed the channel binding with key 3", victim, I.VerifHsIndex(), I.IsReady())
		}
	}
	// C06: the RespDone is lost, the responder's data arrives instead: that completes the initiator (data flows both
	// ways as soon as each side's current message got through; the responder's current message then is data)
	overtakeCase := func() {
		cases++
		I, R := newSess(true, 0, 1), newSess(false, 1, 2)
		_, rh, _ := R.Deliver(nil, I.Handshake(nil), now)
		_, id, _ := I.Deliver(nil, rh, now)
		if _, rd, err := R.Deliver(nil, id, now); err != nil || len(rd) == 0 {
			bad("C06 responder does not answer the InitDone (err=%v)", err)
			return
		}
		// the RespDone is dropped
		d, err := R.Send(nil, []byte("overtakes"), now)
		if err != nil {
			bad("C06 a ready responder cannot send: %v", err)
			return
		}
		isApp, out, err := I.Deliver(nil, d, now)
		if err != nil || !isApp || string(out) != "overtakes" {
			bad("C06 initiator waiting for the RespDone does not take the responder's data (isApp=%v err=%v)", isApp, err)
			return
		}
		if !I.IsReady() {
			bad("C06 RespDone lost, responder's data delivered to the initiator: the initiator is still not ready (hsIndex %d), so data does not flow both ways although each side's current message got through", I.VerifHsIndex())
			return
		}
		if back, err := I.Send(nil, []byte("reply"), now); err != nil {
			bad("C06 initiator completed by data cannot send: %v", err)
		} else if isApp, out, err := R.Deliver(nil, back, now); err != nil || !isApp || string(out) != "reply" {
			bad("C06 reply of the initiator completed by data is not delivered (isApp=%v err=%v)", isApp, err)
		}
	}
	// (d) C05/C07 on real channels driven by the harness (timers detached)
	type ch struct {
		c    *p2pke.Channel
		sent [][]byte
		app  [][]byte
	}
	newChan := func(key int, accept func(int) bool) *ch {
		k := &ch{}
		k.c = p2pke.NewChannel(p2pke.ChannelConfig{Registry: x509.DefaultRegistry(), PrivateKey: keKeys[key], Logger: zap.NewNop(),
			Send:             func(b []byte) { k.sent = append(k.sent, append([]byte{}, b...)) },
			AcceptKey:        func(pk *x509.PublicKey) bool { i, _ := strconv.Atoi(keyIndex(*pk)); return accept(i) },
			KeepAliveTimeout: 1e5 * time.Hour, HandshakeBackoff: 1e5 * time.Hour, RekeyAfterTime: 1e5 * time.Hour, RejectAfterTime: 1e5 * time.Hour})
		k.c.VerifDetachTimers()
		return k
	}
	pump := func(a, b *ch, rounds int) {
		for i := 0; i < rounds; i++ {
			out := a.sent
			a.sent = nil
			for _, m := range out {
				if pt, err := b.c.Deliver(nil, m); err == nil && pt != nil {
					b.app = append(b.app, pt)
				}
			}
			out = b.sent
			b.sent = nil
			for _, m := range out {
				if pt, err := a.c.Deliver(nil, m); err == nil && pt != nil {
					a.app = append(a.app, pt)
				}
			}
		}
	}
	trySend := func(k *ch, p []byte) error {
		ctx, cf := context.WithCancel(context.Background())
		cf()
		return k.c.Send(ctx, p2p.IOVec{p})
	}
	establish := func(a, b *ch) {
		trySend(a, []byte("x"))
		a.c.VerifOnRekey()
		a.c.VerifOnHandshake()
		pump(a, b, 3)
	}
	// C05: the predicate is asked about whoever completes the channel's OWN handshake, also after an acceptable InitHello
	// has come in and lost the tie-break against it. X admits key 0 only and has a handshake of its own outstanding; an
	// InitHello of key 0 arrives and (in about half the cases) loses the tie-break, so X keeps its initiator session; a
	// party with key 3 then answers X's InitHello, completes the handshake and sends data.
	tieBreakLoserCase := func() {
		cases++
		X := newChan(1, func(k int) bool { return k == 0 })
		defer X.c.Close()
		trySend(X, []byte("x"))
		X.c.VerifOnRekey()
		X.c.VerifOnHandshake()
		var ihX []byte
		for _, m := range X.sent {
			if p2pke.IsInitHello(m) {
				ihX = m
			}
		}
		X.sent = nil
		if ihX == nil {
			return
		}
		A := newChan(0, func(int) bool { return true })
		trySend(A, []byte("x"))
		A.c.VerifOnRekey()
		A.c.VerifOnHandshake()
		for _, m := range A.sent {
			if p2pke.IsInitHello(m) {
				X.c.Deliver(nil, m)
			}
		}
		A.c.Close()
		won := false
		for _, m := range X.sent {
			if p2pke.IsRespHello(m) {
				won = true
			}
		}
		X.sent = nil
		if won {
			return // key 0's InitHello won: X answers it and its own attempt is gone (another history, covered elsewhere)
		}
		B := newChan(3, func(int) bool { return true })
		defer B.c.Close()
		B.c.Deliver(nil, ihX)
		pump(B, X, 3)
		if trySend(B, []byte("from key 3")) == nil {
			pump(B, X, 1)
		}
		if k := keyIndex(X.c.RemoteKey()); k == "3" || len(X.app) > 0 {
			bad("C05 a channel that admits key 0 only took key %s as its peer and delivered %d messages: an InitHello of key 0 had lost the tie-break against the channel's own handshake, which a party with key 3 then completed", k, len(X.app))
		}
	}
	chanCase := func() {
		cases++
		rejectSide := r.Intn(3) // 0: nobody rejects, 1: initiator rejects, 2: responder rejects
		A := newChan(0, func(k int) bool { return rejectSide != 1 })
		B := newChan(1, func(k int) bool { return rejectSide != 2 })
		defer A.c.Close()
		defer B.c.Close()
		lossy := r.Intn(2) == 0
		trySend(A, []byte("x"))
		A.c.VerifOnRekey()
		A.c.VerifOnHandshake()
		if lossy { // the final handshake message is lost: B completes, A is completed by data
			out := A.sent
			A.sent = nil
			for _, m := range out {
				B.c.Deliver(nil, m)
			}
			out = B.sent
			B.sent = nil
			for _, m := range out {
				A.c.Deliver(nil, m)
			}
			out = A.sent
			A.sent = nil
			for _, m := range out {
				B.c.Deliver(nil, m)
			}
			B.sent = nil // RespDone lost
			if trySend(B, []byte("from-B")) == nil {
				pump(B, A, 1)
			}
		} else {
			pump(A, B, 3)
		}
		slotsA, slotsB := A.c.VerifSlots(), B.c.VerifSlots()
		if rejectSide == 0 {
			if !slotsA[1].Present || !slotsB[1].Present {
				bad("C07 channels did not establish (lossy=%v): A slots %+v B slots %+v", lossy, slotsA, slotsB)
				return
			}
			if slotsA[2].Present && slotsA[2].Ready || slotsB[2].Present && slotsB[2].Ready {
				bad("C07 a ready session sits in the prospective slot (lossy=%v)", lossy)
			}
			if r.Intn(2) == 0 { // sometimes B has not received any data yet when A restarts
				if trySend(A, []byte("from-A")) != nil {
					bad("C07 Send on A blocks although a session is established (lossy=%v)", lossy)
				}
				pump(A, B, 1)
			}
			// restart of A at this point: a fresh channel with the same key
			A2 := newChan(0, func(int) bool { return true })
			defer A2.c.Close()
			time.Sleep(time.Millisecond)
			establish(A2, B)
			if trySend(A2, []byte("after-restart")) != nil {
				bad("C07 after the peer restarted, three reliable round trips do not re-establish the channel: A' slots %+v B slots %+v", A2.c.VerifSlots(), B.c.VerifSlots())
			} else {
				n0 := len(B.app)
				pump(A2, B, 1)
				if len(B.app) != n0+1 {
					bad("C07 data sent after the restart is not delivered")
				}
			}
			if keyIndex(B.c.RemoteKey()) != "0" {
				bad("C05 channel B's remote key changed to %s", keyIndex(B.c.RemoteKey()))
			}
			// a different key knocking on B must not disturb it
			C := newChan(2, func(int) bool { return true })
			defer C.c.Close()
			establish(C, B)
			if keyIndex(B.c.RemoteKey()) != "0" {
				bad("C05 a handshake from key 2 changed channel B's remote key to %s", keyIndex(B.c.RemoteKey()))
			}
			if s := C.c.VerifSlots(); s[1].Present {
				bad("C05 channel B established a session with a second key (C has a current session)")
			}
		} else {
			rej, other := A, B
			if rejectSide == 2 {
				rej, other = B, A
			}
			// the refused peer keeps talking: whatever it sends must never surface
			for k := 0; k < 3; k++ {
				if trySend(other, []byte("from-refused-peer")) == nil {
					pump(other, rej, 1)
				}
				other.c.VerifOnHandshake()
				pump(other, rej, 1)
			}
			if s := rej.c.VerifSlots(); s[0].Present || s[1].Present {
				bad("C05 a channel whose predicate rejects the peer key holds an established session (rejecting side %d, lossy=%v)", rejectSide, lossy)
			}
			if len(rej.app) > 0 {
				bad("C02,C05 a channel whose predicate rejects the peer key delivered application data (rejecting side %d, lossy=%v)", rejectSide, lossy)
			}
			if rk := rej.c.RemoteKey(); !rk.IsZero() {
				bad("C05 a channel whose predicate rejects the peer key reports a remote key")
			}
			if trySend(rej, []byte("secret")) == nil {
				bad("C05 a channel whose predicate rejects the peer key encrypted application data to it")
			}
			if s := rej.c.VerifSlots(); s[2].Present && s[2].Ready {
				bad("C05 a session with a refused key stays ready in the prospective slot (rejecting side %d, lossy=%v)", rejectSide, lossy)
			}
		}
	}
	// a rekey that is answered by somebody else: A is bound to B's key; A's next InitHello (rekey) is answered by M,
	// who holds another key and signs correctly with it. A must stay with B: no data from M, nothing encrypted to M,
	// the remote key unchanged (C05 key continuity; C02: every plaintext comes from the authenticated peer).
	rekeyHijackCase := func() {
		cases++
		acceptAll := r.Intn(2) == 0
		A := newChan(0, func(k int) bool { return acceptAll || k == 1 })
		B := newChan(1, func(int) bool { return true })
		M := newChan(3, func(int) bool { return true })
		defer A.c.Close()
		defer B.c.Close()
		defer M.c.Close()
		establish(A, B)
		if keyIndex(A.c.RemoteKey()) != "1" {
			return
		}
		A.sent, A.app = nil, nil
		A.c.VerifOnRekey()
		A.c.VerifOnHandshake()
		pump(A, M, 3)
		if trySend(M, []byte("from-M")) == nil {
			pump(M, A, 1)
		}
		for _, p := range A.app {
			if string(p) == "from-M" {
				bad("C02 a channel bound to key 1 handed the application %q, sent by a party with key 3 that answered the channel's rekey InitHello (accept-all=%v)", p, acceptAll)
				bad("C05 a channel bound to key 1 delivers data from key 3 after its rekey was answered by key 3 (accept-all=%v)", acceptAll)
			}
		}
		if k := keyIndex(A.c.RemoteKey()); k != "1" {
			bad("C05 the remote key of a channel bound to key 1 became %s when its rekey was answered by another party", k)
		}
		M.app = nil
		if trySend(A, []byte("for-B-only")) == nil {
			pump(A, M, 1)
			for _, p := range M.app {
				if string(p) == "for-B-only" {
					bad("C05 a channel bound to key 1 encrypted application data to key 3 after its rekey was answered by key 3")
				}
			}
		}
	}
	// restart while the first handshake is half open: B has only seen the first InitHello
	halfOpenCase := func() {
		cases++
		A := newChan(0, func(int) bool { return true })
		B := newChan(1, func(int) bool { return true })
		defer A.c.Close()
		defer B.c.Close()
		trySend(A, []byte("x"))
		A.c.VerifOnRekey()
		A.c.VerifOnHandshake()
		for _, m := range A.sent {
			B.c.Deliver(nil, m)
		}
		B.sent = nil
		time.Sleep(time.Millisecond)
		A2 := newChan(0, func(int) bool { return true })
		defer A2.c.Close()
		establish(A2, B)
		if trySend(A2, []byte("after-restart")) != nil {
			bad("C07 peer restarted during a half-open handshake: three reliable round trips do not establish the channel: A' slots %+v B slots %+v", A2.c.VerifSlots(), B.c.VerifSlots())
		}
	}
	// a timer callback that runs late: the rekey timer was armed by a waiting Send, the peer's InitHello is
	// delivered before the callback runs. Afterwards something must still drive the prospective session.
	lateRekeyCase := func() {
		cases++
		A := newChan(0, func(int) bool { return true })
		B := newChan(1, func(int) bool { return true })
		defer A.c.Close()
		defer B.c.Close()
		ctx, cf := context.WithCancel(context.Background())
		defer cf()
		go A.c.WaitReady(ctx) // arms the (detached) rekey timer and waits
		trySend(B, []byte("x"))
		B.c.VerifOnRekey()
		B.c.VerifOnHandshake()
		time.Sleep(2 * time.Millisecond)
		for _, m := range B.sent {
			A.c.Deliver(nil, m) // A becomes responder of B's handshake
		}
		A.c.VerifOnRekey() // A's own rekey callback runs only now
		rk, hk := A.c.VerifTimersPending()
		if s := A.c.VerifSlots(); s[2].Present && !s[1].Present && !rk && !hk {
			bad("C07 a Send is waiting and a prospective session exists, but after a late rekey callback no timer is armed: nothing retransmits or gives up that session, the Send can wait forever (slots %+v)", s)
		}
	}
	// (e) C07 keep-alive in real time: steady traffic must not trigger re-handshakes
	keepAliveCase := func() {
		cases++
		var mu sync.Mutex
		hellos := 0
		var A, B *p2pke.Channel
		mk := func(key int, peer **p2pke.Channel) *p2pke.Channel {
			return p2pke.NewChannel(p2pke.ChannelConfig{Registry: x509.DefaultRegistry(), PrivateKey: keKeys[key], Logger: zap.NewNop(),
				AcceptKey: func(*x509.PublicKey) bool { return true },
				Send: func(b []byte) {
					if p2pke.IsInitHello(b) {
						mu.Lock()
						hellos++
						mu.Unlock()
					}
					m := append([]byte{}, b...)
					go func() { (*peer).Deliver(nil, m) }()
				},
				KeepAliveTimeout: 150 * time.Millisecond, HandshakeBackoff: 20 * time.Millisecond, RekeyAfterTime: time.Hour, RejectAfterTime: time.Hour})
		}
		A = mk(0, &B)
		B = mk(1, &A)
		defer A.Close()
		defer B.Close()
		ctx, cf := context.WithTimeout(context.Background(), 3*time.Second)
		defer cf()
		if err := A.Send(ctx, p2p.IOVec{[]byte("first")}); err != nil {
			bad("C07 first Send did not complete within 3s: %v", err)
			return
		}
		mu.Lock()
		h0 := hellos
		mu.Unlock()
		for i := 0; i < 16; i++ { // 640 ms of traffic in both directions, every 40 ms
			time.Sleep(40 * time.Millisecond)
			if err := A.Send(ctx, p2p.IOVec{[]byte("ping")}); err != nil {
				bad("C07 Send failed under steady traffic: %v", err)
				return
			}
			if err := B.Send(ctx, p2p.IOVec{[]byte("pong")}); err != nil {
				bad("C07 Send failed under steady traffic: %v", err)
				return
			}
		}
		mu.Lock()
		h1 := hellos
		mu.Unlock()
		if h1 > h0 {
			bad("C07 %d new handshakes were started during 640ms of steady authenticated traffic with a 150ms keep-alive timeout", h1-h0)
		}
	}
	for i := 0; i < n; i++ {
		pairCase()
		if i%4 == 0 {
			spoofCase()
			chanCase()
			halfOpenCase()
			lateRekeyCase()
			overtakeCase()
			liarCase()
			sigReplayCase()
			crossPurposeCase()
			crossRoleCase()
			concurrentSendCase()
			concurrentWaitersCase()
			rekeyHijackCase()
			tieBreakLoserCase()
		}
	}
	nk := 1
	if tier == "thorough" {
		nk = 5
	}
	for i := 0; i < nk; i++ {
		keepAliveCase()
	}
	return cases, fails
}
