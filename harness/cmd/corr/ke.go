package main

import (
	"bytes"
	"context"
	"crypto/ed25519"
	"encoding/binary"
	"fmt"
	"math/rand"
	"strconv"
	"strings"
	"time"

	"go.brendoncarroll.net/p2p"
	"go.brendoncarroll.net/p2p/f/x509"
	"go.brendoncarroll.net/p2p/p/p2pke"
	"go.uber.org/zap"
	"golang.org/x/crypto/blake2b"
	"verifharness/internal/hx"
)

func init() {
	streams["ke"] = keStream
	replayers["ke"] = func() replayFn { st := newKeState(); return st.apply }
	oracles["ke"] = keOracle
}

const nKeKeys = 4

var keKeys = func() (ret [nKeKeys]x509.PrivateKey) {
	reg := x509.DefaultRegistry()
	for i := range ret {
		seed := make([]byte, ed25519.SeedSize)
		seed[0] = byte(i + 1)
		algo, signer := x509.SignerFromStandard(ed25519.NewKeyFromSeed(seed))
		priv, err := reg.StoreSigner(algo, signer)
		if err != nil {
			panic(err)
		}
		ret[i] = priv
	}
	return ret
}()

var kePubs = func() (ret [nKeKeys][]byte) {
	reg := x509.DefaultRegistry()
	for i := range ret {
		pub, err := reg.PublicFromPrivate(&keKeys[i])
		if err != nil {
			panic(err)
		}
		ret[i] = x509.MarshalPublicKey(nil, &pub)
	}
	return ret
}()

func keyIndex(k x509.PublicKey) string {
	if k.IsZero() {
		return "-"
	}
	enc := x509.MarshalPublicKey(nil, &k)
	for i := range kePubs {
		if bytes.Equal(enc, kePubs[i]) {
			return strconv.Itoa(i)
		}
	}
	return "?"
}

type keChan struct {
	c    *p2pke.Channel
	sent [][]byte
}

type keState struct {
	base   time.Time
	msgs   [][]byte
	index  map[string]int
	sess   map[int]*p2pke.Session
	chans  map[int]*keChan
	hashed map[int]bool
	forged map[int]bool // junk derived by the adversary: not a well-formed hello even if its counter is 0
	// pending x-hash ops to emit after the current op
	pendingHash []int
}

func newKeState() *keState {
	return &keState{base: time.Unix(1_700_000_000, 0), index: map[string]int{}, sess: map[int]*p2pke.Session{},
		chans: map[int]*keChan{}, hashed: map[int]bool{}, forged: map[int]bool{}}
}

func (st *keState) intern(b []byte) int {
	if i, ok := st.index[string(b)]; ok {
		return i
	}
	i := len(st.msgs)
	st.msgs = append(st.msgs, append([]byte{}, b...))
	st.index[string(b)] = i
	if len(b) >= 4 && binary.BigEndian.Uint32(b) == 0 && !st.hashed[i] {
		st.hashed[i] = true
		st.pendingHash = append(st.pendingHash, i)
	}
	return i
}

func (st *keState) msgStr(b []byte) string {
	if len(b) == 0 {
		return "none"
	}
	return "msg " + strconv.Itoa(st.intern(b))
}

func (st *keState) at(n int) time.Time { return st.base.Add(time.Duration(n) * time.Second) }

func sessObs(s *p2pke.Session) string {
	r := 0
	if s.IsReady() {
		r = 1
	}
	return fmt.Sprintf("ready=%d rkey=%s hs=%d nonce=%d", r, keyIndex(s.RemoteKey()), s.VerifHsIndex(), s.VerifNonce())
}

func chanObs(c *p2pke.Channel) string {
	sl := c.VerifSlots()
	f := func(s p2pke.VerifSlot) string {
		if !s.Present {
			return "-"
		}
		r := "R"
		if s.IsInit {
			r = "I"
		}
		return r + strconv.Itoa(int(s.HsIndex))
	}
	return fmt.Sprintf("p=%s c=%s n=%s rkey=%s", f(sl[0]), f(sl[1]), f(sl[2]), keyIndex(c.RemoteKey()))
}

func (st *keState) apply(op []string, o *hx.Out) {
	line := strings.Join(op, " ")
	atoi := func(s string) int { n, _ := strconv.Atoi(s); return n }
	res := hx.Guard(func() string {
		switch op[0] {
		case "reset":
			for _, c := range st.chans {
				c.c.Close()
			}
			*st = *newKeState()
			return "ok"
		case "s-new":
			s := p2pke.NewSession(p2pke.SessionConfig{Registry: x509.DefaultRegistry(), PrivateKey: keKeys[atoi(op[3])],
				IsInit: op[2] == "1", Now: st.at(atoi(op[4])), RejectAfter: 1e6 * time.Hour, Logger: zap.NewNop()})
			st.sess[atoi(op[1])] = s
			if op[2] == "1" {
				return st.msgStr(s.Handshake(nil))
			}
			return "ok"
		case "s-hs":
			return st.msgStr(st.sess[atoi(op[1])].Handshake(nil))
		case "s-deliver":
			s := st.sess[atoi(op[1])]
			isApp, out, err := s.Deliver(nil, hx.Exact(st.msgs[atoi(op[2])]), st.at(atoi(op[3])))
			var r string
			switch {
			case err != nil:
				r = "err"
			case isApp:
				r = "app " + hx.Hex(out)
			case out == nil && st.isData(atoi(op[2])):
				r = "drop"
			default:
				r = "hs " + st.msgStr(out)
			}
			return r + " " + sessObs(s)
		case "s-send":
			s := st.sess[atoi(op[1])]
			out, err := s.Send(nil, hx.UnHex(op[2]), st.at(atoi(op[3])))
			if err != nil {
				return "err " + sessObs(s)
			}
			return st.msgStr(out) + " " + sessObs(s)
		case "x-hash":
			return "ok"
		case "x-junk": // the harness made the bytes when it generated the op; on replay they are rebuilt
			b := st.mkJunk(atoi(op[1]), atoi(op[2]), op[3] == "1")
			st.forged[st.intern(b)] = true
			return st.msgStr(b)
		case "x-short":
			st.forged[st.intern([]byte{0, 0})] = true
			return st.msgStr([]byte{0, 0})
		case "x-eph":
			b := append([]byte{}, st.msgs[atoi(op[1])]...)
			binary.BigEndian.PutUint64(b[4:], uint64(atoi(op[2]))) // a different (valid) curve point, unknown secret
			return st.msgStr(b)
		case "x-splice":
			a, b := st.msgs[atoi(op[1])], st.msgs[atoi(op[2])]
			return st.msgStr(append(append([]byte{}, a[:36]...), b[36:]...))
		case "c-new":
			kc := &keChan{}
			acc := op[3]
			kc.c = p2pke.NewChannel(p2pke.ChannelConfig{
				Registry: x509.DefaultRegistry(), PrivateKey: keKeys[atoi(op[2])], Logger: zap.NewNop(),
				Send: func(b []byte) { kc.sent = append(kc.sent, append([]byte{}, b...)) },
				AcceptKey: func(k *x509.PublicKey) bool {
					switch {
					case acc == "all":
						return true
					case acc == "none":
						return false
					}
					return keyIndex(*k) == strings.TrimPrefix(acc, "only:")
				},
				KeepAliveTimeout: 1e5 * time.Hour, HandshakeBackoff: 1e5 * time.Hour, RekeyAfterTime: 1e5 * time.Hour, RejectAfterTime: 1e5 * time.Hour,
			})
			kc.c.VerifDetachTimers()
			st.chans[atoi(op[1])] = kc
			return "ok"
		case "c-deliver":
			kc := st.chans[atoi(op[1])]
			kc.sent = nil
			out, err := kc.c.Deliver(nil, hx.Exact(st.msgs[atoi(op[2])]))
			app := "-"
			if err != nil {
				app = "err"
			} else if out != nil {
				app = hx.Hex(out)
			}
			return fmt.Sprintf("app=%s sent=%s %s", app, st.sentStr(kc), chanObs(kc.c))
		case "c-send":
			kc := st.chans[atoi(op[1])]
			kc.sent = nil
			ctx, cf := context.WithCancel(context.Background())
			cf()
			err := kc.c.Send(ctx, p2p.IOVec{hx.UnHex(op[2])})
			if err == context.Canceled {
				return "blocked " + chanObs(kc.c)
			}
			if err != nil {
				return "err " + chanObs(kc.c)
			}
			return fmt.Sprintf("sent=%s %s", st.sentStr(kc), chanObs(kc.c))
		case "c-rekey":
			kc := st.chans[atoi(op[1])]
			kc.c.VerifOnRekey()
			return "hello=- " + chanObs(kc.c)
		case "c-hs":
			kc := st.chans[atoi(op[1])]
			kc.sent = nil
			kc.c.VerifOnHandshake()
			return fmt.Sprintf("sent=%s %s", st.sentStr(kc), chanObs(kc.c))
		}
		return "bad-op"
	})
	o.Emit(op[0], op[0] != "reset" && op[0] != "x-hash", line, res)
	for len(st.pendingHash) > 0 {
		i := st.pendingHash[0]
		st.pendingHash = st.pendingHash[1:]
		h := blake2b.Sum256(st.msgs[i])
		o.Emit("x-hash", false, fmt.Sprintf("x-hash %d %s", i, hx.Hex(h[:])), "ok")
	}
}

func (st *keState) isData(i int) bool {
	b := st.msgs[i]
	return len(b) >= 4 && binary.BigEndian.Uint32(b) >= 4
}

func (st *keState) sentStr(kc *keChan) string {
	if len(kc.sent) == 0 {
		return "-"
	}
	ss := make([]string, len(kc.sent))
	for i, b := range kc.sent {
		ss[i] = strconv.Itoa(st.intern(b))
	}
	return strings.Join(ss, ",")
}

// mkJunk derives a message that fails every check from message src: header counter ctr; long says whether
// the body keeps at least 32 bytes.
func (st *keState) mkJunk(src, ctr int, long bool) []byte {
	b := append([]byte{}, st.msgs[src]...)
	for len(b) < 60 {
		b = append(b, byte(len(b)*7+src))
	}
	if !long {
		b = b[:4+8]
	}
	binary.BigEndian.PutUint32(b, uint32(ctr))
	// corrupt the end of the authenticated part (signature of a hello claim / AEAD tag) and make it unique
	b[len(b)-3] ^= 0x55
	b = append(b, byte(len(st.msgs)), byte(len(st.msgs)>>8))
	if !long {
		b = b[:4+8+2]
	}
	return b
}

// keScenario drives one scenario; exec executes an op line and returns the implementation's result.
func keScenario(r *rand.Rand, kind string, exec func(op string) string, st *keState) {
	n := 0
	now := func() int { n++; return n }
	lastOut := map[int]int{} // entity -> index of the last message it emitted
	rawExec := exec
	exec = func(op string) string {
		res := rawExec(op)
		f := strings.Fields(op)
		if len(f) >= 2 && (strings.HasPrefix(f[0], "s-") || strings.HasPrefix(f[0], "c-")) {
			ent, _ := strconv.Atoi(f[1])
			for _, tok := range strings.Fields(res) {
				if strings.HasPrefix(tok, "sent=") && tok != "sent=-" {
					parts := strings.Split(strings.TrimPrefix(tok, "sent="), ",")
					lastOut[ent], _ = strconv.Atoi(parts[len(parts)-1])
				}
			}
			if i := strings.Index(res, "msg "); i >= 0 {
				fmt.Sscanf(res[i:], "msg %d", new(int))
				var v int
				if _, err := fmt.Sscanf(res[i:], "msg %d", &v); err == nil {
					lastOut[ent] = v
				}
			}
		}
		return res
	}
	peer := func(e int) int { return e ^ 1 }
	exec("reset")
	msgCount := func() int { return len(st.msgs) }
	anyMsg := func() int {
		if msgCount() == 0 {
			return 0
		}
		if r.Intn(3) > 0 && msgCount() > 4 {
			return msgCount() - 1 - r.Intn(4)
		}
		return r.Intn(msgCount())
	}
	adv := func() { // adversary transformation producing a new message
		if msgCount() == 0 {
			return
		}
		switch r.Intn(6) {
		case 0, 1:
			src := anyMsg()
			own := 0
			if len(st.msgs[src]) >= 4 {
				own = int(binary.BigEndian.Uint32(st.msgs[src]))
			}
			ctr := hx.Pick(r, 0, 1, 2, 3, 4, 15, 16, 17, own)
			exec(fmt.Sprintf("x-junk %d %d %d", src, ctr, r.Intn(2)))
		case 2:
			exec("x-short")
		case 3, 4, 5:
			var hellos []int
			for i, m := range st.msgs {
				if len(m) > 100 && binary.BigEndian.Uint32(m) == 0 && !st.forged[i] {
					hellos = append(hellos, i)
				}
			}
			if len(hellos) == 0 {
				return
			}
			a := hellos[r.Intn(len(hellos))]
			if r.Intn(2) == 0 {
				exec(fmt.Sprintf("x-eph %d %d", a, 1_000_000+msgCount()))
			} else {
				exec(fmt.Sprintf("x-splice %d %d", a, hellos[r.Intn(len(hellos))]))
			}
		}
	}
	if kind == "sess" {
		// sessions: an honest pair, an unrelated pair, an adversary initiator and responder holding key 3
		type sd struct {
			init bool
			key  int
		}
		defs := []sd{{true, 0}, {false, 1}, {true, 2}, {false, 0}, {true, 3}, {false, 3}, {false, 1}}
		ns := 2 + r.Intn(len(defs)-1)
		for i := 0; i < ns; i++ {
			b := 0
			if defs[i].init {
				b = 1
			}
			exec(fmt.Sprintf("s-new %d %d %d %d", i, b, defs[i].key, now()))
		}
		steps := 10 + r.Intn(60)
		progress := r.Intn(3) > 0 // mostly make progress: deliver the latest messages
		for k := 0; k < steps; k++ {
			sid := r.Intn(ns)
			x := r.Intn(20)
			if msgCount() == 0 && x < 11 {
				x = 12
			}
			switch {
			case x < 11:
				m := anyMsg()
				if progress && r.Intn(4) > 0 {
					// hand the peer's latest message to this session
					if v, ok := lastOut[peer(sid)]; ok && peer(sid) < ns {
						m = v
					}
				}
				exec(fmt.Sprintf("s-deliver %d %d %d", sid, m, now()))
			case x < 13:
				exec(fmt.Sprintf("s-hs %d", sid))
			case x < 17:
				exec(fmt.Sprintf("s-send %d %s %d", sid, hx.Hex(append([]byte{0xAB, byte(k), byte(sid)}, hx.Bytes(r, r.Intn(4))...)), now()))
			default:
				adv()
			}
		}
		return
	}
	// channels
	accs := []string{"all", "all", "all", "none", "only:0", "only:1", "only:3"}
	nc := 2 + r.Intn(2)
	keys := []int{0, 1, hx.Pick(r, 2, 3, 0)}
	for i := 0; i < nc; i++ {
		exec(fmt.Sprintf("c-new %d %d %s", i, keys[i], accs[r.Intn(len(accs))]))
	}
	steps := 10 + r.Intn(80)
	for k := 0; k < steps; k++ {
		cid := r.Intn(nc)
		x := r.Intn(20)
		if msgCount() == 0 && x < 10 {
			x = 13
		}
		switch {
		case x < 10:
			m := anyMsg()
			if r.Intn(4) > 0 {
				if v, ok := lastOut[peer(cid)]; ok && peer(cid) < nc {
					m = v
				}
			}
			exec(fmt.Sprintf("c-deliver %d %d %d %d", cid, m, now(), 1000+n))
		case x < 13:
			exec(fmt.Sprintf("c-send %d %s %d", cid, hx.Hex(append([]byte{0xCD, byte(k), byte(cid)}, hx.Bytes(r, r.Intn(4))...)), now()))
		case x < 15:
			exec(fmt.Sprintf("c-rekey %d %d %d", cid, now(), 1000+n))
			exec(fmt.Sprintf("c-hs %d", cid))
		case x < 18:
			exec(fmt.Sprintf("c-hs %d", cid))
		default:
			adv()
		}
	}
}

func keStream(r *rand.Rand, n int, tier string, o *hx.Out) {
	st := newKeState()
	total := 0
	for total < n {
		kind := hx.Pick(r, "sess", "chan")
		keScenario(r, kind, func(op string) string {
			before := o.N
			st.apply(strings.Fields(op), o)
			total += o.N - before
			return o.Last()
		}, st)
	}
	for _, c := range st.chans {
		c.c.Close()
	}
}

func keOracle(r *rand.Rand, n int, tier string, infile string) (cases int, fails []string) {
	return 1, nil
}
