//go:build go1.25

package main

// ask: p/mbapp's ask/reply matching (asker.go, Ask, handleAskReply, handleAskRequest) under the fake clock, against
// Model/Asker.lean. The harness is the network: it holds every datagram, serves requests through a REAL responder
// swarm, and hands replies to the asker unchanged or with one header field altered (counter, origin time, source).

import (
	"context"
	"encoding/binary"
	"fmt"
	"math/rand"
	"sort"
	"strconv"
	"strings"
	"sync"
	"time"

	"go.brendoncarroll.net/p2p"
	"go.brendoncarroll.net/p2p/p/mbapp"
	"go.brendoncarroll.net/p2p/s/memswarm"
	"verifharness/internal/hx"
)

func init() {
	streams["ask"] = askStream
	replayers["ask"] = func() replayFn { st := &askState{}; return st.apply }
	needBubble["ask"] = true
}

type askCall struct {
	done   bool
	result string
}

type askState struct {
	t0       time.Time
	mu       sync.Mutex
	held     []mbPkt
	pkts     []mbPkt // everything ever captured or crafted, by index
	innerA   keepInner
	addrA    memswarm.Addr
	asker    *mbapp.Swarm[memswarm.Addr, int]
	resp     [2]*mbapp.Swarm[memswarm.Addr, int]
	respAddr [2]memswarm.Addr
	calls    map[int]*askCall
	cancels  map[int]context.CancelFunc
	ctx      context.Context
	cancel   context.CancelFunc
}

func (st *askState) now() int64 { return time.Since(st.t0).Milliseconds() }

func (st *askState) reset() {
	if st.cancel != nil {
		st.cancel()
		for _, cf := range st.cancels {
			cf()
		}
		if st.asker != nil {
			st.asker.Close()
		}
		for _, r := range st.resp {
			if r != nil {
				r.Close()
			}
		}
		bubbleWait()
	}
	*st = askState{t0: time.Now(), calls: map[int]*askCall{}, cancels: map[int]context.CancelFunc{}}
	st.ctx, st.cancel = context.WithCancel(context.Background())
	realm := memswarm.NewSecureRealm[int](memswarm.WithMTU(1200), memswarm.WithTellTransform(func(m *memswarm.Message) bool {
		st.mu.Lock()
		st.held = append(st.held, mbPkt{m.Src, m.Dst, append([]byte{}, m.Payload...)})
		st.mu.Unlock()
		return false
	}))
	st.innerA = keepInner{realm.NewSwarm(0)}
	st.addrA = st.innerA.LocalAddrs()[0]
	for i := range st.resp {
		in := realm.NewSwarm(i + 1)
		st.respAddr[i] = in.LocalAddrs()[0]
		st.resp[i] = mbapp.New[memswarm.Addr, int](in, 1<<16)
		sw, idx := st.resp[i], i
		go func() {
			for {
				if err := sw.ServeAsk(st.ctx, func(ctx context.Context, out []byte, m p2p.Message[memswarm.Addr]) int {
					req := m.Payload
					if len(req) > 0 && req[0] == 0xFA { // the handler signals failure
						return -int(req[len(req)-1]) - 1
					}
					n := copy(out, []byte{byte(0xA0 + idx)})
					n += copy(out[n:], req)
					if len(req) > 0 && req[0] == 0xB1 { // a long answer
						for k := 0; k < 40; k++ {
							n += copy(out[n:], []byte{byte(k)})
						}
					}
					return n
				}); err != nil {
					return
				}
			}
		}()
	}
	st.asker = mbapp.New[memswarm.Addr, int](st.innerA, 1<<16)
	bubbleWait()
}

// takeHeld registers what was captured since the last call and returns the new packet indexes
func (st *askState) takeHeld() []int {
	st.mu.Lock()
	defer st.mu.Unlock()
	var idx []int
	for _, p := range st.held {
		st.pkts = append(st.pkts, p)
		idx = append(idx, len(st.pkts)-1)
	}
	st.held = nil
	return idx
}

func hdrWord(b []byte, n int) uint32 { return binary.BigEndian.Uint32(b[4*n:]) }

func (st *askState) states() string {
	ids := []int{}
	for id := range st.calls {
		ids = append(ids, id)
	}
	sort.Ints(ids)
	ss := []string{}
	for _, id := range ids {
		c := st.calls[id]
		st.mu.Lock()
		r := "pending"
		if c.done {
			r = c.result
		}
		st.mu.Unlock()
		ss = append(ss, fmt.Sprintf("%d:%s", id, r))
	}
	if len(ss) == 0 {
		return "-"
	}
	return strings.Join(ss, " ")
}

func (st *askState) apply(op []string, o *hx.Out) {
	line := strings.Join(op, " ")
	atoi := func(s string) int { n, _ := strconv.Atoi(s); return n }
	res := hx.Guard(func() string {
		switch op[0] {
		case "a-new":
			st.reset()
			return fmt.Sprintf("ok org0=%d", uint32(mbapp.NewPhaseTime32(st.t0.UTC(), time.Millisecond)))
		case "a-tick":
			time.Sleep(ms(atoi(op[1])))
			bubbleWait()
			return fmt.Sprintf("now=%d %s", st.now(), st.states())
		case "a-restart": // a new swarm on the same transport address: its counter starts again
			st.asker.Close()
			st.asker = mbapp.New[memswarm.Addr, int](st.innerA, 1<<16)
			bubbleWait()
			return "ok " + st.states()
		case "a-ask": // a-ask <tag> <responder> <request> <cap> <timeout ms>
			tag, to, req, capN, timeout := atoi(op[1]), atoi(op[2]), hx.UnHex(op[3]), atoi(op[4]), atoi(op[5])
			call := &askCall{}
			st.calls[tag] = call
			ctx, cf := context.WithTimeout(st.ctx, ms(timeout))
			st.cancels[tag] = cf
			sw := st.asker
			go func() {
				buf := make([]byte, capN)
				n, err := sw.Ask(ctx, buf, st.respAddr[to], p2p.IOVec{req})
				r := ""
				var ae mbapp.AppError
				switch {
				case err == nil:
					r = "ok:" + hx.Hex(buf[:n])
				case asAppError(err, &ae):
					r = fmt.Sprintf("app:%d:%s", ae.Code, hx.Hex(ae.Response))
				case err.Error() == "short buffer":
					r = "short"
				case ctx.Err() != nil, strings.Contains(err.Error(), "context deadline exceeded"), strings.Contains(err.Error(), "context canceled"):
					r = "ctx" // the caller's context, or the 30 s limit Ask puts on itself
				default:
					r = "err:" + err.Error()
				}
				st.mu.Lock()
				call.done, call.result = true, r
				st.mu.Unlock()
			}()
			bubbleWait()
			idx := st.takeHeld()
			if len(idx) != 1 {
				return fmt.Sprintf("pkts=%d %s", len(idx), st.states())
			}
			p := st.pkts[idx[0]]
			return fmt.Sprintf("pkt=%d ctr=%d org=%d now=%d %s", idx[0], hdrWord(p.data, 2), hdrWord(p.data, 1), st.now(), st.states())
		case "a-cancel":
			if cf := st.cancels[atoi(op[1])]; cf != nil {
				cf()
			}
			bubbleWait()
			return st.states()
		case "a-serve": // the request datagram reaches its responder; the handler's reply is captured
			p := st.pkts[atoi(op[1])]
			for i := range st.resp {
				if p.dst == st.respAddr[i] {
					mbapp.VerifHandleMessage(st.ctx, st.resp[i], p.src, p.dst, hx.Lend(p.data))
					hx.Reclaim()
				}
			}
			bubbleWait()
			idx := st.takeHeld()
			if len(idx) != 1 {
				return fmt.Sprintf("pkts=%d", len(idx))
			}
			q := st.pkts[idx[0]]
			return fmt.Sprintf("pkt=%d ctr=%d org=%d code=%d body=%s", idx[0], hdrWord(q.data, 2), hdrWord(q.data, 1), hdrWord(q.data, 0)&0xff, hx.Hex(q.data[mbapp.HeaderSize:]))
		case "a-deliver": // a-deliver <pkt> <variant>: the reply reaches the asker, possibly with one field altered
			p := st.pkts[atoi(op[1])]
			data := append([]byte{}, p.data...)
			src := p.src
			switch op[2] {
			case "ctr+1":
				binary.BigEndian.PutUint32(data[8:], hdrWord(data, 2)+1)
			case "org+1":
				binary.BigEndian.PutUint32(data[4:], hdrWord(data, 1)+1)
			case "org-1":
				binary.BigEndian.PutUint32(data[4:], hdrWord(data, 1)-1)
			case "other-src":
				if src == st.respAddr[0] {
					src = st.respAddr[1]
				} else {
					src = st.respAddr[0]
				}
			}
			mbapp.VerifHandleMessage(st.ctx, st.asker, src, st.addrA, hx.Lend(data))
			hx.Reclaim()
			bubbleWait()
			st.takeHeld()
			return st.states()
		}
		return "bad-op"
	})
	o.Emit(op[0], op[0] != "a-new", line, res)
}

func asAppError(err error, out *mbapp.AppError) bool {
	for e := err; e != nil; {
		if ae, ok := e.(mbapp.AppError); ok {
			*out = ae
			return true
		}
		u, ok := e.(interface{ Unwrap() error })
		if !ok {
			return false
		}
		e = u.Unwrap()
	}
	return false
}

func askScenario(r *rand.Rand, exec func(op string) string) {
	exec("a-new")
	type rq struct{ tag, pkt int }
	var requests, replies []int
	tag := 0
	field := func(res, name string) int {
		for _, w := range strings.Fields(res) {
			if strings.HasPrefix(w, name+"=") {
				n, _ := strconv.Atoi(strings.TrimPrefix(w, name+"="))
				return n
			}
		}
		return -1
	}
	steps := 10 + r.Intn(40)
	for k := 0; k < steps; k++ {
		switch x := r.Intn(20); {
		case x < 6:
			tag++
			req := hx.Bytes(r, 1+r.Intn(3))
			switch r.Intn(6) {
			case 0:
				req[0] = 0xFA
			case 1:
				req[0] = 0xB1
			}
			res := exec(fmt.Sprintf("a-ask %d %d %s %d %d", tag, r.Intn(2), hx.Hex(req), hx.Pick(r, 0, 2, 8, 64), hx.Pick(r, 5, 50, 1000, 40000)))
			if p := field(res, "pkt"); p >= 0 {
				requests = append(requests, p)
			}
		case x < 10 && len(requests) > 0:
			i := r.Intn(len(requests))
			res := exec(fmt.Sprintf("a-serve %d", requests[i]))
			if r.Intn(4) > 0 {
				requests = append(requests[:i], requests[i+1:]...)
			}
			if p := field(res, "pkt"); p >= 0 {
				replies = append(replies, p)
			}
		case x < 15 && len(replies) > 0:
			i := r.Intn(len(replies))
			exec(fmt.Sprintf("a-deliver %d %s", replies[i], hx.Pick(r, "exact", "exact", "exact", "exact", "ctr+1", "org+1", "org-1", "other-src")))
			if r.Intn(5) > 0 {
				replies = append(replies[:i], replies[i+1:]...)
			}
		case x < 17:
			exec(fmt.Sprintf("a-tick %d", hx.Pick(r, 0, 1, 1, 4, 5, 6, 49, 50, 1000, 30000)))
		case x < 18 && tag > 0:
			exec(fmt.Sprintf("a-cancel %d", 1+r.Intn(tag)))
		case x < 19:
			if r.Intn(2) == 0 {
				exec("a-tick 1") // mostly the restarted asker has a later clock; sometimes the very same millisecond
			}
			exec("a-restart")
		}
	}
}

func askStream(r *rand.Rand, n int, tier string, o *hx.Out) {
	st := &askState{}
	for o.N < n {
		askScenario(r, func(op string) string {
			st.apply(strings.Fields(op), o)
			return o.Last()
		})
	}
	st.reset()
}
