package main

import (
	"errors"
	"bytes"
	"context"
	"crypto/ed25519"
	"encoding/binary"
	"fmt"
	"hash/fnv"
	"math/rand"
	"os"
	"runtime"
	"strconv"
	"unsafe"
	"strings"
	"sync"
	"sync/atomic"
	"time"

	"go.brendoncarroll.net/p2p"
	"go.brendoncarroll.net/p2p/f/x509"
	"go.brendoncarroll.net/p2p/p/mbapp"
	"go.brendoncarroll.net/p2p/p/p2pmux"
	"go.brendoncarroll.net/p2p/s/fragswarm"
	"go.brendoncarroll.net/p2p/s/mapswarm"
	"go.brendoncarroll.net/p2p/s/memswarm"
	"go.brendoncarroll.net/p2p/s/multiswarm"
	"go.brendoncarroll.net/p2p/s/p2pkeswarm"
	"go.brendoncarroll.net/p2p/s/quicswarm"
	"go.brendoncarroll.net/p2p/s/sshswarm"
	"go.brendoncarroll.net/p2p/s/udpswarm"
	"go.brendoncarroll.net/p2p/s/wlswarm"
	"golang.org/x/crypto/ssh"
	"verifharness/internal/hx"
)

// Swarm-level admissibility oracle over real stacks (in-memory, UDP, QUIC and SSH leaves; fragmenting,
// message-box, multiplexed, multi-transport, whitelisted and P2PKE layers nested by runtime type erasure).
// It serves C01 (ledger), C09 (MTU boundaries on nestings), C11 (asks), C12 (Close on stacks), C16 (harvested
// addresses) and C04 (identity attribution on honest pairs).

func init() { oracles["swarm"] = swarmOracle }

type dyn = p2p.Swarm[p2p.Addr]
type dynAsk = p2p.AskSwarm[p2p.Addr]

type node struct {
	tell  dyn
	ask   dynAsk // nil if the stack cannot ask
	close func()
	keyID string // expected identity text of this node in addresses it is seen under ("" if none)
}

type template struct {
	name     string
	reliable bool // no loss expected on an idle machine
	build    func(n int, seed int) ([]node, error)
}

func erase[T p2p.Addr](s p2p.Swarm[T]) dyn { return multiswarm.WrapSwarm[T](s) }

type askBoth[T p2p.Addr] interface {
	p2p.Swarm[T]
	p2p.Asker[T]
	p2p.AskServer[T]
}

// eraseAsk erases the address type of an ask-capable swarm (multiswarm's own dynAsker is unexported)
type erasedAsk[T p2p.Addr] struct {
	dyn
	in askBoth[T]
}

func (e erasedAsk[T]) Ask(ctx context.Context, resp []byte, dst p2p.Addr, req p2p.IOVec) (int, error) {
	return e.in.Ask(ctx, resp, dst.(T), req)
}

func (e erasedAsk[T]) ServeAsk(ctx context.Context, fn func(context.Context, []byte, p2p.Message[p2p.Addr]) int) error {
	return e.in.ServeAsk(ctx, func(ctx context.Context, resp []byte, m p2p.Message[T]) int {
		return fn(ctx, resp, p2p.Message[p2p.Addr]{Src: m.Src, Dst: m.Dst, Payload: m.Payload})
	})
}

func eraseAsk[T p2p.Addr](s askBoth[T]) dynAsk { return erasedAsk[T]{dyn: erase[T](s), in: s} }

func testPrivKey(i int) x509.PrivateKey {
	seed := make([]byte, ed25519.SeedSize)
	binary.BigEndian.PutUint32(seed, uint32(i+1))
	algo, signer := x509.SignerFromStandard(ed25519.NewKeyFromSeed(seed))
	k, err := x509.DefaultRegistry().StoreSigner(algo, signer)
	if err != nil {
		panic(err)
	}
	return k
}

// closeErrSwarm is a transport whose Close does close it but reports an error (as a UDP socket that its owner already
// closed does). Whatever is stacked on top must still shut down completely (C12).
type closeErrSwarm struct{ dyn }

func (c closeErrSwarm) Close() error {
	c.dyn.Close()
	return errors.New("close of the inner transport reports an error")
}

// memCloseErr makes the in-memory base transports of the templates report an error from Close (set per case)
var memCloseErr bool

// memQueueLen: the in-memory base drops a datagram when the destination's queue is full (it is an unreliable transport by
// contract). The templates marked reliable assert delivery, so the queue must hold everything a case can have in flight
// at one node even when the receiving goroutines are starved: at most 8 concurrent messages of at most 120 parts each.
// (With 256 slots a thorough run on a loaded machine lost fragments of a 34-part message and reported the message as
// accepted but never delivered: a false alarm of the harness, see DESIGN.md section 10.)
const memQueueLen = 4096

func memNodes(n, mtu int, layer func(i int, s dyn) (dyn, dynAsk)) ([]node, error) {
	r := memswarm.NewRealm(memswarm.WithQueueLen(memQueueLen), memswarm.WithMTU(mtu))
	var ret []node
	for i := 0; i < n; i++ {
		base := erase[memswarm.Addr](r.NewSwarm())
		if memCloseErr {
			base = closeErrSwarm{base}
		}
		t, a := layer(i, base)
		// a multiplexer has no Close of its own: whoever made the base swarm closes it after the channels
		ret = append(ret, node{tell: t, ask: a, close: func() { t.Close(); base.Close() }})
	}
	return ret, nil
}

// closeAlso: Close of the top swarm, then of a layer underneath that the top does not close itself (a multiplexer
// channel does not close the swarm the multiplexer sits on)
type closeAlso struct {
	dyn
	under interface{ Close() error }
}

func (c closeAlso) Close() error {
	err := c.dyn.Close()
	c.under.Close()
	return err
}

var templates = []template{
	{"mem", true, func(n, seed int) ([]node, error) {
		return memNodes(n, 4096, func(i int, s dyn) (dyn, dynAsk) { return s, nil })
	}},
	{"mem+ask", true, func(n, seed int) ([]node, error) {
		r := memswarm.NewRealm(memswarm.WithQueueLen(256), memswarm.WithMTU(4096))
		var ret []node
		for i := 0; i < n; i++ {
			s := r.NewSwarm()
			a := eraseAsk[memswarm.Addr](s)
			ret = append(ret, node{tell: a, ask: a, close: func() { s.Close() }})
		}
		return ret, nil
	}},
	{"frag(mem40)", true, func(n, seed int) ([]node, error) {
		return memNodes(n, 40, func(i int, s dyn) (dyn, dynAsk) { return fragswarm.New[p2p.Addr](s, 3000), nil })
	}},
	{"strmux(mem)", true, func(n, seed int) ([]node, error) {
		return memNodes(n, 2000, func(i int, s dyn) (dyn, dynAsk) {
			m := p2pmux.NewStringMux[p2p.Addr](s)
			m.Open("other") // a second open channel on the same mux
			return m.Open("chan-α"), nil
		})
	}},
	{"u16mux(frag(mem64))", true, func(n, seed int) ([]node, error) {
		return memNodes(n, 64, func(i int, s dyn) (dyn, dynAsk) {
			f := fragswarm.New[p2p.Addr](s, 5000)
			return closeAlso{p2pmux.NewUint16Mux[p2p.Addr](f).Open(513), f}, nil
		})
	}},
	{"p2pke(mem)", true, func(n, seed int) ([]node, error) {
		return memNodes(n, 2000, func(i int, s dyn) (dyn, dynAsk) {
			return erase[p2pkeswarm.Addr[p2p.Addr]](p2pkeswarm.New[p2p.Addr](s, testPrivKey(seed*8+i))), nil
		})
	}},
	{"frag(p2pke(mem400))", true, func(n, seed int) ([]node, error) {
		return memNodes(n, 400, func(i int, s dyn) (dyn, dynAsk) {
			ke := erase[p2pkeswarm.Addr[p2p.Addr]](p2pkeswarm.New[p2p.Addr](s, testPrivKey(seed*8+i)))
			return fragswarm.New[p2p.Addr](ke, 4000), nil
		})
	}},
	{"multi{a:mem,b:strmux(mem)}", true, func(n, seed int) ([]node, error) {
		return memNodes(n, 1500, func(i int, s dyn) (dyn, dynAsk) {
			mx := p2pmux.NewStringMux[p2p.Addr](s)
			var a, b multiswarm.DynSwarm = mx.Open("A"), mx.Open("B")
			if memCloseErr { // one of the two transports of the multiswarm reports an error from Close
				if i%2 == 0 {
					a = closeErrSwarm{a}
				} else {
					b = closeErrSwarm{b}
				}
			}
			return erase[multiswarm.Addr](multiswarm.New(map[string]multiswarm.DynSwarm{"a": a, "b": b})), nil
		})
	}},
	{"mbapp(p2pke(mem400))", true, func(n, seed int) ([]node, error) {
		return memNodes(n, 400, func(i int, s dyn) (dyn, dynAsk) {
			ke := p2pkeswarm.New[p2p.Addr](s, testPrivKey(seed*8+i))
			mb := mbapp.New[p2pkeswarm.Addr[p2p.Addr], x509.PublicKey](ke, 20000)
			a := eraseAsk[p2pkeswarm.Addr[p2p.Addr]](mb)
			return a, a
		})
	}},
	{"wl(mbapp(p2pke(mem)))", true, func(n, seed int) ([]node, error) {
		return memNodes(n, 1400, func(i int, s dyn) (dyn, dynAsk) {
			ke := p2pkeswarm.New[p2p.Addr](s, testPrivKey(seed*8+i))
			mb := mbapp.New[p2pkeswarm.Addr[p2p.Addr], x509.PublicKey](ke, 9000)
			wl := wlswarm.WrapSecureAsk[p2pkeswarm.Addr[p2p.Addr], x509.PublicKey](mb, func(p2pkeswarm.Addr[p2p.Addr]) bool { return true })
			a := eraseAsk[p2pkeswarm.Addr[p2p.Addr]](wl)
			return a, a
		})
	}},
	{"map(mem)", true, func(n, seed int) ([]node, error) {
		// address-mapped swarm: above addresses are names "node-<k>", below addresses are memswarm's numbers
		r := memswarm.NewRealm(memswarm.WithQueueLen(256), memswarm.WithMTU(3000))
		var ret []node
		for i := 0; i < n; i++ {
			m := mapswarm.New[mappedAddr, memswarm.Addr](r.NewSwarm(),
				func(a mappedAddr) memswarm.Addr { return memswarm.Addr{N: a.K - 1000} },
				func(b memswarm.Addr) mappedAddr { return mappedAddr{K: b.N + 1000} },
				parseMappedAddr)
			t := erase[mappedAddr](m)
			ret = append(ret, node{tell: t, close: func() { t.Close() }})
		}
		return ret, nil
	}},
	{"mbapp(mem200)", true, func(n, seed int) ([]node, error) {
		r := memswarm.NewRealm(memswarm.WithQueueLen(memQueueLen), memswarm.WithMTU(200))
		var ret []node
		for i := 0; i < n; i++ {
			mb := mbapp.New[memswarm.Addr, struct{}](p2p.ComposeSecureSwarm[memswarm.Addr, struct{}](r.NewSwarm(), noSecure[memswarm.Addr]{}), 6000)
			a := eraseAsk[memswarm.Addr](mb)
			ret = append(ret, node{tell: a, ask: a, close: func() { mb.Close() }})
		}
		return ret, nil
	}},
	{"udp", false, func(n, seed int) ([]node, error) {
		var ret []node
		for i := 0; i < n; i++ {
			u, err := udpswarm.New("127.0.0.1:0")
			if err != nil {
				return nil, err
			}
			ret = append(ret, node{tell: erase[udpswarm.Addr](u), close: func() { u.Close() }})
		}
		return ret, nil
	}},
	{"frag(p2pke(udp))", false, func(n, seed int) ([]node, error) {
		var ret []node
		for i := 0; i < n; i++ {
			u, err := udpswarm.New("127.0.0.1:0")
			if err != nil {
				return nil, err
			}
			ke := erase[p2pkeswarm.Addr[udpswarm.Addr]](p2pkeswarm.New[udpswarm.Addr](u, testPrivKey(seed*8+i)))
			f := fragswarm.New[p2p.Addr](ke, 6000)
			ret = append(ret, node{tell: f, close: func() { f.Close() }})
		}
		return ret, nil
	}},
	{"quic(udp)", false, func(n, seed int) ([]node, error) {
		var ret []node
		for i := 0; i < n; i++ {
			q, err := quicswarm.NewOnUDP("127.0.0.1:0", testPrivKey(seed*8+i))
			if err != nil {
				return nil, err
			}
			a := eraseAsk[quicswarm.Addr[udpswarm.Addr]](q)
			ret = append(ret, node{tell: a, ask: a, close: func() { q.Close() }})
		}
		return ret, nil
	}},
	{"ssh", false, func(n, seed int) ([]node, error) {
		var ret []node
		for i := 0; i < n; i++ {
			seedb := make([]byte, ed25519.SeedSize)
			binary.BigEndian.PutUint32(seedb, uint32(seed*8+i+1))
			signer, err := ssh.NewSignerFromSigner(ed25519.NewKeyFromSeed(seedb))
			if err != nil {
				return nil, err
			}
			s, err := sshswarm.New("127.0.0.1:0", signer)
			if err != nil {
				return nil, err
			}
			a := eraseAsk[sshswarm.Addr](s)
			ret = append(ret, node{tell: a, ask: a, close: func() { s.Close() }})
		}
		return ret, nil
	}},
}

// mappedAddr is the upper address type of the mapswarm template
type mappedAddr struct{ K int }

func (a mappedAddr) MarshalText() ([]byte, error) { return []byte(fmt.Sprintf("node-%d", a.K)), nil }
func (a mappedAddr) String() string               { return fmt.Sprintf("node-%d", a.K) }
func parseMappedAddr(x []byte) (mappedAddr, error) {
	var a mappedAddr
	if !strings.HasPrefix(string(x), "node-") {
		return a, errors.New("not a mapped address")
	}
	k, err := strconv.Atoi(strings.TrimPrefix(string(x), "node-"))
	a.K = k
	return a, err
}

// noSecure makes a plain swarm look like a secure one whose keys are empty (mbapp wants a SecureSwarm)
type noSecure[A p2p.Addr] struct{}

func (noSecure[A]) PublicKey() struct{} { return struct{}{} }
func (noSecure[A]) LookupPublicKey(ctx context.Context, a A) (struct{}, error) {
	return struct{}{}, nil
}

func sum(b []byte) uint64 { h := fnv.New64a(); h.Write(b); return h.Sum64() }

type delivery struct {
	to       int
	src, dst string
	payload  []byte
}

func addrText(a p2p.Addr) string {
	b, err := a.MarshalText()
	if err != nil {
		return "!" + err.Error()
	}
	return string(b)
}

func localTexts(s dyn) (ret []string) {
	for _, a := range s.LocalAddrs() {
		ret = append(ret, addrText(a))
	}
	return ret
}

func contains(xs []string, x string) bool {
	for _, y := range xs {
		if x == y {
			return true
		}
	}
	return false
}

func swarmOracle(r *rand.Rand, n int, tier string, infile string) (cases int, fails []string) {
	bad := func(f string, a ...any) {
		if len(fails) < 40 {
			fails = append(fails, fmt.Sprintf(f, a...))
		}
	}
	start := oracleOffset
	var ran []string
	for round := start; round < start+n; round++ {
		tpl := templates[round%len(templates)]
		if only := os.Getenv("SWARM_TPL"); only != "" && tpl.name != only {
			continue
		}
		if tier == "quick" && !tpl.reliable && round >= 2*len(templates) {
			continue
		}
		cases += swarmCase(r, tpl, round, bad)
		ran = append(ran, tpl.name)
	}
	fmt.Println("swarm oracle templates run in this slice:", strings.Join(ran, " "))
	if start == 0 {
		muxReopenCase(bad)
		cases++
		muxReopenDeliveryCase(bad)
		cases++
		multiMixedMTUCase(bad)
		cases++
		dupHoldCase("frag", bad)
		dupHoldCase("mbapp", bad)
		cases += 2
		for _, kind := range []string{"mem", "wl", "map", "strmux"} {
			holdReuseCase(kind, bad)
			cases++
		}
		for _, kind := range []string{"mbapp1", "mbapp", "mem", "strmux"} {
			askHoldCase(kind, bad)
			cases++
		}
		udpCtxCase(bad)
		cases++
		transformCase(bad)
		cases++
	}
	for _, tpl := range templates {
		if tier == "quick" && !tpl.reliable && closeDuringDone[tpl.name] {
			continue
		}
		closeDuringDone[tpl.name] = true
		closeDuringCallbackCase(tpl, bad)
		cases++
		closePendingCase(tpl, bad)
		cases++
	}
	return cases, fails
}

var closeDuringDone = map[string]bool{}

// muxReopenCase (C12, repeated Close): a muxed channel is opened, closed, opened again under the same id, the stale
// handle is closed a second time (a leftover deferred Close), then the live handle is closed: its blocked Receive and
// ServeAsk calls and every later one must return an error promptly.
// multiMixedMTUCase (C09): a multiswarm over two transports with different MTUs. Whatever MTU() it reports, a payload of
// that size is accepted for every destination it can address (none of the layers beneath refuses it for size) and
// arrives intact; one byte more is refused with the MTU error.
func multiMixedMTUCase(bad func(string, ...any)) {
	small := memswarm.NewRealm(memswarm.WithQueueLen(16), memswarm.WithMTU(1024))
	big := memswarm.NewRealm(memswarm.WithQueueLen(16), memswarm.WithMTU(4096))
	mk := func() p2p.Swarm[multiswarm.Addr] {
		return multiswarm.New(map[string]multiswarm.DynSwarm{
			"small": erase[memswarm.Addr](small.NewSwarm()), "big": erase[memswarm.Addr](big.NewSwarm())})
	}
	a, b := mk(), mk()
	defer func() {
		// C12: a message that nobody receives is pending when the node is closed: Close ends all the same
		if las := b.LocalAddrs(); len(las) > 0 {
			pctx, pcf := context.WithTimeout(context.Background(), time.Second)
			a.Tell(pctx, las[0], p2p.IOVec{[]byte("nobody receives this")})
			pcf()
		}
		time.Sleep(60 * time.Millisecond)
		closed := make(chan struct{})
		go func() { b.Close(); a.Close(); close(closed) }()
		select {
		case <-closed:
		case <-time.After(3 * time.Second):
			bad("C12 multiswarm over two in-memory transports: Close did not return within 3 s while a message that nobody receives was pending")
		}
	}()
	mtu := a.MTU()
	for _, dst := range b.LocalAddrs() {
		for _, size := range []int{mtu - 1, mtu} {
			if size < 0 {
				continue
			}
			p := make([]byte, size)
			for i := range p {
				p[i] = byte(i*7 + size)
			}
			ctx, cf := context.WithTimeout(context.Background(), time.Second)
			err := a.Tell(ctx, dst, p2p.IOVec{p})
			var got []byte
			if err == nil {
				b.Receive(ctx, func(m p2p.Message[multiswarm.Addr]) { got = append([]byte{}, m.Payload...) })
			}
			cf()
			if err != nil {
				bad("C09 multiswarm over transports of MTU 1024 and 4096 reports MTU()=%d, but a payload of %d bytes to %s is refused: %v", mtu, size, addrText(dst), err)
			} else if !bytes.Equal(got, p) {
				bad("C09 multiswarm (MTU()=%d): a payload of %d bytes to %s was accepted but %d bytes arrived", mtu, size, addrText(dst), len(got))
			}
		}
		ctx, cf := context.WithTimeout(context.Background(), time.Second)
		err := a.Tell(ctx, dst, p2p.IOVec{make([]byte, mtu+1)})
		if err == nil {
			// the larger transport takes it: receive it, so that it is not mistaken for a later payload
			b.Receive(ctx, func(p2p.Message[multiswarm.Addr]) {})
		}
		cf()
		if !p2p.IsErrMTUExceeded(err) && strings.HasPrefix(addrText(dst), "small") {
			bad("C09 multiswarm (MTU()=%d): a payload of MTU()+1 bytes to %s is not refused with the MTU error: %v", mtu, addrText(dst), err)
		}
	}
}

// muxReopenDeliveryCase (C15, the open-channel table decides delivery): traffic on a channel, the destination closes its
// swarm for that channel and opens the channel again, more traffic on the same channel: the swarm that is open NOW
// receives it; nothing reaches another channel.
func muxReopenDeliveryCase(bad func(string, ...any)) {
	realm := memswarm.NewRealm(memswarm.WithQueueLen(16), memswarm.WithMTU(2000))
	ma := p2pmux.NewStringMux[memswarm.Addr](realm.NewSwarm())
	mb := p2pmux.NewStringMux[memswarm.Addr](realm.NewSwarm())
	ax := ma.Open("chan-x")
	bx, by := mb.Open("chan-x"), mb.Open("chan-y")
	defer ax.Close()
	defer by.Close()
	dst := bx.LocalAddrs()[0]
	recvOne := func(s p2p.Swarm[memswarm.Addr], wait time.Duration) (string, error) {
		ctx, cf := context.WithTimeout(context.Background(), wait)
		defer cf()
		var got string
		err := s.Receive(ctx, func(m p2p.Message[memswarm.Addr]) { got = string(m.Payload) })
		return got, err
	}
	tell := func(p string) {
		ctx, cf := context.WithTimeout(context.Background(), time.Second)
		defer cf()
		ax.Tell(ctx, dst, p2p.IOVec{[]byte(p)})
	}
	for round := 0; round < 3; round++ {
		want := fmt.Sprintf("message %d on chan-x", round)
		tell(want)
		if got, err := recvOne(bx, time.Second); err != nil || got != want {
			bad("C15 strmux: after %d close/re-open rounds of chan-x at the destination, a message told on chan-x does not reach the swarm open for chan-x (got %q, err=%v)", round, got, err)
			break
		}
		bx.Close()
		bx = mb.Open("chan-x")
	}
	bx.Close()
	if got, err := recvOne(by, 50*time.Millisecond); err == nil {
		bad("C15 strmux: the swarm open for chan-y received %q, which was told on chan-x", got)
	}
}

func muxReopenCase(bad func(string, ...any)) {
	realm := memswarm.NewRealm(memswarm.WithQueueLen(16), memswarm.WithMTU(2000))
	m := p2pmux.NewStringAskMux[memswarm.Addr](realm.NewSwarm())
	a := m.Open("chan")
	a.Close()
	b := m.Open("chan")
	a.Close()
	res := make(chan error, 2)
	go func() { res <- b.Receive(context.Background(), func(p2p.Message[memswarm.Addr]) {}) }()
	go func() {
		res <- b.ServeAsk(context.Background(), func(context.Context, []byte, p2p.Message[memswarm.Addr]) int { return 0 })
	}()
	time.Sleep(20 * time.Millisecond)
	b.Close()
	for k := 0; k < 2; k++ {
		select {
		case err := <-res:
			if err == nil {
				bad("C12 strmux: a call blocked on a re-opened channel returned nil after Close")
			}
		case <-time.After(2 * time.Second):
			bad("C12 strmux: channel opened, closed, re-opened, stale handle closed again, live handle closed: a blocked Receive/ServeAsk is still blocked 2s after Close returned")
			return
		}
	}
	ctx, cf := context.WithTimeout(context.Background(), 500*time.Millisecond)
	defer cf()
	if err := b.Receive(ctx, func(p2p.Message[memswarm.Addr]) {}); err == nil || ctx.Err() != nil {
		bad("C12 strmux: Receive on the closed re-opened channel does not fail promptly (err=%v)", err)
	}
}

// dupSwarm is a transport that duplicates: everything told through it arrives at once and again after a delay.
type dupSwarm struct {
	dyn
	delay time.Duration
}

func (d dupSwarm) Tell(ctx context.Context, dst p2p.Addr, v p2p.IOVec) error {
	var cp []byte
	for _, seg := range v {
		cp = append(cp, seg...)
	}
	err := d.dyn.Tell(ctx, dst, v)
	go func() {
		time.Sleep(d.delay)
		d.dyn.Tell(context.Background(), dst, p2p.IOVec{cp})
	}()
	return err
}

// dupHoldCase: a reassembling layer (fragswarm, mbapp) over a network that duplicates every datagram a little later,
// three receivers whose callbacks hold their message for a while. While a callback runs, the memory of the message it
// was given must not be handed to another callback (C14), its contents must stay what they were on entry (C14), and
// what it was given must be a payload that was told (C01/C10). Callbacks do not modify their messages here.
func dupHoldCase(kind string, bad func(string, ...any)) {
	r := memswarm.NewRealm(memswarm.WithQueueLen(256), memswarm.WithMTU(120))
	var nodes []dyn
	for i := 0; i < 2; i++ {
		base := dupSwarm{erase[memswarm.Addr](r.NewSwarm()), 30 * time.Millisecond}
		switch kind {
		case "frag":
			nodes = append(nodes, fragswarm.New[p2p.Addr](base, 5000))
		default:
			mb := mbapp.New[p2p.Addr, struct{}](p2p.ComposeSecureSwarm[p2p.Addr, struct{}](base, noSecure[p2p.Addr]{}), 5000)
			nodes = append(nodes, erase[p2p.Addr](mb))
		}
	}
	time.Sleep(20 * time.Millisecond) // mbapp's clean-up loop makes its first pass right after construction
	var mu sync.Mutex
	active := map[uintptr]int{}
	told := map[string]bool{}
	seen := 0
	stop := make(chan struct{})
	var wg sync.WaitGroup
	for g := 0; g < 3; g++ {
		wg.Add(1)
		go func() {
			defer wg.Done()
			for {
				select {
				case <-stop:
					return
				default:
				}
				ctx, cf := context.WithTimeout(context.Background(), 100*time.Millisecond)
				nodes[1].Receive(ctx, func(m p2p.Message[p2p.Addr]) {
					if len(m.Payload) == 0 {
						return
					}
					ptr := uintptr(unsafe.Pointer(&m.Payload[0]))
					h0 := sum(m.Payload)
					mu.Lock()
					seen++
					if !told[string(m.Payload)] {
						bad("C01 dup(%s): a receiver was given %d bytes that were never told", kind, len(m.Payload))
					}
					if active[ptr] > 0 {
						bad("C14 dup(%s): the memory of a message was handed to a second callback while the callback that owns it was still running", kind)
					}
					active[ptr]++
					mu.Unlock()
					time.Sleep(70 * time.Millisecond)
					if sum(m.Payload) != h0 {
						bad("C14 dup(%s): the payload changed while the callback that owns it was running", kind)
					}
					mu.Lock()
					active[ptr]--
					mu.Unlock()
				})
				cf()
			}
		}()
	}
	addr := nodes[1].LocalAddrs()[0]
	for k, size := range []int{300, 520, 97, 250} {
		p := make([]byte, size)
		for i := range p {
			p[i] = byte(k*31 + i*7 + 1)
		}
		mu.Lock()
		told[string(p)] = true
		mu.Unlock()
		ctx, cf := context.WithTimeout(context.Background(), time.Second)
		if err := nodes[0].Tell(ctx, addr, p2p.IOVec{p}); err != nil {
			bad("C01 dup(%s): Tell of %d bytes failed: %v", kind, size, err)
		}
		cf()
		time.Sleep(15 * time.Millisecond)
	}
	time.Sleep(400 * time.Millisecond)
	close(stop)
	wg.Wait()
	mu.Lock()
	if seen < 4 {
		bad("C01 dup(%s): %d of 4 messages arrived over a loss-free (duplicating) network", kind, seen)
	}
	mu.Unlock()
	for _, n := range nodes {
		n.Close()
	}
}

// holdReuseCase: a layer that only passes messages through (whitelist, address mapping, a multiplexer, nothing at all)
// over an in-memory transport with a two-slot receive queue. While the callback for the first message runs, as many
// further messages as the queue has slots are told to the same node: the memory the transport lent for the first
// message must stay the callback's until it returns (C14), so what the callback reads at its end is what it was
// given, and every callback is given a payload that was told (C01).
func holdReuseCase(kind string, bad func(string, ...any)) {
	r := memswarm.NewRealm(memswarm.WithQueueLen(2), memswarm.WithMTU(1000))
	wrap := func() dyn {
		s := r.NewSwarm()
		switch kind {
		case "wl":
			sec := p2p.ComposeSecureSwarm[memswarm.Addr, struct{}](s, noSecure[memswarm.Addr]{})
			return erase[memswarm.Addr](wlswarm.WrapSecure[memswarm.Addr, struct{}](sec, func(memswarm.Addr) bool { return true }))
		case "map":
			return erase[mappedAddr](mapswarm.New[mappedAddr, memswarm.Addr](s,
				func(a mappedAddr) memswarm.Addr { return memswarm.Addr{N: a.K - 1000} },
				func(b memswarm.Addr) mappedAddr { return mappedAddr{K: b.N + 1000} }, parseMappedAddr))
		case "strmux":
			return p2pmux.NewStringMux[p2p.Addr](erase[memswarm.Addr](s)).Open("c")
		}
		return erase[memswarm.Addr](s)
	}
	a, b := wrap(), wrap()
	defer a.Close()
	defer b.Close()
	dst := b.LocalAddrs()[0]
	msgs := [][]byte{[]byte("message-0000-first, held by its callback"), []byte("message-0001-second, told while the first is held"),
		[]byte("message-0002-third, told while the first is held.."), []byte("message-0003")}
	told := map[string]bool{}
	for _, m := range msgs {
		told[string(m)] = true
	}
	tell := func(m []byte) {
		ctx, cf := context.WithTimeout(context.Background(), time.Second)
		defer cf()
		a.Tell(ctx, dst, p2p.IOVec{append([]byte{}, m...)})
	}
	tell(msgs[0])
	got := 0
	for k := 0; k < 3; k++ {
		ctx, cf := context.WithTimeout(context.Background(), 300*time.Millisecond)
		err := b.Receive(ctx, func(m p2p.Message[p2p.Addr]) {
			got++
			entry := append([]byte{}, m.Payload...)
			if !told[string(entry)] {
				bad("C01 hold(%s): a receiver was given %q, which was never told", kind, entry)
			}
			if k == 0 {
				// the held message occupies one of the two slots until its callback returns: of these two messages the
				// in-memory transport (unreliable when its queue is full) keeps one and drops the other
				tell(msgs[1])
				tell(msgs[2])
				time.Sleep(5 * time.Millisecond)
				if !bytes.Equal(entry, m.Payload) {
					bad("C14 hold(%s): the payload a callback was given changed while the callback was running: %q -> %q", kind, entry, m.Payload)
				}
			}
		})
		cf()
		if err != nil {
			break
		}
	}
	if got < 2 {
		bad("C01 hold(%s): %d messages arrived, the two-slot queue had room for 2", kind, got)
	}
}

// closeDuringCallbackCase: Close is called while one receiver's callback is still running. The OTHER receivers that
// were blocked must return an error promptly all the same (C12 does not let them wait for somebody else's callback,
// which may never return); when the callback returns, Close and that Receive finish.
// closePendingCase (C12): messages arrive at a node on which nobody is receiving (the application is busy elsewhere);
// Close must still end promptly, and a Receive made afterwards fails. A layer that closes what is underneath before
// it releases the message it is trying to hand up can wait for its own buffer for ever.
func closePendingCase(tpl template, bad func(string, ...any)) {
	memCloseErr = false
	nodes, err := tpl.build(2, 78)
	if err != nil {
		return
	}
	name := tpl.name
	addrs := nodes[1].tell.LocalAddrs()
	if len(addrs) == 0 {
		for _, n := range nodes {
			go n.close()
		}
		return
	}
	for k := 0; k < 3; k++ {
		tctx, cf := context.WithTimeout(context.Background(), 700*time.Millisecond)
		nodes[0].tell.Tell(tctx, addrs[0], p2p.IOVec{[]byte(fmt.Sprintf("nobody receives this %d", k))})
		cf()
	}
	time.Sleep(60 * time.Millisecond)
	closed := make(chan struct{})
	go func() { nodes[1].close(); close(closed) }()
	select {
	case <-closed:
		cctx, cf := context.WithTimeout(context.Background(), time.Second)
		err := nodes[1].tell.Receive(cctx, func(p2p.Message[p2p.Addr]) {})
		cf()
		if err == nil {
			bad("C12 %s: Receive after Close (messages were pending when it was closed) reported success", name)
		}
	case <-time.After(3 * time.Second):
		bad("C12 %s: Close did not return within 3 s while messages that nobody receives were pending", name)
	}
	go nodes[0].close()
}

func closeDuringCallbackCase(tpl template, bad func(string, ...any)) {
	memCloseErr = false
	nodes, err := tpl.build(2, 77)
	if err != nil {
		return
	}
	name := tpl.name
	defer func() {
		for _, n := range nodes {
			go n.close()
		}
	}()
	addrs := nodes[1].tell.LocalAddrs()
	if len(addrs) == 0 {
		return
	}
	hold := make(chan struct{})
	entered := make(chan struct{}, 1)
	type ret struct {
		who int
		err error
	}
	rets := make(chan ret, 3)
	for who := 0; who < 3; who++ {
		who := who
		go func() {
			err := nodes[1].tell.Receive(context.Background(), func(p2p.Message[p2p.Addr]) {
				select {
				case entered <- struct{}{}:
				default:
				}
				<-hold
			})
			rets <- ret{who, err}
		}()
	}
	time.Sleep(20 * time.Millisecond)
	in := false
	for try := 0; try < 20 && !in; try++ {
		tctx, cf := context.WithTimeout(context.Background(), time.Second)
		nodes[0].tell.Tell(tctx, addrs[0], p2p.IOVec{[]byte("held")})
		cf()
		select {
		case <-entered:
			in = true
		case <-time.After(150 * time.Millisecond):
		}
	}
	if !in {
		close(hold)
		return // nothing got through (handshake or socket trouble): inconclusive
	}
	closed := make(chan struct{})
	go func() { nodes[1].close(); close(closed) }()
	returned := 0
	deadline := time.After(1500 * time.Millisecond)
wait:
	for returned < 2 {
		select {
		case r := <-rets:
			if r.err == nil {
				bad("C12 %s: a Receive that was blocked when Close was called returned nil", name)
			}
			returned++
		case <-deadline:
			break wait
		}
	}
	if returned < 2 {
		bad("C12 %s: Close was called while another receiver's callback was running: %d of the 2 other blocked Receive calls are still blocked 1.5 s later (they wait for a callback that is not theirs)", name, 2-returned)
	}
	close(hold)
	select {
	case <-closed:
	case <-time.After(3 * time.Second):
		bad("C12 %s: Close did not return within 3 s after the last callback had returned", name)
	}
}

// udpCtxCase: udpswarm.Receive with a cancelled context (C13; recorded known finding)
func udpCtxCase(bad func(string, ...any)) {
	u, err := udpswarm.New("127.0.0.1:0")
	if err != nil {
		return
	}
	defer u.Close()
	ctx, cf := context.WithCancel(context.Background())
	cf()
	done := make(chan error, 1)
	go func() { done <- u.Receive(ctx, func(p2p.Message[udpswarm.Addr]) {}) }()
	select {
	case <-done:
	case <-time.After(400 * time.Millisecond):
		bad("C13 udpswarm.Receive ignores its context: still blocked 400ms after cancellation")
	}
}

func swarmCase(r *rand.Rand, tpl template, seed int, bad func(string, ...any)) (cases int) {
	nn := 2 + r.Intn(2)
	memCloseErr = seed%2 == 1
	gBefore := goroutineIDs()
	nodes, err := tpl.build(nn, seed)
	if err != nil {
		return 1 // environment (bind) failure: inconclusive, not a violation
	}
	name := tpl.name
	ctx, cancelAll := context.WithCancel(context.Background())
	var mu sync.Mutex
	var got []delivery
	afterClose := make([]bool, nn)
	var recvWG sync.WaitGroup
	recvErrs := make([][]error, nn)
	const receiversPerNode = 3
	for i := range nodes {
		i := i
		recvErrs[i] = make([]error, receiversPerNode)
		for g := 0; g < receiversPerNode; g++ {
			g := g
			recvWG.Add(1)
			go func() {
				defer recvWG.Done()
				for {
					err := nodes[i].tell.Receive(context.Background(), func(m p2p.Message[p2p.Addr]) {
						mu.Lock()
						if afterClose[i] {
							bad("C12 %s: a message was delivered to a callback after Close had returned", name)
						}
						entry := append([]byte{}, m.Payload...)
						got = append(got, delivery{i, addrText(m.Src), addrText(m.Dst), entry})
						hold := len(got)%3 == 0
						mu.Unlock()
						if hold {
							// the callback owns its message while it runs (C14): other traffic to this node goes on meanwhile
							time.Sleep(12 * time.Millisecond)
							if !bytes.Equal(entry, m.Payload) {
								bad("C14 %s: the payload a callback was given changed while the callback was running", name)
							}
						}
					})
					if err != nil {
						recvErrs[i][g] = err
						return
					}
				}
			}()
		}
	}
	addrs := make([]p2p.Addr, nn)
	for i := range nodes {
		la := nodes[i].tell.LocalAddrs()
		if len(la) == 0 {
			bad("C16 %s: node has no local address", name)
			cancelAll()
			return 1
		}
		addrs[i] = la[0]
		// C16: every local address survives marshal and parse
		for _, a := range la {
			txt, err := a.MarshalText()
			if err != nil {
				bad("C16 %s: MarshalText of a local address fails: %v", name, err)
				continue
			}
			back, err := nodes[i].tell.ParseAddr(txt)
			if err != nil || addrText(back) != string(txt) {
				bad("C16 %s: local address %q does not survive marshal and parse (err=%v)", name, txt, err)
			}
		}
	}
	// ---- C01 / C09: concurrent tells at boundary lengths, buffers overwritten right after Tell returns
	mtu := nodes[0].tell.MTU()
	type told struct {
		from, to int
		payload  []byte
	}
	var ledger []told
	var tellWG sync.WaitGroup
	lens := []int{0, 1, 2, mtu - 1, mtu, 17, 100, mtu / 2}
	if mtu > 70000 {
		lens = []int{0, 1, 17, 100, 1000, 20000}
	}
	nsend := 4 + r.Intn(5)
	for k := 0; k < nsend; k++ {
		from := r.Intn(nn)
		to := (from + 1 + r.Intn(nn-1)) % nn
		l := lens[r.Intn(len(lens))]
		if l < 0 {
			l = 0
		}
		p := hx.Bytes(r, l)
		if l >= 4 {
			binary.BigEndian.PutUint32(p, uint32(seed<<8|k)) // unique content
		}
		mu.Lock()
		ledger = append(ledger, told{from, to, append([]byte{}, p...)})
		mu.Unlock()
		tellWG.Add(1)
		go func() {
			defer tellWG.Done()
			buf := append([]byte{}, p...)
			before := sum(buf)
			tctx, cf := context.WithTimeout(ctx, 5*time.Second)
			defer cf()
			err := nodes[from].tell.Tell(tctx, addrs[to], p2p.IOVec{buf})
			if sum(buf) != before {
				bad("C01 %s: Tell modified the caller's buffer", name)
			}
			for i := range buf { // the sender may reuse its buffer as soon as Tell returns
				buf[i] = 0xEE
			}
			if err != nil && len(p) <= mtu {
				if p2p.IsErrMTUExceeded(err) {
					bad("C09 %s: payload of %d bytes refused for size although MTU()=%d", name, len(p), mtu)
				} else if tpl.reliable {
					bad("C01 %s: Tell of %d bytes failed: %v", name, len(p), err)
				}
			}
		}()
	}
	// over MTU must be refused with the MTU error
	if mtu < 1<<22 {
		err := nodes[0].tell.Tell(ctx, addrs[1], p2p.IOVec{make([]byte, mtu+1)})
		if !p2p.IsErrMTUExceeded(err) {
			bad("C09 %s: payload of MTU()+1=%d bytes was not refused with the MTU error (err=%v)", name, mtu+1, err)
		}
	}
	tellWG.Wait()
	// wait for deliveries
	deadline := time.Now().Add(1500 * time.Millisecond)
	for time.Now().Before(deadline) {
		mu.Lock()
		done := len(got) >= len(ledger)
		mu.Unlock()
		if done {
			break
		}
		time.Sleep(5 * time.Millisecond)
	}
	mu.Lock()
	gotCopy := append([]delivery{}, got...)
	mu.Unlock()
	matched := make([]bool, len(ledger))
	for _, d := range gotCopy {
		ok := false
		pick := -1
		for j, t := range ledger {
			if t.to == d.to && bytes.Equal(t.payload, d.payload) {
				if pick < 0 || (matched[pick] && !matched[j]) {
					pick = j
				}
			}
		}
		if pick >= 0 {
			t := ledger[pick]
			matched[pick] = true
			ok = true
			srcOK := contains(localTexts(nodes[t.from].tell), d.src)
			if strings.HasPrefix(name, "ssh") { // the source names the connection: same identity and IP, the dialler's outbound port
				for _, la := range localTexts(nodes[t.from].tell) {
					if i, j := strings.LastIndexByte(la, ':'), strings.LastIndexByte(d.src, ':'); i > 0 && j > 0 && la[:i] == d.src[:j] {
						srcOK = true
					}
				}
			}
			if !srcOK && len(t.payload) >= 4 {
				bad("C01 %s: delivered message carries source %q, the sender's addresses are %v", name, d.src, localTexts(nodes[t.from].tell))
			}
		}
		if !ok {
			bad("C01 %s: node %d received a %d-byte payload (%x…) that nobody told it", name, d.to, len(d.payload), d.payload[:min(len(d.payload), 8)])
		}
		if !contains(localTexts(nodes[d.to].tell), d.dst) {
			bad("C01 %s: delivered message carries destination %q, the receiver's addresses are %v", name, d.dst, localTexts(nodes[d.to].tell))
		}
		// C16: harvested addresses re-parse
		for _, txt := range []string{d.src, d.dst} {
			back, err := nodes[d.to].tell.ParseAddr([]byte(txt))
			if err != nil || addrText(back) != txt {
				bad("C16 %s: message address %q does not survive marshal and parse (err=%v)", name, txt, err)
			}
		}
	}
	if tpl.reliable {
		for j, t := range ledger {
			if !matched[j] {
				bad("C09 %s: a %d-byte payload (MTU()=%d) was accepted but never delivered", name, len(t.payload), mtu)
			}
		}
	}
	// ---- C11: asks
	if nodes[0].ask != nil {
		askCase(r, name, nodes, addrs, ctx, bad)
	}
	// ---- C12: Close with receivers (and ask servers) blocked
	serveRes := make(chan error, 2*nn)
	nServe := 0
	for i := range nodes {
		if nodes[i].ask == nil {
			continue
		}
		for g := 0; g < 2; g++ {
			nServe++
			go func() {
				serveRes <- nodes[i].ask.ServeAsk(context.Background(), func(context.Context, []byte, p2p.Message[p2p.Addr]) int { return 0 })
			}()
		}
	}
	if nServe > 0 {
		time.Sleep(10 * time.Millisecond)
	}
	for i := range nodes {
		done := make(chan struct{})
		go func() { nodes[i].close(); close(done) }()
		select {
		case <-done:
		case <-time.After(3 * time.Second):
			bad("C12 %s: Close did not return within 3s", name)
		}
		mu.Lock()
		afterClose[i] = true
		mu.Unlock()
		// C11: the destination is gone (closed, over whatever connection the earlier asks left behind): an Ask to it
		// ends with an error, not with an answer nobody produced
		if i == 0 && nn > 1 && nodes[1].ask != nil {
			actx, cf := context.WithTimeout(context.Background(), 700*time.Millisecond)
			buf := make([]byte, 64)
			n, err := nodes[1].ask.Ask(actx, buf, addrs[0], p2p.IOVec{[]byte{1, 2, 3, 4}})
			cf()
			if err == nil {
				bad("C11 %s: Ask to a node that has been closed returned success (n=%d) although no handler ran", name, n)
			}
		}
	}
	for k := 0; k < nServe; k++ {
		select {
		case err := <-serveRes:
			if err == nil {
				bad("C12 %s: a ServeAsk call that was blocked when Close was called returned nil (success) although it served nothing", name)
			}
		case <-time.After(2 * time.Second):
			bad("C12 %s: ServeAsk calls still blocked 2s after Close", name)
			k = nServe
		}
	}
	for i := range nodes {
		if nodes[i].ask == nil {
			continue
		}
		cctx, cf := context.WithTimeout(context.Background(), time.Second)
		err := nodes[i].ask.ServeAsk(cctx, func(context.Context, []byte, p2p.Message[p2p.Addr]) int { return 0 })
		expired := cctx.Err() != nil
		cf()
		if err == nil {
			bad("C12 %s: ServeAsk after Close reported success", name)
		} else if expired {
			bad("C12 %s: ServeAsk after Close blocked until its context expired instead of failing", name)
		}
	}
	fin := make(chan struct{})
	go func() { recvWG.Wait(); close(fin) }()
	select {
	case <-fin:
		for i := range recvErrs {
			for _, e := range recvErrs[i] {
				if e == nil {
					bad("C12 %s: a blocked Receive returned nil after Close", name)
				}
			}
		}
	case <-time.After(2 * time.Second):
		bad("C12 %s: Receive calls still blocked 2s after Close", name)
	}
	for i := range nodes {
		cctx, cf := context.WithTimeout(context.Background(), time.Second)
		t0 := time.Now()
		err := nodes[i].tell.Receive(cctx, func(p2p.Message[p2p.Addr]) {})
		if os.Getenv("SWARM_DEBUG") != "" {
			fmt.Fprintln(os.Stderr, "receive-after-close", name, err, time.Since(t0))
		}
		expired := cctx.Err() != nil
		cf()
		if err == nil {
			bad("C12 %s: Receive after Close reported success", name)
		} else if expired && !strings.HasPrefix(name, "udp") {
			bad("C12 %s: Receive after Close blocked until its context expired instead of failing", name)
		}
		func() {
			defer func() {
				if rec := recover(); rec != nil {
					bad("C12 %s: second Close panicked: %v", name, rec)
				}
			}()
			d := make(chan struct{})
			go func() { nodes[i].close(); close(d) }()
			select {
			case <-d:
			case <-time.After(2 * time.Second):
				bad("C12 %s: second Close did not return", name)
			}
		}()
	}
	cancelAll()
	// C12: closing releases the goroutines the swarm started (every node of the stack is closed now)
	var left []string
	for wait := 0; wait < 40; wait++ {
		if left = repoGoroutinesSince(gBefore); len(left) == 0 {
			break
		}
		time.Sleep(50 * time.Millisecond)
	}
	uniq := map[string]int{}
	for _, g := range left {
		uniq[g]++
	}
	for g, k := range uniq {
		bad("C12 %s: %d goroutine(s) the swarm started still alive 2s after Close: %s", name, k, g)
	}
	return 1
}

// goroutineIDs: the ids of all goroutines alive now
func goroutineIDs() map[string]bool {
	ids := map[string]bool{}
	for _, blk := range goroutineBlocks() {
		ids[goroutineID(blk)] = true
	}
	return ids
}

func goroutineBlocks() []string {
	buf := make([]byte, 1<<20)
	for {
		n := runtime.Stack(buf, true)
		if n < len(buf) {
			return strings.Split(strings.TrimSpace(string(buf[:n])), "\n\n")
		}
		buf = make([]byte, 2*len(buf))
	}
}

func goroutineID(blk string) string {
	f := strings.Fields(blk)
	if len(f) >= 2 && f[0] == "goroutine" {
		return f[1]
	}
	return ""
}

// repoGoroutinesSince: goroutines that did not exist at the snapshot and run (or were created by) code of the library,
// as "top library frame <- created by ..."
func repoGoroutinesSince(before map[string]bool) (out []string) {
	const mod = "go.brendoncarroll.net/p2p"
	for _, blk := range goroutineBlocks() {
		if before[goroutineID(blk)] || !strings.Contains(blk, mod) {
			continue
		}
		top, created := "", ""
		for _, l := range strings.Split(blk, "\n") {
			if strings.HasPrefix(l, "created by ") {
				created = strings.TrimPrefix(strings.Fields(l[len("created by "):])[0], mod)
			} else if strings.HasPrefix(l, mod) && top == "" {
				top = strings.TrimPrefix(l[:strings.LastIndexByte(l, '(')], mod)
			}
		}
		if !strings.Contains(created, "/") && !strings.Contains(top, "/") {
			continue
		}
		out = append(out, top+" <- created by "+created)
	}
	return out
}

func askCase(r *rand.Rand, name string, nodes []node, addrs []p2p.Addr, ctx context.Context, bad func(string, ...any)) {
	nn := len(nodes)
	sctx, stop := context.WithCancel(ctx)
	defer stop()
	respFor := func(req []byte) (int, []byte) {
		if len(req) == 0 {
			return 0, nil
		}
		switch req[0] % 5 {
		case 0: // the handler signals failure; any negative value must do
			return []int{-1, -2, -255, -256, -512, -65536, -1 << 31}[int(req[1])%7], nil
		case 1:
			return 0, nil
		}
		out := append([]byte("re:"), req...)
		out = append(out, bytes.Repeat([]byte{req[0]}, int(req[0])%40)...)
		return len(out), out
	}
	for i := range nodes {
		i := i
		for g := 0; g < 2; g++ {
			go func() {
				for {
					err := nodes[i].ask.ServeAsk(sctx, func(_ context.Context, resp []byte, m p2p.Message[p2p.Addr]) int {
						n, out := respFor(m.Payload)
						if n < 0 {
							return n
						}
						if n > len(resp) {
							return -1
						}
						copy(resp, out)
						return n
					})
					if err != nil {
						return
					}
				}
			}()
		}
	}
	var wg sync.WaitGroup
	for k := 0; k < 6; k++ {
		from := r.Intn(nn)
		to := (from + 1 + r.Intn(nn-1)) % nn
		req := append([]byte{byte(r.Intn(256))}, hx.Bytes(r, 3+r.Intn(20))...)
		wantN, want := respFor(req)
		bufLen := hx.Pick(r, 0, 1, len(want)-1, len(want), len(want)+1, 200)
		if bufLen < 0 {
			bufLen = 0
		}
		wg.Add(1)
		go func() {
			defer wg.Done()
			actx, cf := context.WithTimeout(ctx, 3*time.Second)
			defer cf()
			buf := make([]byte, bufLen)
			defer func() {
				if p := recover(); p != nil {
					bad("%s: Ask with a response buffer of %d bytes, answered with %d bytes, panics: %v", name, bufLen, len(want), p)
				}
			}()
			// the request is handed over as a vector of one to three segments; the handler sees their concatenation
			// (respFor is a function of it). The vector itself may be consumed by the call ("v may be modified",
			// swarm.go: quicswarm writes it with net.Buffers.WriteTo), so nothing is asserted about it afterwards.
			reqVec, _ := callerVec(req)
			n, err := nodes[from].ask.Ask(actx, buf, addrs[to], reqVec)
			switch {
			case err == nil && wantN < 0:
				bad("C11 %s: handler signalled failure but Ask returned success (n=%d)", name, n)
			case err == nil && (n != len(want) || !bytes.Equal(buf[:min(n, len(buf))], want)):
				bad("C11 %s: Ask returned %d bytes %q, its handler produced %d bytes %q (buffer %d)", name, n, buf[:min(max(n, 0), len(buf))], len(want), want, bufLen)
			case err == nil && len(want) > bufLen:
				bad("C11 %s: response of %d bytes does not fit the %d-byte buffer but Ask reported success", name, len(want), bufLen)
			}
		}()
	}
	wg.Wait()
	// C09 for asks: a request of up to MTU() bytes is accepted and answered, MTU()+1 is refused with the MTU error
	from := r.Intn(nn)
	to := (from + 1) % nn
	mtu := nodes[from].ask.MTU()
	if mtu > 8 && mtu <= 1<<21 {
		for _, size := range []int{mtu - 5, mtu - 4, mtu - 3, mtu - 2, mtu - 1, mtu} {
			req := make([]byte, size)
			req[0] = 1 // the handler answers with an empty response
			actx, cf := context.WithTimeout(ctx, 3*time.Second)
			n, err := nodes[from].ask.Ask(actx, make([]byte, 16), addrs[to], p2p.IOVec{req})
			cf()
			if err != nil || n != 0 {
				bad("C09 %s: Ask with a request of %d bytes (MTU()=%d) is not answered: n=%d err=%v", name, size, mtu, n, err)
				break
			}
		}
		actx, cf := context.WithTimeout(ctx, 3*time.Second)
		_, err := nodes[from].ask.Ask(actx, make([]byte, 16), addrs[to], p2p.IOVec{make([]byte, mtu+1)})
		cf()
		if !p2p.IsErrMTUExceeded(err) {
			bad("C09 %s: Ask with a request of MTU()+1=%d bytes is not refused with the MTU error: %v", name, mtu+1, err)
		}
	}
}

// askHoldCase (C14, ServeAsk): the request a ServeAsk callback is given stays what it was for as long as the callback
// runs, whatever else arrives at the node meanwhile. kind "mbapp1" is the message-box layer with ONE receive worker
// (the next datagram is read into the very buffer the request came in), "mbapp" the default number of workers, "mem"
// the in-memory transport, "strmux" a multiplexed channel over it.
func askHoldCase(kind string, bad func(string, ...any)) {
	realm := memswarm.NewRealm(memswarm.WithQueueLen(8), memswarm.WithMTU(4096))
	type askNode interface {
		p2p.Teller[p2p.Addr]
		p2p.Receiver[p2p.Addr]
		p2p.Asker[p2p.Addr]
		p2p.AskServer[p2p.Addr]
		LocalAddrs() []p2p.Addr
		Close() error
	}
	wrap := func() askNode {
		s := realm.NewSwarm()
		switch kind {
		case "mbapp1", "mbapp":
			var opts []mbapp.Option
			if kind == "mbapp1" {
				opts = append(opts, mbapp.WithNumWorkers(1))
			}
			return eraseAsk[memswarm.Addr](mbapp.New[memswarm.Addr, struct{}](p2p.ComposeSecureSwarm[memswarm.Addr, struct{}](s, noSecure[memswarm.Addr]{}), 4096, opts...))
		case "strmux":
			return p2pmux.NewStringAskMux[p2p.Addr](eraseAsk[memswarm.Addr](s)).Open("c")
		}
		return eraseAsk[memswarm.Addr](s)
	}
	a, b := wrap(), wrap()
	defer a.Close()
	defer b.Close()
	dst := b.LocalAddrs()[0]
	req := bytes.Repeat([]byte{'Q'}, 64)
	entered, release := make(chan struct{}), make(chan struct{})
	var changed atomic.Value
	sctx, scf := context.WithCancel(context.Background())
	defer scf()
	go b.ServeAsk(sctx, func(_ context.Context, resp []byte, m p2p.Message[p2p.Addr]) int {
		entry := append([]byte{}, m.Payload...)
		close(entered)
		<-release
		if !bytes.Equal(entry, m.Payload) {
			changed.Store(fmt.Sprintf("%q -> %q", entry, m.Payload))
		}
		return copy(resp, "ok")
	})
	askDone := make(chan error, 1)
	go func() {
		ctx, cf := context.WithTimeout(context.Background(), 3*time.Second)
		defer cf()
		_, err := a.Ask(ctx, make([]byte, 16), dst, p2p.IOVec{append([]byte{}, req...)})
		askDone <- err
	}()
	select {
	case <-entered:
	case <-time.After(2 * time.Second):
		close(release)
		return // the request did not arrive: nothing to observe
	}
	// while the callback holds the request, other messages of the same size arrive at the node
	for k := 0; k < 3; k++ {
		ctx, cf := context.WithTimeout(context.Background(), 200*time.Millisecond)
		a.Tell(ctx, dst, p2p.IOVec{bytes.Repeat([]byte{'x'}, 64)})
		cf()
	}
	rctx, rcf := context.WithTimeout(context.Background(), 150*time.Millisecond)
	b.Receive(rctx, func(p2p.Message[p2p.Addr]) {})
	rcf()
	close(release)
	select {
	case <-askDone:
	case <-time.After(3 * time.Second):
	}
	if c := changed.Load(); c != nil {
		bad("C14 askhold(%s): the request a ServeAsk callback was given changed while the callback was running: %s", kind, c)
	}
}

// transformCase: an in-memory realm whose TellTransform rewrites payloads in flight (a bit-error injector). The
// receiver sees the rewritten bytes; the SENDER's buffers are still what it passed to Tell (C01: "none of the buffers
// in v will be modified"), for vectors of one, several and no segments, with and without spare capacity.
func transformCase(bad func(string, ...any)) {
	realm := memswarm.NewRealm(memswarm.WithQueueLen(16), memswarm.WithTellTransform(func(m *memswarm.Message) bool {
		for i := range m.Payload {
			m.Payload[i] ^= 0xff
		}
		return true
	}))
	a, b := realm.NewSwarm(), realm.NewSwarm()
	defer a.Close()
	defer b.Close()
	ctx, cf := context.WithTimeout(context.Background(), 3*time.Second)
	defer cf()
	for _, segs := range [][]string{{"hello world"}, {"head:", "body"}, {}, {"x"}, {"", "tail"}} {
		v := make(p2p.IOVec, 0, len(segs)+2)
		var keep [][]byte
		for _, s := range segs {
			v = append(v, []byte(s))
			keep = append(keep, []byte(s))
		}
		if err := a.Tell(ctx, b.LocalAddrs()[0], v); err != nil {
			continue
		}
		var got []byte
		b.Receive(ctx, func(m p2p.Message[memswarm.Addr]) { got = append([]byte{}, m.Payload...) })
		for i := range keep {
			if !bytes.Equal(v[i], keep[i]) {
				bad("C01 memswarm with a TellTransform: Tell modified segment %d of the sender's vector %q (now %x)", i, segs, v[i])
			}
		}
		want := []byte(strings.Join(segs, ""))
		for i := range want {
			want[i] ^= 0xff
		}
		if !bytes.Equal(got, want) {
			bad("C01 memswarm with a TellTransform: receiver got %x for %q, the transform produces %x", got, segs, want)
		}
	}
}
