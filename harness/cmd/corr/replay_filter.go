package main

import (
	"fmt"
	"math/rand"
	"strconv"
	"strings"

	"golang.zx2c4.com/wireguard/replay"
	"verifharness/internal/hx"
)

// replay stream: golang.zx2c4.com/wireguard/replay.Filter (Session.rp) against Model/Replay.lean, with counters
// concentrated around block (64) and window (8128) edges and the limit.

func init() {
	streams["replay"] = replayFilterStream
	replayers["replay"] = func() replayFn {
		f := &replay.Filter{}
		return func(op []string, o *hx.Out) { replayApply(&f, op, o) }
	}
}

func replayApply(f **replay.Filter, op []string, o *hx.Out) {
	line := strings.Join(op, " ")
	switch op[0] {
	case "rp-new":
		*f = &replay.Filter{}
		o.Emit("rp-new", false, line, "ok")
	case "rp":
		c, _ := strconv.ParseUint(op[1], 10, 64)
		lim, _ := strconv.ParseUint(op[2], 10, 64)
		r := "0"
		if (*f).ValidateCounter(c, lim) {
			r = "1"
		}
		o.Emit("rp", true, line, r)
	}
}

func replayFilterStream(r *rand.Rand, n int, tier string, o *hx.Out) {
	f := &replay.Filter{}
	total := 0
	for total < n {
		replayApply(&f, []string{"rp-new"}, o)
		lim := uint64(hx.Pick(r, 4294967294, 4294967294, 100000, 9000, 64))
		var last uint64
		steps := 50 + r.Intn(400)
		for k := 0; k < steps; k++ {
			var c uint64
			switch r.Intn(10) {
			case 0: // jump forward by a block-ish amount
				c = last + uint64(hx.Pick(r, 1, 63, 64, 65, 127, 128, 8127, 8128, 8129, 8191, 8192, 8193, 20000))
			case 1: // behind the window edge
				back := uint64(hx.Pick(r, 8126, 8127, 8128, 8129, 8130, 8191, 8192, 64, 63, 65))
				if last >= back {
					c = last - back
				}
			case 2: // around the limit
				c = lim - uint64(r.Intn(3)) + uint64(r.Intn(3))
			case 3:
				c = last // exact repeat of the newest
			case 4:
				c = uint64(r.Intn(70))
			default: // near the current position
				d := uint64(r.Intn(200))
				if r.Intn(2) == 0 && last >= d {
					c = last - d
				} else {
					c = last + d%5
				}
			}
			replayApply(&f, []string{"rp", strconv.FormatUint(c, 10), strconv.FormatUint(lim, 10)}, o)
			if c > last && c < lim {
				last = c
			}
			total++
		}
	}
	_ = fmt.Sprint
}
