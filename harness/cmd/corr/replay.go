package main

import (
	"bufio"
	"os"
	"strings"

	"verifharness/internal/hx"
)

// A replayer re-executes one operation line (without its result part) on the implementation and emits it
// again with the freshly observed result. Stateful streams keep their state in the closure.
type replayFn func(op []string, o *hx.Out)

var replayers = map[string]func() replayFn{}

func runReplay(mk func() replayFn, path string, o *hx.Out) {
	f, err := os.Open(path)
	if err != nil {
		panic(err)
	}
	defer f.Close()
	rf := mk()
	sc := bufio.NewScanner(f)
	sc.Buffer(make([]byte, 1<<20), 1<<26)
	for sc.Scan() {
		line := sc.Text()
		if i := strings.Index(line, " | "); i >= 0 {
			line = line[:i]
		}
		op := strings.Fields(line)
		if len(op) == 0 {
			continue
		}
		rf(op, o)
	}
}

// readOps returns the op part of every line of an ops file (nil if path is empty).
func readOps(path string) (ret [][]string) {
	if path == "" {
		return nil
	}
	f, err := os.Open(path)
	if err != nil {
		return nil
	}
	defer f.Close()
	sc := bufio.NewScanner(f)
	sc.Buffer(make([]byte, 1<<20), 1<<26)
	for sc.Scan() {
		line := sc.Text()
		if i := strings.Index(line, " | "); i >= 0 {
			line = line[:i]
		}
		if op := strings.Fields(line); len(op) > 0 {
			ret = append(ret, op)
		}
	}
	return ret
}
