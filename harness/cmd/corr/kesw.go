//go:build go1.25

package main

// kesw: whole p2pkeswarm nodes (swarm.go: channel table per transport address, receive loops, clean-up loop, Close)
// over an in-memory transport, with the library's DEFAULT intervals (backoff 250 ms, keep-alive 15 s, rekey 120 s,
// reject 180 s), under the fake clock. Model-free oracle for C07 at the swarm level and for the part of C12 that
// only shows with time: nothing the swarm started may still be running (timer callbacks included) after Close.

import (
	"context"
	"fmt"
	"math/rand"
	"strings"
	"sync"
	"sync/atomic"
	"time"

	"go.brendoncarroll.net/p2p"
	"go.brendoncarroll.net/p2p/p/p2pke"
	"go.brendoncarroll.net/p2p/s/memswarm"
	"go.brendoncarroll.net/p2p/s/p2pkeswarm"
	"verifharness/internal/hx"
)

func init() {
	oracles["kesw"] = keswOracle
	needBubble["kesw"] = true
}

// persistentInner lets a node "restart": the p2pkeswarm on top is closed and rebuilt while the transport address
// stays. It counts what is sent through it after the node on top was closed.
type persistentInner struct {
	p2p.Swarm[memswarm.Addr]
	closed     atomic.Bool // the p2pkeswarm on top called Close
	lateTells  atomic.Int64
	wake       chan struct{}
	mu         sync.Mutex
	generation int
}

func (pi *persistentInner) Close() error {
	pi.closed.Store(true)
	pi.mu.Lock()
	close(pi.wake) // Receive calls of the closed node return
	pi.wake = make(chan struct{})
	pi.mu.Unlock()
	return nil
}

func (pi *persistentInner) Tell(ctx context.Context, dst memswarm.Addr, v p2p.IOVec) error {
	if pi.closed.Load() {
		pi.lateTells.Add(1)
		return p2p.ErrClosed
	}
	return pi.Swarm.Tell(ctx, dst, v)
}

func (pi *persistentInner) Receive(ctx context.Context, fn func(p2p.Message[memswarm.Addr])) error {
	if pi.closed.Load() {
		return p2p.ErrClosed
	}
	pi.mu.Lock()
	wake := pi.wake
	pi.mu.Unlock()
	ctx2, cf := context.WithCancel(ctx)
	defer cf()
	go func() {
		select {
		case <-wake:
			cf()
		case <-ctx2.Done():
		}
	}()
	err := pi.Swarm.Receive(ctx2, fn)
	if err != nil && pi.closed.Load() {
		return p2p.ErrClosed
	}
	return err
}

type keswNode struct {
	inner *persistentInner
	sw    *p2pkeswarm.Swarm[memswarm.Addr]
	key   int
	got   chan string
	stop  context.CancelFunc
}

func keswOracle(r *rand.Rand, n int, tier string, infile string) (cases int, fails []string) {
	base := r.Int63n(1 << 40)
	for cases < n {
		k := cases
		cases++
		setRandom(uint64(base + int64(k)))
		if f := keswCase(rand.New(rand.NewSource(base + int64(k)))); f != "" && len(fails) < 10 {
			fails = append(fails, fmt.Sprintf("%s case=%d/%d", f, base, k))
		}
	}
	return cases, fails
}

func keswCase(r *rand.Rand) string {
	t0 := time.Now()
	nowMs := func() int64 { return time.Since(t0).Milliseconds() }
	var log []string
	note := func(f string, a ...any) { log = append(log, fmt.Sprintf("t=%d ", nowMs())+fmt.Sprintf(f, a...)) }
	fail := func(f string, a ...any) string {
		h := log
		if len(h) > 50 {
			h = h[len(h)-50:]
		}
		return fmt.Sprintf(f, a...) + " history=[" + strings.Join(h, "; ") + "]"
	}
	var lossPct atomic.Int64
	var lmu sync.Mutex
	lr := rand.New(rand.NewSource(r.Int63()))
	realm := memswarm.NewRealm(memswarm.WithQueueLen(64), memswarm.WithTellTransform(func(m *memswarm.Message) bool {
		lmu.Lock()
		defer lmu.Unlock()
		return int64(lr.Intn(100)) >= lossPct.Load()
	}))
	nodes := [2]*keswNode{}
	start := func(i int) {
		nd := nodes[i]
		nd.inner.closed.Store(false)
		nd.sw = p2pkeswarm.New[memswarm.Addr](nd.inner, keKeys[nd.key])
		ctx, cf := context.WithCancel(context.Background())
		nd.stop = cf
		sw := nd.sw
		go func() {
			for {
				if err := sw.Receive(ctx, func(m p2p.Message[p2pkeswarm.Addr[memswarm.Addr]]) {
					select {
					case nd.got <- fmt.Sprintf("%d|%s", m.Src.Addr.N, string(m.Payload)):
					default:
					}
				}); err != nil {
					return
				}
			}
		}()
	}
	for i := range nodes {
		nodes[i] = &keswNode{inner: &persistentInner{Swarm: realm.NewSwarm(), wake: make(chan struct{})}, key: i, got: make(chan string, 4096)}
		start(i)
	}
	addrOf := func(i int) p2pkeswarm.Addr[memswarm.Addr] { return nodes[i].sw.LocalAddrs()[0] }
	closeNode := func(i int) error {
		nodes[i].stop()
		done := make(chan error, 1)
		go func() { done <- nodes[i].sw.Close() }()
		select {
		case err := <-done:
			return err
		case <-time.After(5 * time.Second):
			return fmt.Errorf("Close still blocked after 5 s")
		}
	}
	defer func() {
		for i := range nodes {
			if !nodes[i].inner.closed.Load() {
				closeNode(i)
			}
		}
	}()
	tell := func(from int, payload string, timeout time.Duration) (error, int64) {
		ctx, cf := context.WithTimeout(context.Background(), timeout)
		defer cf()
		t1 := nowMs()
		err := nodes[from].sw.Tell(ctx, addrOf(from^1), p2p.IOVec{[]byte(payload)})
		return err, nowMs() - t1
	}
	arrived := func(at int, from int, payload string) bool {
		want := fmt.Sprintf("%d|%s", nodes[from].inner.Swarm.LocalAddrs()[0].N, payload)
		found := false
		for {
			select {
			case g := <-nodes[at].got:
				found = found || g == want
			default:
				return found
			}
		}
	}
	bo := int(p2pke.HandshakeBackoff / time.Millisecond)
	ka := int(p2pke.KeepAliveTimeout / time.Millisecond)
	bound := (ketAttempts + 4) * bo

	// adversarial phase: loss, short-lived Tells, restarts, time
	lossPct.Store(int64(hx.Pick(r, 30, 60, 90, 100)))
	for k := r.Intn(25); k > 0; k-- {
		switch x := r.Intn(10); {
		case x < 5:
			from := r.Intn(2)
			err, _ := tell(from, "prefix", time.Duration(hx.Pick(r, 1, 300, 1000, 3000))*time.Millisecond)
			note("n%d Tell -> %v", from, err)
		case x < 8:
			d := hx.Pick(r, 1, 100, 250, 1000, 5000, 16000, 60000, 121000, 181000)
			time.Sleep(time.Duration(d) * time.Millisecond)
			note("%d ms pass", d)
		case x < 9:
			lossPct.Store(int64(hx.Pick(r, 0, 30, 60, 100)))
			note("loss %d%%", lossPct.Load())
		default:
			i := r.Intn(2)
			if err := closeNode(i); err != nil {
				return fail("C12 closing node %d: %v", i, err)
			}
			start(i)
			note("n%d restarts (same transport address, fresh swarm)", i)
		}
	}
	for i := range nodes {
		arrived(i, i^1, "")
	}
	// reliable network
	lossPct.Store(0)
	sender := r.Intn(2)
	note("--- network reliable; n%d tells", sender)
	err, took := tell(sender, "pending", time.Duration(40*bound)*time.Millisecond)
	if err != nil {
		return fail("C07 with a reliable network a Tell on n%d fails after %d ms: %v", sender, took, err)
	}
	if took > int64(bound) {
		return fail("C07 with a reliable network a Tell on n%d completes only after %d ms (bound: %d handshake retransmission intervals = %d ms)", sender, took, ketAttempts+4, bound)
	}
	// both directions get a payload through (a side may still hold a session with a restarted peer)
	syncStart := nowMs()
	for round := 0; ; round++ {
		ok := [2]bool{}
		for _, from := range []int{0, 1} {
			p := fmt.Sprintf("s%d-%d", round, from)
			if err, _ := tell(from, p, time.Duration(bound)*time.Millisecond); err == nil {
				time.Sleep(time.Millisecond)
				ok[from] = arrived(from^1, from, p)
			}
		}
		if ok[0] && ok[1] {
			break
		}
		if nowMs()-syncStart > int64(ka+2*bound) {
			return fail("C07 reliable network, Tells both ways every %d ms: still not both delivered (%v) %d ms after the first Tell completed", bo/2, ok, nowMs()-syncStart)
		}
		time.Sleep(time.Duration(bo/2) * time.Millisecond)
	}
	note("--- in step after %d ms", nowMs()-syncStart)
	// steady traffic across a rekey and a reject-after
	for round := 0; round < 70; round++ {
		for _, from := range []int{0, 1} {
			p := fmt.Sprintf("r%d-%d", round, from)
			err, took := tell(from, p, time.Duration(bound)*time.Millisecond)
			if err != nil {
				return fail("C07 steady traffic: Tell on n%d in round %d fails after %d ms: %v", from, round, took, err)
			}
			if took > 0 {
				return fail("C07 steady traffic: Tell on n%d in round %d waited %d ms although both sides keep receiving", from, round, took)
			}
			time.Sleep(time.Millisecond)
			if !arrived(from^1, from, p) {
				return fail("C07 steady traffic: payload %s told by n%d in round %d was not delivered", p, from, round)
			}
		}
		time.Sleep(5 * time.Second)
	}
	// Close: afterwards nothing the swarm started may still act
	which := r.Intn(2)
	if r.Intn(2) == 0 { // leave a handshake half-way when closing
		lossPct.Store(100)
		nodes[which].inner.closed.Load()
		if err := closeNode(which ^ 1); err != nil {
			return fail("C12 closing node %d: %v", which^1, err)
		}
		start(which ^ 1)
		time.Sleep(16 * time.Second)
		tell(which, "into-the-void", time.Second)
		note("n%d has a handshake in progress that cannot complete", which)
	}
	if err := closeNode(which); err != nil {
		return fail("C12 closing node %d: %v", which, err)
	}
	time.Sleep(2 * time.Second) // grace: what was in progress may finish
	before := nodes[which].inner.lateTells.Load()
	time.Sleep(10 * time.Minute)
	if after := nodes[which].inner.lateTells.Load(); after > before {
		return fail("C12 p2pkeswarm: %d sends were attempted on the inner swarm between 2 s and 10 min after Close returned: timer callbacks of the node's channels are still running", after-before)
	}
	return ""
}
