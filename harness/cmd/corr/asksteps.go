package main

// asksteps oracle: the two paths that meet in the mbapp asker — Swarm.Ask (create the ask, wait for the reply, remove
// the ask) and the receive path (look the ask up and take it out of the table, then complete it) — run one step at a
// time in every interleaving (C(5,2) orders of "await with an expired context, remove, caller reuses its buffer"
// against "look up, complete"), against a real swarm's asker.
//
// C14 / C11: once Ask has returned because its context ended, the response buffer is the caller's again: a reply that
// was already looked up must not be copied into it any more. When the reply wins, Ask reports exactly that reply.

import (
	"bytes"
	"fmt"
	"math/rand"

	"go.brendoncarroll.net/p2p"
	"go.brendoncarroll.net/p2p/p/mbapp"
	"go.brendoncarroll.net/p2p/s/memswarm"
)

func init() { oracles["asksteps"] = askStepsOracle }

func askStepsOracle(r *rand.Rand, n int, tier string, infile string) (cases int, fails []string) {
	if oracleOffset > 0 {
		return 0, nil // the enumeration is exhaustive: once is enough
	}
	realm := memswarm.NewRealm(memswarm.WithQueueLen(4))
	inner := realm.NewSwarm()
	s := mbapp.New[memswarm.Addr, struct{}](p2p.ComposeSecureSwarm[memswarm.Addr, struct{}](inner, noSecure[memswarm.Addr]{}), 4096)
	defer s.Close()
	counter := uint32(1)
	// positions of the two reply-path steps among the five
	for i := 0; i < 5; i++ {
		for j := i + 1; j < 5; j++ {
			for _, bodyLen := range []int{0, 5, 16, 40} {
				cases++
				counter++
				resp := bytes.Repeat([]byte{0x11}, 16)
				body := bytes.Repeat([]byte{0xbb}, bodyLen)
				v := mbapp.VerifNewAsk[memswarm.Addr, struct{}](s, counter, "peer", resp)
				var order []string
				asker := []string{"await", "remove", "reuse"}
				reply := []string{"lookup", "complete"}
				var awaitErr error
				returned := false
				ai, ri := 0, 0
				for k := 0; k < 5; k++ {
					var step string
					if k == i || k == j {
						step = reply[ri]
						ri++
					} else {
						step = asker[ai]
						ai++
					}
					order = append(order, step)
					switch step {
					case "await":
						awaitErr = v.AwaitExpired()
					case "remove":
						v.Remove()
						returned = true
					case "reuse":
						if awaitErr != nil {
							// Ask returned an error: the caller uses its buffer for something else
							for x := range resp {
								resp[x] = 0xaa
							}
						}
					case "lookup":
						v.Lookup()
					case "complete":
						v.Complete(body, 0)
					}
				}
				_ = returned
				if awaitErr != nil {
					if !bytes.Equal(resp, bytes.Repeat([]byte{0xaa}, 16)) {
						if len(fails) < 10 {
							fails = append(fails, fmt.Sprintf("C14 mbapp asker, order %v: Ask had returned %q, yet a reply of %d bytes was copied into the caller's response buffer afterwards (%x)", order, awaitErr.Error(), bodyLen, resp))
						}
					}
				} else {
					nn, code, short := v.Result()
					want := min(bodyLen, 16)
					if nn != want || code != 0 || short != (bodyLen > 16) || !bytes.Equal(resp[:want], body[:want]) {
						if len(fails) < 10 {
							fails = append(fails, fmt.Sprintf("C11 mbapp asker, order %v: the reply of %d bytes completed the ask but it reports n=%d code=%d short=%v buf=%x", order, bodyLen, nn, code, short, resp))
						}
					}
				}
			}
		}
	}
	return cases, fails
}
