package main

import (
	"bytes"
	"context"
	"encoding/binary"
	"errors"
	"fmt"
	"math/rand"
	"os"
	"sort"
	"strconv"
	"strings"
	"sync"
	"time"

	"go.brendoncarroll.net/p2p"
	"go.brendoncarroll.net/p2p/p/mbapp"
	"go.brendoncarroll.net/p2p/s/fragswarm"
	"go.brendoncarroll.net/p2p/s/memswarm"
	"verifharness/internal/hx"
)

func init() {
	streams["frag"] = fragStream
	replayers["frag"] = func() replayFn { st := &fragState{}; return st.apply }
	oracles["frag"] = fragOracle
}

const nFragSenders = 3

type fragState struct {
	mu       sync.Mutex
	captured [][]byte
	cancel   context.CancelFunc
	ctx      context.Context
	addrs    []memswarm.Addr // senders..., receiver last
	got      chan string

	// fragswarm scenario
	ffail []*failSwarm
	fsend []p2p.Swarm[memswarm.Addr]
	frecv p2p.Swarm[memswarm.Addr]
	// mbapp scenario
	msend []*mbapp.Swarm[memswarm.Addr, int]
	mrecv *mbapp.Swarm[memswarm.Addr, int]
}

func (st *fragState) reset() {
	if st.cancel != nil {
		st.cancel()
		for _, s := range st.fsend {
			s.Close()
		}
		if st.frecv != nil {
			st.frecv.Close()
		}
		for _, s := range st.msend {
			s.Close()
		}
		if st.mrecv != nil {
			st.mrecv.Close()
		}
	}
	*st = fragState{}
	st.ctx, st.cancel = context.WithCancel(context.Background())
	st.got = make(chan string, 16)
}

// failSwarm: an inner transport whose Tell refuses the datagram that carries fragment number `fail` of a fragswarm
// message (a send buffer that is full for a moment, a route that flaps): the other fragments go through
type failSwarm struct {
	p2p.Swarm[memswarm.Addr]
	fail int
}

func (f *failSwarm) Tell(ctx context.Context, dst memswarm.Addr, v p2p.IOVec) error {
	if f.fail >= 0 {
		if _, part, _, _, err := fragswarm.VerifParseMessage(p2p.VecBytes(nil, v)); err == nil && int(part) == f.fail {
			return errors.New("inner transport refuses this datagram")
		}
	}
	return f.Swarm.Tell(ctx, dst, v)
}

func (st *fragState) capture(m *memswarm.Message) bool {
	st.mu.Lock()
	st.captured = append(st.captured, append([]byte{}, m.Payload...))
	st.mu.Unlock()
	return false
}

func (st *fragState) takeCaptured() string {
	st.mu.Lock()
	defer st.mu.Unlock()
	ps := st.captured
	st.captured = nil
	sort.Slice(ps, func(i, j int) bool { return bytes.Compare(ps[i], ps[j]) < 0 })
	ss := make([]string, len(ps))
	for i, p := range ps {
		ss[i] = hx.Hex(p)
	}
	return "pkts " + strings.Join(ss, ",")
}

func (st *fragState) drain() string {
	select {
	case g := <-st.got:
		return g
	default:
		return "none"
	}
}

func (st *fragState) apply(op []string, o *hx.Out) {
	line := strings.Join(op, " ")
	atoi := func(s string) int { n, _ := strconv.Atoi(s); return n }
	res := hx.Guard(func() string {
		switch op[0] {
		case "frag-new":
			st.reset()
			realm := memswarm.NewRealm(memswarm.WithMTU(atoi(op[1])), memswarm.WithTellTransform(st.capture))
			for i := 0; i <= nFragSenders; i++ {
				in := realm.NewSwarm()
				st.addrs = append(st.addrs, in.LocalAddr())
				fw := &failSwarm{Swarm: in, fail: -1}
				s := fragswarm.New[memswarm.Addr](fw, atoi(op[2]))
				if i < nFragSenders {
					st.ffail = append(st.ffail, fw)
					st.fsend = append(st.fsend, s)
				} else {
					st.frecv = s
				}
			}
			go func(ctx context.Context, s p2p.Swarm[memswarm.Addr], got chan string) {
				for {
					if err := s.Receive(ctx, func(m p2p.Message[memswarm.Addr]) { got <- "deliver " + hx.Hex(m.Payload) }); err != nil {
						return
					}
				}
			}(st.ctx, st.frecv, st.got)
			return fmt.Sprintf("mtu=%d", st.frecv.MTU())
		case "frag-tell":
			err := st.fsend[atoi(op[1])].Tell(st.ctx, st.addrs[nFragSenders], p2p.IOVec{hx.UnHex(op[2])})
			if err != nil {
				st.takeCaptured()
				if p2p.IsErrMTUExceeded(err) {
					return "err-mtu"
				}
				return "err-other"
			}
			return st.takeCaptured()
		case "frag-tellfail":
			// the inner transport refuses fragment number op[3] of this message; the others are sent
			st.ffail[atoi(op[1])].fail = atoi(op[3])
			err := st.fsend[atoi(op[1])].Tell(st.ctx, st.addrs[nFragSenders], p2p.IOVec{hx.UnHex(op[2])})
			st.ffail[atoi(op[1])].fail = -1
			if err != nil && p2p.IsErrMTUExceeded(err) {
				st.takeCaptured()
				return "err-mtu"
			}
			if err != nil {
				return "err " + st.takeCaptured()
			}
			return st.takeCaptured()
		case "frag-recv":
			ctx, cf := context.WithTimeout(st.ctx, 2*time.Second)
			defer cf()
			fragswarm.VerifHandleTell(ctx, st.frecv, p2p.Message[memswarm.Addr]{
				Src: st.addrs[atoi(op[1])], Dst: st.addrs[nFragSenders], Payload: hx.Lend(hx.UnHex(op[2]))})
			res := st.drain()
			hx.Reclaim() // the inner swarm's buffer is reused once its callback has returned
			return res
		case "frag-recv-at":
			// oracle only: the datagram arrives from the node at in-memory address <N>, whichever that is
			ctx, cf := context.WithTimeout(st.ctx, 2*time.Second)
			defer cf()
			fragswarm.VerifHandleTell(ctx, st.frecv, p2p.Message[memswarm.Addr]{
				Src: memswarm.Addr{N: atoi(op[1])}, Dst: st.addrs[nFragSenders], Payload: hx.Lend(hx.UnHex(op[2]))})
			res := st.drain()
			hx.Reclaim()
			return res
		case "frag-naggs":
			return strconv.Itoa(fragswarm.VerifNumAggregators(st.frecv))
		case "mb-new":
			st.reset()
			realm := memswarm.NewSecureRealm[int](memswarm.WithMTU(atoi(op[1])), memswarm.WithTellTransform(st.capture))
			for i := 0; i <= nFragSenders; i++ {
				in := realm.NewSwarm(i)
				st.addrs = append(st.addrs, in.LocalAddr())
				s := mbapp.New[memswarm.Addr, int](in, atoi(op[2]))
				if i < nFragSenders {
					st.msend = append(st.msend, s)
				} else {
					st.mrecv = s
				}
			}
			go func(ctx context.Context, s *mbapp.Swarm[memswarm.Addr, int], got chan string) {
				for {
					if err := s.Receive(ctx, func(m p2p.Message[memswarm.Addr]) { got <- "tell " + hx.Hex(m.Payload) }); err != nil {
						return
					}
				}
			}(st.ctx, st.mrecv, st.got)
			go func(ctx context.Context, s *mbapp.Swarm[memswarm.Addr, int], got chan string) {
				for {
					if err := s.ServeAsk(ctx, func(ctx context.Context, resp []byte, m p2p.Message[memswarm.Addr]) int {
						got <- "ask " + hx.Hex(m.Payload)
						return 0
					}); err != nil {
						return
					}
				}
			}(st.ctx, st.mrecv, st.got)
			// the collector clean-up loop makes its first pass as soon as it starts; let it finish so that it
			// cannot race with the scenario (the model allows clean-up at any time, the comparison does not)
			time.Sleep(3 * time.Millisecond)
			return fmt.Sprintf("mtu=%d", st.mrecv.MTU())
		case "mb-tell":
			err := st.msend[atoi(op[1])].Tell(st.ctx, st.addrs[nFragSenders], p2p.IOVec{hx.UnHex(op[2])})
			if err != nil {
				st.takeCaptured()
				if p2p.IsErrMTUExceeded(err) {
					return "err-mtu"
				}
				return "err-other"
			}
			return st.takeCaptured()
		case "mb-recv":
			ctx, cf := context.WithTimeout(st.ctx, 300*time.Millisecond)
			defer cf()
			mbapp.VerifHandleMessage(ctx, st.mrecv, st.addrs[atoi(op[1])], st.addrs[nFragSenders], hx.Lend(hx.UnHex(op[2])))
			st.takeCaptured() // replies to ask requests
			res := st.drain()
			hx.Reclaim()
			return res
		case "mb-ncols":
			return strconv.Itoa(mbapp.VerifNumCollectors(st.mrecv))
		case "mb-errcode":
			n, _ := strconv.ParseInt(op[1], 10, 64)
			code, l := mbapp.VerifExtractErrorCode(int(n))
			return fmt.Sprintf("%d %d", code, l)
		}
		return "bad-op"
	})
	o.Emit(op[0], op[0] != "frag-new" && op[0] != "mb-new", line, res)
}

type fragPkt struct {
	src int
	pkt []byte
	msg int // index of the told message, -1 for forged
}

func fragSizes(r *rand.Rand, part, mtu int) int {
	if part < 1 {
		part = 1
	}
	if mtu < 0 {
		mtu = 0
	}
	c := []int{0, 1, part - 1, part, part + 1, 2 * part, 2*part + 1, 3 * part, mtu - 1, mtu, mtu + 1, r.Intn(4*part + 2), r.Intn(mtu + 2),
		// part counts at and around the byte boundaries of a completion bitmap
		7*part + 1, 8 * part, 8*part + 1, 16 * part, 16*part + 1, 24 * part, 9 * part, 15 * part}
	n := c[r.Intn(len(c))]
	if n < 0 {
		n = 0
	}
	if n > 70000 {
		n = 70000
	}
	return n
}

func mutateFragPkt(r *rand.Rand, p []byte) []byte {
	id, part, total, data, err := fragswarm.VerifParseMessage(p)
	if err != nil || r.Intn(5) == 0 {
		q := append([]byte{}, p...)
		switch r.Intn(3) {
		case 0:
			return hx.Bytes(r, r.Intn(12))
		case 1:
			if len(q) > 0 {
				return q[:r.Intn(len(q))]
			}
		}
		if len(q) > 0 {
			q[r.Intn(min(len(q), 6))] ^= byte(1 << uint(r.Intn(8)))
		}
		return q
	}
	f := [3]uint64{uint64(id), uint64(part), uint64(total)}
	switch r.Intn(6) {
	case 0:
		f[1] = uint64(hx.Pick(r, 0, 1, int(total)-1, int(total), int(total)+1, 5, 254, 255, 256, 261))
	case 1:
		f[2] = uint64(hx.Pick(r, 0, 1, 2, int(total)+1, int(total)+7, 9, 255, 256, 258))
	case 2:
		f[1], f[2] = uint64(r.Intn(12)), uint64(r.Intn(12))
	case 3:
		f[0] = hx.EdgeU64(r)
	case 4:
		f[r.Intn(3)] = hx.EdgeU64(r)
	case 5:
		data = hx.Bytes(r, r.Intn(6))
	}
	var out []byte
	for _, v := range f {
		out = binary.AppendUvarint(out, v)
	}
	return append(out, data...)
}

func mutateMbPkt(r *rand.Rand, p []byte) []byte {
	q := append([]byte{}, p...)
	if len(q) < 24 || r.Intn(8) == 0 {
		if r.Intn(2) == 0 {
			return hx.Bytes(r, r.Intn(30))
		}
		return q[:r.Intn(len(q)+1)]
	}
	set32 := func(w int, v uint32) { binary.BigEndian.PutUint32(q[4*w:], v) }
	get32 := func(w int) uint32 { return binary.BigEndian.Uint32(q[4*w:]) }
	pc := get32(4) & 0xffff
	pi := get32(4) >> 16
	switch r.Intn(7) {
	case 0: // part index
		set32(4, uint32(hx.Pick(r, 0, 1, int(pc)-1, int(pc), int(pc)+1, 65535))<<16|pc)
	case 1: // part count
		set32(4, pi<<16|uint32(hx.Pick(r, 0, 1, 2, int(pc)+1, 3, 65535)))
	case 2: // total size
		set32(3, uint32(hx.Pick(r, 0, 1, len(q)-24, len(q)-25, int(get32(3))+1, int(get32(3))-1, 1<<31, 1<<32-1, 100000)))
	case 3: // body length
		q = append(q[:24], hx.Bytes(r, r.Intn(8))...)
	case 4: // mode bits / error code
		set32(0, get32(0)^uint32(hx.Pick(r, 1<<31, 1<<30, 1<<29, 0xff, 1)))
	case 5: // group id
		set32(1+r.Intn(2), get32(2)+uint32(r.Intn(3)))
	case 6:
		q[r.Intn(len(q))] ^= byte(1 << uint(r.Intn(8)))
	}
	return q
}

// fragScenario emits one scenario (kind "frag" or "mb"); honest=true keeps the schedule to
// reorder/duplicate/drop of genuine fragments.
func fragScenario(r *rand.Rand, kind string, honest bool, exec func(op string) string) (told [][]byte, toldSrc []int, sched []fragPkt, delivered []string) {
	over := 15
	if kind == "mb" {
		over = 24
	}
	inner := hx.Pick(r, over-1, over, over+1, over+2, over+5, 32, 40, 64, 100, 300, 1200)
	cfg := hx.Pick(r, 10, 100, 1000, 5000, 30000, 100000)
	mtuS := exec(fmt.Sprintf("%s-new %d %d", kind, inner, cfg))
	if kind == "mb" { // what a handler's return value becomes on the wire
		exec(fmt.Sprintf("mb-errcode %d", hx.Pick(r, 0, 1, 5, 255, 256, 70000, -1, -2, -255, -256, -257, -512, -65536, -1<<31, -1<<40, -r.Intn(1<<20)-1)))
	}
	mtu, _ := strconv.Atoi(strings.TrimPrefix(mtuS, "mtu="))
	var pool []fragPkt
	nmsg := 1 + r.Intn(5)
	for i := 0; i < nmsg; i++ {
		src := r.Intn(nFragSenders)
		size := fragSizes(r, inner-over, mtu)
		payload := hx.Bytes(r, size)
		var res string
		if kind == "frag" && r.Intn(5) == 0 {
			res = exec(fmt.Sprintf("frag-tellfail %d %s %d", src, hx.Hex(payload), hx.Pick(r, 0, 0, 1, 2, 7)))
			res = strings.TrimPrefix(res, "err ")
			if strings.HasPrefix(res, "pkts ") && r.Intn(2) == 0 {
				// the sender tries again with a message of the same shape (same number of fragments) right away: its
				// fragments must not complete what is left of the failed one
				told = append(told, payload)
				toldSrc = append(toldSrc, src)
				for _, p := range strings.Split(strings.TrimPrefix(res, "pkts "), ",") {
					if p != "" {
						pool = append(pool, fragPkt{src, hx.UnHex(p), len(told) - 1})
					}
				}
				payload = hx.Bytes(r, size)
				res = exec(fmt.Sprintf("frag-tell %d %s", src, hx.Hex(payload)))
			}
		} else {
			res = exec(fmt.Sprintf("%s-tell %d %s", kind, src, hx.Hex(payload)))
		}
		if strings.HasPrefix(res, "pkts ") {
			told = append(told, payload)
			toldSrc = append(toldSrc, src)
			for _, p := range strings.Split(strings.TrimPrefix(res, "pkts "), ",") {
				if p != "" {
					pool = append(pool, fragPkt{src, hx.UnHex(p), len(told) - 1})
				}
			}
		}
	}
	// schedule
	r.Shuffle(len(pool), func(i, j int) { pool[i], pool[j] = pool[j], pool[i] })
	if r.Intn(3) == 0 { // mostly in order
		sort.SliceStable(pool, func(i, j int) bool { return pool[i].msg < pool[j].msg })
	}
	for _, p := range pool {
		switch x := r.Intn(20); {
		case x == 0: // drop
		case x == 1: // duplicate
			sched = append(sched, p, p)
		case x == 2 && !honest:
			q := p
			if kind == "mb" {
				q.pkt = mutateMbPkt(r, p.pkt)
			} else {
				q.pkt = mutateFragPkt(r, p.pkt)
			}
			q.msg = -1
			sched = append(sched, q, p)
		case x == 3 && !honest: // same packet attributed to another source
			q := p
			q.src = (p.src + 1) % nFragSenders
			q.msg = -1
			sched = append(sched, q, p)
		default:
			sched = append(sched, p)
		}
	}
	if !honest { // packets forged from scratch, small fields so that they collide with each other
		for k := r.Intn(8); k > 0; k-- {
			var pkt []byte
			if kind == "mb" {
				pkt = make([]byte, 24)
				pc := uint32(hx.Pick(r, 0, 1, 2, 2, 3, 3, 4))
				binary.BigEndian.PutUint32(pkt[4:], uint32(r.Intn(2)))
				binary.BigEndian.PutUint32(pkt[8:], uint32(r.Intn(2)))
				binary.BigEndian.PutUint32(pkt[12:], uint32(hx.Pick(r, 0, 0, 1, 2, 3, 5, 9, 1000)))
				binary.BigEndian.PutUint32(pkt[16:], uint32(r.Intn(5))<<16|pc)
				pkt = append(pkt, hx.Bytes(r, r.Intn(5))...)
			} else {
				pkt = binary.AppendUvarint(pkt, uint64(r.Intn(2)))
				pkt = binary.AppendUvarint(pkt, uint64(r.Intn(6)))
				pkt = binary.AppendUvarint(pkt, uint64(hx.Pick(r, 0, 1, 2, 2, 3, 5, 9)))
				pkt = append(pkt, hx.Bytes(r, r.Intn(4))...)
			}
			i := r.Intn(len(sched) + 1)
			sched = append(sched[:i], append([]fragPkt{{r.Intn(2), pkt, -1}}, sched[i:]...)...)
		}
	}
	if len(sched) > 400 {
		sched = sched[:400]
	}
	for i, p := range sched {
		res := exec(fmt.Sprintf("%s-recv %d %s", kind, p.src, hx.Hex(p.pkt)))
		delivered = append(delivered, res)
		if i%16 == 15 {
			if kind == "mb" {
				exec("mb-ncols")
			} else {
				exec("frag-naggs")
			}
		}
	}
	return
}

func fragStream(r *rand.Rand, n int, tier string, o *hx.Out) {
	st := &fragState{}
	total := 0
	for total < n {
		kind := hx.Pick(r, "frag", "mb")
		fragScenario(r, kind, r.Intn(3) == 0, func(op string) string {
			st.apply(strings.Fields(op), o)
			total++
			return o.Last()
		})
	}
	st.reset()
}

// fragOracle: C10/C09 stated on the implementation with a ledger: under reordering, duplication and loss of
// genuine fragments every delivered payload is one of the payloads told by the source it is attributed to,
// a message none of whose ... fragments was withheld is delivered, a message with a withheld fragment never is;
// a payload no longer than MTU() is accepted and one longer is refused with the MTU error; nothing panics.
var limitDone = map[string]bool{}
var prefixAddrDone bool

func fragOracle(r *rand.Rand, n int, tier string, infile string) (cases int, fails []string) {
	o := hx.NewOut("/dev/null", 0)
	defer o.Close("")
	st := &fragState{}
	defer st.reset()
	for cases < n || oracleOffset == 0 && !(limitDone["frag"] && limitDone["mb"] && prefixAddrDone) {
		kind := hx.Pick(r, "frag", "mb")
		if oracleOffset == 0 {
			// the limit case of both layers runs first, whatever the number of cases asked for (one of them is tens of
			// thousands of operations and used to exhaust the first slice before the other got its turn)
			for _, k := range []string{"frag", "mb"} {
				if !limitDone[k] {
					kind = k
					break
				}
			}
		}
		var hist []string
		var mtu int
		var lastTellSize int
		bad := func(f string, a ...any) {
			if len(fails) < 30 {
				h := hist
				if len(h) > 30 {
					h = h[len(h)-30:]
				}
				for i := range h {
					if len(h[i]) > 120 {
						h[i] = h[i][:120] + "…"
					}
				}
				fails = append(fails, fmt.Sprintf(f, a...)+" history=["+strings.Join(h, "; ")+"]")
			}
		}
		if oracleOffset == 0 && !limitDone[kind] {
			// the largest message the layer advertises at the smallest part size (one payload byte per datagram): exactly
			// MTU() bytes, i.e. as many parts as the part-count field can express, loss-free and in order: it arrives once,
			// intact (C09), and nothing else is delivered (C10)
			limitDone[kind] = true
			over := 15
			if kind == "mb" {
				over = 24
			}
			run := func(op string) string {
				cases++
				if len(hist) < 3 {
					hist = append(hist, op)
				}
				st.apply(strings.Fields(op), o)
				return o.Last()
			}
			res := run(fmt.Sprintf("%s-new %d %d", kind, over+1, 1<<20))
			lim, _ := strconv.Atoi(strings.TrimPrefix(res, "mtu="))
			if lim > 0 && lim <= 1<<17 {
				payload := hx.Bytes(r, lim)
				res = run(fmt.Sprintf("%s-tell 0 %s", kind, hx.Hex(payload)))
				if !strings.HasPrefix(res, "pkts ") {
					bad("C09 %s payload of exactly MTU()=%d bytes at one byte per part is not sent: %s", kind, lim, res[:min(len(res), 80)])
				} else {
					got, wrong := 0, 0
					for _, p := range strings.Split(strings.TrimPrefix(res, "pkts "), ",") {
						if p == "" {
							continue
						}
						d := run(fmt.Sprintf("%s-recv 0 %s", kind, p))
						if d == "none" {
							continue
						}
						got++
						if x := strings.TrimPrefix(strings.TrimPrefix(d, "deliver "), "tell "); x != hx.Hex(payload) {
							wrong++
						}
					}
					if got == 0 {
						bad("C09 %s payload of exactly MTU()=%d bytes at one byte per part is accepted, every fragment is handed over once and in order, and nothing is delivered", kind, lim)
					} else if got != 1 || wrong != 0 {
						bad("%s payload of exactly MTU()=%d bytes at one byte per part, every fragment handed over once and in order: %d deliveries, %d of them not the told payload", kind, lim, got, wrong)
					}
				}
			}
			continue
		}
		if oracleOffset == 0 && !prefixAddrDone {
			// partial messages are kept per (source, message id). Two sources whose address texts run together with their
			// ids to the same string — the node at address N with id 23, the node at address N*10+2 with id 3 — are
			// different sources: one fragment of each, at complementary positions, completes nothing.
			prefixAddrDone = true
			run := func(op string) string {
				cases++
				if len(op) < 60 {
					hist = append(hist, op)
				}
				st.apply(strings.Fields(op), o)
				return o.Last()
			}
			run("frag-new 40 3000")
			n1 := st.addrs[1].N
			twoParts := func(sender, before int, c0, c1 byte) (p0, p1 string) {
				for i := 0; i < before; i++ {
					run(fmt.Sprintf("frag-tell %d x00", sender))
				}
				msg := append(bytes.Repeat([]byte{c0}, 25), bytes.Repeat([]byte{c1}, 15)...)
				for _, p := range strings.Split(strings.TrimPrefix(run(fmt.Sprintf("frag-tell %d %s", sender, hx.Hex(msg))), "pkts "), ",") {
					if strings.HasSuffix(p, hx.Hex([]byte{c0})[1:]) {
						p0 = p
					} else if strings.HasSuffix(p, hx.Hex([]byte{c1})[1:]) {
						p1 = p
					}
				}
				return
			}
			x0, _ := twoParts(1, 23, 'A', 'B')
			_, y1 := twoParts(2, 3, 'c', 'd')
			if n1 >= 1 && x0 != "" && y1 != "" {
				d1 := run(fmt.Sprintf("frag-recv-at %d %s", n1, x0))
				d2 := run(fmt.Sprintf("frag-recv-at %d %s", n1*10+2, y1))
				if d1 != "none" || d2 != "none" {
					bad("C10 frag: part 0 of message 23 from the node at address %d and part 1 of message 3 from the node at address %d were combined: %s %s", n1, n1*10+2, d1, d2)
				}
			}
			continue
		}
		if r.Intn(6) == 0 { // loss-free, in-order transfer of a payload that needs many parts: it must arrive once, intact
			over := 15
			counts := []int{1, 2, 127, 128, 129, 200, 254, 255}
			if kind == "mb" {
				over = 24
				counts = []int{1, 2, 255, 256, 257, 700}
			}
			part := hx.Pick(r, 1, 2, 5, 16)
			nparts := counts[r.Intn(len(counts))]
			size := nparts*part - r.Intn(part)
			run := func(op string) string {
				cases++
				hist = append(hist, op)
				st.apply(strings.Fields(op), o)
				return o.Last()
			}
			run(fmt.Sprintf("%s-new %d %d", kind, over+part, 100000))
			payload := hx.Bytes(r, size)
			if r.Intn(3) == 0 {
				for i := range payload {
					payload[i] = byte(hx.Pick(r, 0x01, 0x80, 0xff))
				}
			}
			res := run(fmt.Sprintf("%s-tell 0 %s", kind, hx.Hex(payload)))
			if !strings.HasPrefix(res, "pkts ") {
				bad("%s payload of %d bytes (%d parts) not sent: %s", kind, size, nparts, res)
				continue
			}
			got := 0
			for _, p := range strings.Split(strings.TrimPrefix(res, "pkts "), ",") {
				if p == "" {
					continue
				}
				d := run(fmt.Sprintf("%s-recv 0 %s", kind, p))
				if d == "none" {
					continue
				}
				got++
				if x := strings.TrimPrefix(strings.TrimPrefix(d, "deliver "), "tell "); x != hx.Hex(payload) {
					bad("C09 %s payload of %d bytes in %d parts arrives altered: %d bytes delivered", kind, size, nparts, len(x)/2)
				}
			}
			if got != 1 {
				bad("C09 %s payload of %d bytes in %d parts, every fragment handed over once and in order, is delivered %d times", kind, size, nparts, got)
			}
			continue
		}
		// restart mode: the three senders are successive incarnations of ONE source (a node that restarted: its message
		// ids start again), so different messages share source and id
		// Exploration only (FRAG_RESTART=1), not part of the registered oracle: C10 quantifies over the genuine fragments
		// of concurrent messages, whose (source, id) pairs differ. A fragswarm sender that restarts re-uses ids 0, 1, …
		// (there is no incarnation number), and with a partial message of the old incarnation still held (clean-up
		// runs once a minute) the receiver does combine fragments of the two: see DESIGN.md section 6.
		restart := kind == "frag" && os.Getenv("FRAG_RESTART") != "" && r.Intn(4) == 0
		told, toldSrc, sched, delivered := fragScenario(r, kind, true, func(op string) string {
			cases++
			f := strings.Fields(op)
			if restart && strings.HasSuffix(f[0], "-recv") {
				f[1] = "0"
				op = strings.Join(f, " ")
			}
			hist = append(hist, op)
			st.apply(f, o)
			res := o.Last()
			if res == "fault" {
				bad("%s panics (%s)", f[0], hx.LastPanic)
			}
			if strings.HasSuffix(f[0], "-new") {
				mtu, _ = strconv.Atoi(strings.TrimPrefix(res, "mtu="))
			}
			if strings.HasSuffix(f[0], "-tell") {
				lastTellSize = len(hx.UnHex(f[2]))
				if lastTellSize <= mtu && res == "err-mtu" {
					bad("payload of %d bytes refused although MTU()=%d", lastTellSize, mtu)
				}
				if lastTellSize > mtu && res != "err-mtu" {
					bad("payload of %d bytes not refused with the MTU error although MTU()=%d: %s", lastTellSize, mtu, res[:min(len(res), 40)])
				}
			}
			return res
		})
		// ledger
		injected := map[int]map[string]bool{}
		for i, p := range sched {
			if injected[p.msg] == nil {
				injected[p.msg] = map[string]bool{}
			}
			injected[p.msg][string(p.pkt)] = true
			d := delivered[i]
			if d == "none" {
				continue
			}
			payload := strings.TrimPrefix(strings.TrimPrefix(d, "deliver "), "tell ")
			ok := false
			for j := range told {
				if (restart || toldSrc[j] == p.src) && hx.Hex(told[j]) == payload {
					ok = true
				}
			}
			if !ok {
				bad("%s delivered %s… attributed to source %d, which never told it", kind, payload[:min(len(payload), 24)], p.src)
			}
		}
		_ = lastTellSize
	}
	return cases, fails
}
