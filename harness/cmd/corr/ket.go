//go:build go1.25

package main

// ket: p2pke channels with their REAL timers, run under the fake clock of testing/synctest. Every timer-driven
// path (retransmission, rekey, keep-alive and reject-after expiry) runs deterministically, so the timed model
// (Model/KeTimed.lean) is compared with the implementation event for event, and the C07 oracle can try
// adversarial prefixes with arbitrary timing in microseconds of wall time.

import (
	"context"
	"fmt"
	"math/rand"
	"os"
	"sort"
	"strconv"
	"strings"
	"sync"
	"time"

	"go.brendoncarroll.net/p2p"
	"go.brendoncarroll.net/p2p/f/x509"
	"go.brendoncarroll.net/p2p/p/p2pke"
	"go.uber.org/zap"
	"golang.org/x/crypto/blake2b"
	"verifharness/internal/hx"
)

func init() {
	streams["ket"] = ketStream
	replayers["ket"] = func() replayFn { st := newKtState(); return st.apply }
	oracles["ket"] = ketOracle
}

type ktEvent struct {
	t        int64
	cid, seq int
	msg      []byte
}

type ktState struct {
	pends map[int][]context.CancelFunc
	ke    *keState
	t0    time.Time
	chans map[int]*p2pke.Channel
	mu    sync.Mutex
	ev    []ktEvent
	seq   int
}

func newKtState() *ktState {
	return &ktState{ke: newKeState(), t0: time.Now(), chans: map[int]*p2pke.Channel{}, pends: map[int][]context.CancelFunc{}}
}

func (st *ktState) nowMs() int64 { return time.Since(st.t0).Milliseconds() }

func ms(n int) time.Duration { return time.Duration(n) * time.Millisecond }

func (st *ktState) newChan(cid, key int, acc string, ka, bo, ra, rj int) *p2pke.Channel {
	return p2pke.NewChannel(p2pke.ChannelConfig{
		Registry: x509.DefaultRegistry(), PrivateKey: keKeys[key], Logger: zap.NewNop(),
		Send: func(b []byte) {
			st.mu.Lock()
			st.ev = append(st.ev, ktEvent{st.nowMs(), cid, st.seq, append([]byte{}, b...)})
			st.seq++
			st.mu.Unlock()
		},
		AcceptKey: func(k *x509.PublicKey) bool {
			switch {
			case acc == "all":
				return true
			case acc == "none":
				return false
			}
			return keyIndex(*k) == strings.TrimPrefix(acc, "only:")
		},
		KeepAliveTimeout: ms(ka), HandshakeBackoff: ms(bo), RekeyAfterTime: ms(ra), RejectAfterTime: ms(rj),
	})
}

// takeEvents returns what the channels emitted since the last call, in (time, channel, emission) order.
func (st *ktState) takeEvents() []ktEvent {
	st.mu.Lock()
	ev := st.ev
	st.ev = nil
	st.mu.Unlock()
	sort.SliceStable(ev, func(i, j int) bool {
		if ev[i].t != ev[j].t {
			return ev[i].t < ev[j].t
		}
		if ev[i].cid != ev[j].cid {
			return ev[i].cid < ev[j].cid
		}
		return ev[i].seq < ev[j].seq
	})
	return ev
}

func (st *ktState) tail() string {
	evs := st.takeEvents()
	es := "-"
	if len(evs) > 0 {
		ss := make([]string, len(evs))
		for i, e := range evs {
			ss[i] = fmt.Sprintf("%d:%d:%d", e.t, e.cid, st.ke.intern(e.msg))
		}
		es = strings.Join(ss, ",")
	}
	ids := []int{}
	for id := range st.chans {
		ids = append(ids, id)
	}
	sort.Ints(ids)
	obs := []string{}
	b := func(x bool) int {
		if x {
			return 1
		}
		return 0
	}
	for _, id := range ids {
		rk, hk := st.chans[id].VerifTimersPending()
		obs = append(obs, fmt.Sprintf("%d[%s rk=%d hk=%d w=%d]", id, chanObs(st.chans[id]), b(rk), b(hk), st.chans[id].VerifWaiting()))
	}
	return fmt.Sprintf("now=%d ev=%s %s", st.nowMs(), es, strings.Join(obs, " "))
}

func (st *ktState) apply(op []string, o *hx.Out) {
	line := strings.Join(op, " ")
	atoi := func(s string) int { n, _ := strconv.Atoi(s); return n }
	res := hx.Guard(func() string {
		switch op[0] {
		case "t-reset":
			for _, cs := range st.pends {
				for _, cf := range cs {
					cf()
				}
			}
			bubbleWait()
			for _, c := range st.chans {
				c.Close()
			}
			bubbleWait()
			*st = *newKtState()
			return "ok"
		case "t-new":
			cid := atoi(op[1])
			if old := st.chans[cid]; old != nil {
				for _, cf := range st.pends[cid] {
					cf()
				}
				st.pends[cid] = nil
				bubbleWait()
				old.Close()
				bubbleWait()
			}
			st.chans[cid] = st.newChan(cid, atoi(op[2]), op[3], atoi(op[4]), atoi(op[5]), atoi(op[6]), atoi(op[7]))
			return "ok " + st.tail()
		case "t-send":
			ctx, cf := context.WithCancel(context.Background())
			cf()
			err := st.chans[atoi(op[1])].Send(ctx, p2p.IOVec{hx.UnHex(op[2])})
			bubbleWait()
			r := "ok"
			if err == context.Canceled {
				r = "blocked"
			} else if err != nil {
				r = "err"
			}
			return r + " " + st.tail()
		case "t-deliver":
			out, err := st.chans[atoi(op[1])].Deliver(nil, hx.Lend(st.ke.msgs[atoi(op[2])]))
			if out != nil {
				out = append([]byte{}, out...)
			}
			hx.Reclaim()
			bubbleWait()
			app := "-"
			if err != nil {
				app = "err"
			} else if out != nil {
				app = hx.Hex(out)
			}
			return "app=" + app + " " + st.tail()
		case "t-pend": // a caller blocks until there is a session (or its context is cancelled by t-unpend)
			cid := atoi(op[1])
			ctx, cf := context.WithCancel(context.Background())
			st.pends[cid] = append(st.pends[cid], cf)
			c := st.chans[cid]
			go c.WaitReady(ctx)
			bubbleWait()
			return "ok " + st.tail()
		case "t-unpend":
			cid := atoi(op[1])
			if n := len(st.pends[cid]); n > 0 {
				st.pends[cid][n-1]()
				st.pends[cid] = st.pends[cid][:n-1]
			}
			bubbleWait()
			return "ok " + st.tail()
		case "t-advance":
			time.Sleep(ms(atoi(op[1])))
			bubbleWait()
			return "ok " + st.tail()
		}
		return "bad-op"
	})
	o.Emit(op[0], op[0] != "t-reset", line, res)
	for len(st.ke.pendingHash) > 0 {
		i := st.ke.pendingHash[0]
		st.ke.pendingHash = st.ke.pendingHash[1:]
		h := blake2b.Sum256(st.ke.msgs[i])
		o.Emit("x-hash", false, fmt.Sprintf("x-hash %d %s", i, hx.Hex(h[:])), "ok")
	}
}

type ktFlight struct{ dst, idx int }

// parseEvents extracts the emissions named in a result: message idx from channel cid travels to the other one.
func parseEvents(res string) (fl []ktFlight) {
	for _, tok := range strings.Fields(res) {
		if strings.HasPrefix(tok, "ev=") && tok != "ev=-" {
			for _, e := range strings.Split(strings.TrimPrefix(tok, "ev="), ",") {
				p := strings.Split(e, ":")
				if len(p) == 3 {
					cid, _ := strconv.Atoi(p[1])
					idx, _ := strconv.Atoi(p[2])
					fl = append(fl, ktFlight{cid ^ 1, idx})
				}
			}
		}
	}
	return fl
}

type ktParams struct{ ka, bo, ra, rj int }

func ktPickParams(r *rand.Rand) ktParams {
	return ktParams{
		ka: hx.Pick(r, 300, 1000, 5000, 1000000),
		bo: hx.Pick(r, 50, 100, 250),
		ra: hx.Pick(r, 700, 2003, 100000),
		rj: hx.Pick(r, 1500, 4000, 100000),
	}
}

// ketScenario: two channels (0 and 1), an adversarial network and clock.
func ketScenario(r *rand.Rand, exec func(op string) string) {
	exec("t-reset")
	pa := ktPickParams(r)
	acc := func(peer int) string {
		if r.Intn(12) == 0 {
			return hx.Pick(r, "none", "only:3", "only:"+strconv.Itoa(peer))
		}
		return "all"
	}
	newChan := func(cid int) {
		p := pa
		if r.Intn(4) == 0 {
			p = ktPickParams(r)
		}
		exec(fmt.Sprintf("t-new %d %d %s %d %d %d %d", cid, cid, acc(cid^1), p.ka, p.bo, p.ra, p.rj))
	}
	newChan(0)
	newChan(1)
	var pool []ktFlight
	do := func(op string) {
		for _, f := range parseEvents(exec(op)) {
			dup := false
			for _, g := range pool {
				dup = dup || g == f
			}
			if !dup {
				pool = append(pool, f)
			}
		}
		if len(pool) > 40 {
			pool = pool[len(pool)-40:]
		}
	}
	steps := 20 + r.Intn(60)
	for k := 0; k < steps; k++ {
		switch x := r.Intn(100); {
		case x < 4:
			do(fmt.Sprintf("t-pend %d", r.Intn(2)))
		case x < 6:
			do(fmt.Sprintf("t-unpend %d", r.Intn(2)))
		case x < 18:
			do(fmt.Sprintf("t-send %d %s", r.Intn(2), hx.Hex(hx.Bytes(r, r.Intn(4)))))
		case x < 55 && len(pool) > 0:
			i := r.Intn(len(pool))
			if r.Intn(3) > 0 {
				i = 0 // mostly in order
			}
			f := pool[i]
			switch y := r.Intn(10); {
			case y == 0: // lost
				pool = append(pool[:i], pool[i+1:]...)
			case y == 1: // duplicated: stays in flight
				do(fmt.Sprintf("t-deliver %d %d", f.dst, f.idx))
			default:
				pool = append(pool[:i], pool[i+1:]...)
				do(fmt.Sprintf("t-deliver %d %d", f.dst, f.idx))
			}
		case x < 65: // a reliable burst: everything in flight is delivered, and the answers too
			for round := 0; round < 4 && len(pool) > 0; round++ {
				cur := pool
				pool = nil
				for _, f := range cur {
					do(fmt.Sprintf("t-deliver %d %d", f.dst, f.idx))
				}
			}
		case x < 97:
			d := hx.Pick(r, 0, 1, 7, 49, 50, 51, 100, 250, 300, 301, 700, 1000, 1001, 1500, 2003, 4001, 5001, pa.bo, pa.ka+1, pa.ra, pa.rj+1, r.Intn(3000))
			if d > 6000 {
				d = 6000
			}
			do(fmt.Sprintf("t-advance %d", d))
		default: // the peer restarts with a fresh channel
			newChan(r.Intn(2))
		}
	}
}

func ketStream(r *rand.Rand, n int, tier string, o *hx.Out) {
	setRandom(uint64(r.Int63()))
	st := newKtState()
	for o.N < n {
		ketScenario(r, func(op string) string {
			st.apply(strings.Fields(op), o)
			return o.Last()
		})
	}
	st.apply([]string{"t-reset"}, hx.NewOut("/dev/null", 0))
}

// ---------------------------------------------------------------------------------------------------------------
// C07 oracle under the fake clock: after ANY adversarial prefix (drops, duplicates, reordering, data overtaking
// handshake messages, simultaneous initiation, expiry, rekeys, restarts with a fresh channel, arbitrary timing),
// once the network is reliable a pending Send completes within a bounded number of handshake retransmission
// intervals; afterwards traffic keeps flowing across rekeys, and a session that keeps receiving is not expired.

var ketTrace bool

// a prospective session is abandoned after this many retransmission intervals (p2pke handshakeAttempts)
var ketAttempts = p2pke.VerifHandshakeAttempts()

type ktNet struct {
	st   *ktState
	pool []ktFlight
	log  []string
	last map[int]int
	reps map[int]int
}

func (n *ktNet) note(f string, a ...any) {
	n.log = append(n.log, fmt.Sprintf("t=%d ", n.st.nowMs())+fmt.Sprintf(f, a...))
	if ketTrace {
		fmt.Printf("TRACE %s   ch0[%s] ch1[%s]\n", n.log[len(n.log)-1], chanObs(n.st.chans[0]), chanObs(n.st.chans[1]))
	}
}

// collect moves what the channels emitted into the network
func (n *ktNet) collect() {
	for _, e := range n.st.takeEvents() {
		i := n.st.ke.intern(e.msg)
		fl := ktFlight{e.cid ^ 1, i}
		dup := false
		for _, g := range n.pool {
			dup = dup || g == fl
		}
		if !dup {
			n.pool = append(n.pool, fl)
		}
		if n.last == nil {
			n.last, n.reps = map[int]int{}, map[int]int{}
		}
		if l, ok := n.last[e.cid]; ok && l == i {
			n.reps[e.cid]++
			if n.reps[e.cid] > 2 { // retransmissions of the same message are summarised
				continue
			}
		} else {
			n.reps[e.cid] = 0
		}
		n.last[e.cid] = i
		n.log = append(n.log, fmt.Sprintf("t=%d ch%d emits m%d (counter %d)", e.t, e.cid, i, counterOf(e.msg)))
		if ketTrace {
			fmt.Println("TRACE", n.log[len(n.log)-1])
		}
	}
}

func counterOf(b []byte) uint32 {
	if len(b) < 4 {
		return 0
	}
	return uint32(b[0])<<24 | uint32(b[1])<<16 | uint32(b[2])<<8 | uint32(b[3])
}

// deliverAll hands over everything in flight, and the answers, until the network is quiet; returns app data seen per channel
func (n *ktNet) deliverAll(got map[int][]string) {
	for round := 0; round < 20; round++ {
		n.collect()
		if len(n.pool) == 0 {
			return
		}
		cur := n.pool
		n.pool = nil
		for _, f := range cur {
			if c := n.st.chans[f.dst]; c != nil {
				out, err := c.Deliver(nil, hx.Exact(n.st.ke.msgs[f.idx]))
				bubbleWait()
				if ketTrace {
					n.note("(reliable) m%d delivered to ch%d -> app=%q err=%v", f.idx, f.dst, out, err)
				}
				if err == nil && out != nil && got != nil {
					got[f.dst] = append(got[f.dst], string(out))
				}
			}
		}
	}
}

func ketOracle(r *rand.Rand, n int, tier string, infile string) (cases int, fails []string) {
	base := r.Int63n(1 << 40)
	only := -1
	if v := os.Getenv("KET_CASE"); v != "" { // KET_CASE=<base>/<k>: re-run one case with a full trace
		fmt.Sscanf(v, "%d/%d", &base, &only)
	}
	for cases < n {
		k := cases
		cases++
		if only >= 0 && k != only {
			continue
		}
		ketTrace = only >= 0
		setRandom(uint64(base + int64(k)))
		if f := ketOracleCase(rand.New(rand.NewSource(base + int64(k)))); f != "" && len(fails) < 12 {
			fails = append(fails, fmt.Sprintf("%s case=%d/%d", f, base, k))
		}
		if (oracleOffset+k)%4 == 0 {
			if f := ketContinuityCase(rand.New(rand.NewSource(base + int64(k) + 7))); f != "" && len(fails) < 12 {
				fails = append(fails, fmt.Sprintf("%s case=%d/%d", f, base, k))
			}
		}
	}
	return cases, fails
}

// ketContinuityCase (C05): a channel that established with key 1 goes quiet until every session it holds has expired
// (the application keeps trying to send now and then, so the channel looks at its sessions), then a party with ANOTHER
// key, which the acceptance predicate would accept on first contact, shows up at the other end and handshakes. The
// channel is bound to key 1 for good: it must not report the new key, become ready with it, or hand out its data.
func ketContinuityCase(r *rand.Rand) (failure string) {
	st := newKtState()
	defer func() {
		for _, c := range st.chans {
			c.Close()
		}
		bubbleWait()
	}()
	net := &ktNet{st: st}
	ka, bo := hx.Pick(r, 40, 150, 1000), hx.Pick(r, 20, 100)
	ra := hx.Pick(r, 300, 700, 2003)
	rj := ra + ketAttempts*bo + hx.Pick(r, 10*bo, 1000)
	st.chans[0] = st.newChan(0, 0, "all", ka, bo, ra, rj)
	st.chans[1] = st.newChan(1, 1, "all", ka, bo, ra, rj)
	fail := func(f string, a ...any) string {
		h := net.log
		if len(h) > 40 {
			h = h[len(h)-40:]
		}
		return "C05 " + fmt.Sprintf(f, a...) + fmt.Sprintf(" at t=%d ch0[%s] ch1[%s]", st.nowMs(), chanObs(st.chans[0]), chanObs(st.chans[1])) + " history=[" + strings.Join(h, "; ") + "]"
	}
	run := func(cid int, payload string, limit int) (error, map[int][]string) {
		got := map[int][]string{}
		ctx, cf := context.WithTimeout(context.Background(), ms(limit))
		defer cf()
		done := make(chan error, 1)
		go func() { done <- st.chans[cid].Send(ctx, p2p.IOVec{[]byte(payload)}) }()
		bubbleWait()
		start := st.nowMs()
		for st.nowMs()-start <= int64(limit) {
			net.deliverAll(got)
			select {
			case err := <-done:
				net.deliverAll(got)
				return err, got
			default:
			}
			time.Sleep(ms(1))
			bubbleWait()
		}
		cf()
		err := <-done
		return err, got
	}
	first := r.Intn(2)
	if err, _ := run(first, "hello", (ketAttempts+4)*bo); err != nil {
		return "" // establishment is C07's business
	}
	bound := keyIndex(st.chans[0].RemoteKey())
	if bound != "1" {
		return fail("after establishing with key 1 the channel reports key %s", bound)
	}
	net.note("established; ch0 is bound to key %s", bound)
	// the peer goes away; time passes; the application on ch0 tries to send now and then
	st.chans[1].Close()
	bubbleWait()
	delete(st.chans, 1)
	for k := 0; k < 2+r.Intn(4); k++ {
		d := hx.Pick(r, ka+1, rj, rj+ka, 2*rj, ra)
		time.Sleep(ms(d))
		bubbleWait()
		ctx, cf := context.WithTimeout(context.Background(), ms(hx.Pick(r, 0, 1, bo, 3*bo)))
		st.chans[0].Send(ctx, p2p.IOVec{[]byte("anyone there")})
		cf()
		bubbleWait()
		st.takeEvents() // nobody is listening
		net.pool = nil
		net.note("%d ms of silence, then a Send that goes nowhere", d)
	}
	// another party, with key 3, now sits at the other end
	st.chans[1] = st.newChan(1, 3, "all", ka, bo, ra, rj)
	net.note("a party with key 3 appears at the other end")
	who := r.Intn(2)
	_, got := run(who^0, "from-the-stranger-or-to-it", (ketAttempts+4)*bo)
	_, got2 := run(1, "data from key 3", (ketAttempts+4)*bo)
	for _, p := range append(got[0], got2[0]...) {
		if p == "data from key 3" || (who == 1 && p == "from-the-stranger-or-to-it") {
			return fail("a channel bound to key 1 handed the application data sent by key 3")
		}
	}
	if now := keyIndex(st.chans[0].RemoteKey()); now != "1" && now != "-" {
		return fail("a channel bound to key 1 reports key %s as its remote key after a period of silence and a handshake by that key", now)
	}
	return ""
}

func ketOracleCase(r *rand.Rand) (failure string) {
	st := newKtState()
	defer func() {
		for _, c := range st.chans {
			c.Close()
		}
		bubbleWait()
	}()
	net := &ktNet{st: st}
	pa := ktPickParams(r)
	// sane intervals: a rekey (and its retransmissions) fits well before the old session is rejected
	// (a session may be up to the handshake time-out old when it becomes current)
	pa.ra = hx.Pick(r, 700, 2003, 100000)
	pa.rj = pa.ra + ketAttempts*pa.bo + hx.Pick(r, 10*pa.bo, 1000, 4000, 200000)
	// mostly each side pins the other's key (as a swarm does per address); then a third party can complete a
	// handshake with its own key, which the victim refuses at promotion
	accept := [2]string{"all", "all"}
	if r.Intn(3) > 0 {
		accept = [2]string{"only:1", "only:0"}
	}
	mk := func(cid int) {
		if old := st.chans[cid]; old != nil {
			old.Close()
			bubbleWait()
			net.note("ch%d restarts with a fresh channel", cid)
		}
		st.chans[cid] = st.newChan(cid, cid, accept[cid], pa.ka, pa.bo, pa.ra, pa.rj)
	}
	mk(0)
	mk(1)
	net.note("params keepalive=%d backoff=%d rekey=%d reject=%d", pa.ka, pa.bo, pa.ra, pa.rj)
	trySend := func(cid int, p string) error {
		ctx, cf := context.WithCancel(context.Background())
		cf()
		err := st.chans[cid].Send(ctx, p2p.IOVec{[]byte(p)})
		bubbleWait()
		return err
	}
	fail := func(f string, a ...any) string {
		h := net.log
		if len(h) > 60 {
			h = h[len(h)-60:]
		}
		return "C07 " + fmt.Sprintf(f, a...) + fmt.Sprintf(" at t=%d ch0[%s] ch1[%s]", st.nowMs(), chanObs(st.chans[0]), chanObs(st.chans[1])) + " history=[" + strings.Join(h, "; ") + "]"
	}
	pendCtx, pendCancel := context.WithCancel(context.Background())
	defer pendCancel()
	var pending [2]chan error
	var pendingOn [2]*p2pke.Channel
	// adversarial prefix
	steps := r.Intn(40)
	for k := 0; k < steps; k++ {
		net.collect()
		switch x := r.Intn(100); {
		case x < 6:
			// a Send that stays pending through whatever follows
			cid := r.Intn(2)
			if pending[cid] == nil {
				ch := make(chan error, 1)
				pending[cid] = ch
				c := st.chans[cid]
				pendingOn[cid] = c
				go func() { ch <- c.Send(pendCtx, p2p.IOVec{[]byte("pending")}) }()
				bubbleWait()
				net.note("ch%d starts a Send that stays pending", cid)
			}
		case x < 20:
			cid := r.Intn(2)
			err := trySend(cid, "prefix")
			net.note("ch%d Send -> %v", cid, err)
		case x < 60 && len(net.pool) > 0:
			i := r.Intn(len(net.pool))
			f := net.pool[i]
			switch y := r.Intn(8); {
			case y == 0:
				net.pool = append(net.pool[:i], net.pool[i+1:]...)
				net.note("m%d lost", f.idx)
			default:
				if y != 1 {
					net.pool = append(net.pool[:i], net.pool[i+1:]...)
				}
				st.chans[f.dst].Deliver(nil, hx.Exact(st.ke.msgs[f.idx]))
				bubbleWait()
				net.note("m%d delivered to ch%d%s", f.idx, f.dst, map[bool]string{true: " (and stays in flight)", false: ""}[y == 1])
			}
		case x < 92:
			d := hx.Pick(r, 0, 1, 20, pa.bo-1, pa.bo, pa.bo+1, 3*pa.bo, pa.ka, pa.ka+1, pa.ra-1, pa.ra, pa.ra+1, pa.rj, pa.rj+1, r.Intn(2*pa.bo+1), r.Intn(6000))
			if d < 0 {
				d = 0
			}
			if d > 20000 {
				d = 20000
			}
			time.Sleep(ms(d))
			bubbleWait()
			net.note("%d ms pass", d)
		case x < 95:
			mk(r.Intn(2))
		case x < 98:
			// a third party (key 3) answers an InitHello that is in flight and completes the handshake with its sender
			for _, f := range net.pool {
				if accept[0] == "all" { // an accept-all channel would simply pin the third party's key
					break
				}
				if counterOf(st.ke.msgs[f.idx]) != 0 || st.chans[f.dst^1] == nil {
					continue
				}
				victim := f.dst ^ 1
				evil := st.newChan(2, 3, "all", pa.ka, pa.bo, pa.ra, pa.rj)
				relay := func(to *p2pke.Channel, msg []byte, fromCid int) []byte { // deliver, return what `to` answered
					to.Deliver(nil, hx.Exact(msg))
					bubbleWait()
					var ans []byte
					st.mu.Lock()
					keep := st.ev[:0]
					for _, e := range st.ev {
						if e.cid == fromCid && ans == nil {
							ans = e.msg
						} else {
							keep = append(keep, e)
						}
					}
					st.ev = keep
					st.mu.Unlock()
					return ans
				}
				net.collect()
				if rh := relay(evil, st.ke.msgs[f.idx], 2); rh != nil {
					if id := relay(st.chans[victim], rh, victim); id != nil {
						if rd := relay(evil, id, 2); rd != nil {
							st.chans[victim].Deliver(nil, hx.Exact(rd))
							bubbleWait()
						}
					}
				}
				evil.Close()
				bubbleWait()
				st.mu.Lock()
				keep := st.ev[:0]
				for _, e := range st.ev {
					if e.cid != 2 {
						keep = append(keep, e)
					}
				}
				st.ev = keep
				st.mu.Unlock()
				net.note("a third party with key 3 answers m%d and completes that handshake with ch%d", f.idx, victim)
				break
			}
		default:
			net.pool = nil
			net.note("everything in flight is lost")
		}
	}
	net.collect()
	if r.Intn(2) == 0 {
		net.pool = nil
		net.note("everything in flight is lost")
	}
	// from here on the network is reliable and immediate
	bound := ketAttempts + 4 // handshake retransmission intervals
	for epoch := 0; epoch < 2; epoch++ {
		if epoch > 0 {
			// a side restarts with a fresh channel while traffic is flowing; whatever was in flight to it is gone
			mk(r.Intn(2))
			net.collect()
			net.pool = nil
		}
		sender := r.Intn(2)
		net.note("--- network reliable; ch%d has a Send pending; ch0[%s] ch1[%s]", sender, chanObs(st.chans[0]), chanObs(st.chans[1]))
		done := make(chan error, 1)
		ctx, cf := context.WithTimeout(context.Background(), ms(1000*pa.bo))
		start := st.nowMs()
		if epoch == 0 && pending[sender] != nil && pendingOn[sender] == st.chans[sender] {
			done = pending[sender] // the Send has been pending since the adversarial prefix
			select {
			case err := <-done:
				done <- err
				net.note("(the Send pending on ch%d completed during the prefix)", sender)
			default:
			}
		} else {
			go func() { done <- st.chans[sender].Send(ctx, p2p.IOVec{[]byte("pending")}) }()
		}
		bubbleWait()
		got := map[int][]string{}
		completed := false
		var sendErr error
		for st.nowMs()-start <= int64(bound*pa.bo) {
			net.deliverAll(got)
			select {
			case sendErr = <-done:
				completed = true
			default:
			}
			if completed {
				break
			}
			time.Sleep(ms(1))
			bubbleWait()
		}
		if !completed {
			// let it finish (or time out) so that nothing stays blocked, and report
			for k := 0; k < 1000*pa.bo && !completed; k += 10 {
				net.deliverAll(got)
				select {
				case sendErr = <-done:
					completed = true
				default:
					time.Sleep(ms(10))
					bubbleWait()
				}
			}
			took := "never (gave up after 1000 intervals)"
			if completed && sendErr == nil {
				took = fmt.Sprintf("only after %d ms", st.nowMs()-start)
			}
			return fail("a Send pending on ch%d does not complete within %d handshake retransmission intervals (%d ms) of a reliable network: completes %s", sender, bound, bound*pa.bo, took)
		}
		cf()
		if sendErr != nil {
			return fail("the pending Send on ch%d fails with %v", sender, sendErr)
		}
		net.note("--- the pending Send completed after %d ms", st.nowMs()-start)
		// A side may still hold a session with a peer that has restarted; its sends go nowhere until keep-alive
		// expiry, a rekey or reject-after replaces that session. Wait (with traffic both ways) for the two sides
		// to be in step: a payload gets through in each direction.
		syncLimit := int64(min(pa.ka, pa.rj) + 2*bound*pa.bo)
		syncStart := st.nowMs()
		inStep := false
		for k := 0; !inStep; k++ {
			okDir := [2]bool{}
			for _, cid := range []int{0, 1} {
				p := fmt.Sprintf("s%d-%d", k, cid)
				if trySend(cid, p) == nil {
					net.deliverAll(got)
					for _, q := range got[cid^1] {
						okDir[cid] = okDir[cid] || q == p
					}
				}
				net.deliverAll(got)
			}
			got = map[int][]string{}
			inStep = okDir[0] && okDir[1]
			if !inStep {
				if st.nowMs()-syncStart > syncLimit {
					return fail("with a reliable network and Sends on both sides every %d ms, the two channels are still not in step (a payload through in each direction: %v) %d ms after the pending Send completed", max(pa.bo/2, 1), okDir, st.nowMs()-syncStart)
				}
				time.Sleep(ms(max(pa.bo/2, 1)))
				bubbleWait()
			}
		}
		net.note("--- in step after %d ms", st.nowMs()-syncStart)
		// traffic keeps flowing across rekeys and expiry of old sessions: every round trip works, every Send succeeds
		// promptly. Traffic is frequent enough that nothing is idle for KeepAliveTimeout.
		gap := min(pa.ka/3, pa.bo)
		if gap < 1 {
			gap = 1
		}
		rounds := (2*pa.ra + pa.rj) / gap
		if rounds > 400 {
			rounds = 400
		}
		// in a third of the cases the steady traffic is empty application messages (the shape of an application-level
		// ping): they are authenticated traffic like any other, are delivered, and keep the session from being idle
		emptyApp := r.Intn(3) == 0
		for k := 0; k < rounds; k++ {
			for _, cid := range []int{0, 1} {
				p := fmt.Sprintf("r%d-%d", k, cid)
				if emptyApp {
					p = ""
				}
				ctx, cf := context.WithTimeout(context.Background(), ms(bound*pa.bo))
				errc := make(chan error, 1)
				go func() { errc <- st.chans[cid].Send(ctx, p2p.IOVec{[]byte(p)}) }()
				bubbleWait()
				t1 := st.nowMs()
				var err error
				fin := false
				for !fin {
					net.deliverAll(got)
					select {
					case err = <-errc:
						fin = true
					default:
						time.Sleep(ms(1))
						bubbleWait()
					}
				}
				cf()
				if err != nil {
					return fail("established traffic: Send on ch%d in round %d (%d ms after establishment) fails with %v after %d ms", cid, k, t1-start, err, st.nowMs()-t1)
				}
				if st.nowMs() != t1 {
					return fail("established traffic: Send on ch%d in round %d had to wait %d ms although both sides keep receiving", cid, k, st.nowMs()-t1)
				}
				net.deliverAll(got)
				ok := false
				for _, q := range got[cid^1] {
					if q == p {
						ok = true
					}
				}
				got[cid^1] = nil
				if !ok {
					return fail("established traffic: payload %s sent on ch%d in round %d was not delivered to the peer", p, cid, k)
				}
			}
			time.Sleep(ms(gap))
			bubbleWait()
		}
	}
	return ""
}
