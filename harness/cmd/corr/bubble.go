//go:build go1.25

//go:debug asynctimerchan=0

package main

import (
	cryptorand "crypto/rand"
	"encoding/binary"
	mathrand "math/rand/v2"
	"os"
	"sync"
	"testing"
	"testing/synctest"
)

// inBubble runs f inside a synctest bubble: time.Now, timers and Sleep use a fake clock that advances only when
// every goroutine of the bubble is blocked, so timer-driven code runs deterministically and instantly.
func inBubble(f func()) {
	os.Args = os.Args[:1]
	testing.Main(func(pat, str string) (bool, error) { return true, nil },
		[]testing.InternalTest{{Name: "bubble", F: func(t *testing.T) { synctest.Test(t, func(t *testing.T) { f() }) }}}, nil, nil)
}

func bubbleWait() { synctest.Wait() }

type lockedReader struct {
	mu sync.Mutex
	r  *mathrand.ChaCha8
}

func (lr *lockedReader) Read(b []byte) (int, error) {
	lr.mu.Lock()
	defer lr.mu.Unlock()
	return lr.r.Read(b)
}

// setRandom makes crypto/rand.Reader (the source of the Noise ephemeral keys) deterministic, so that the hash
// tie-breaks between simultaneous initiators, and with them whole runs, are reproducible.
func setRandom(seed uint64) {
	var s [32]byte
	binary.LittleEndian.PutUint64(s[:8], seed)
	cryptorand.Reader = &lockedReader{r: mathrand.NewChaCha8(s)}
}
