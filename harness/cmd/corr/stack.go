package main

import (
	"bytes"
	"context"
	"fmt"
	"math/rand"
	"sort"
	"strconv"
	"strings"
	"sync"
	"time"

	"go.brendoncarroll.net/p2p"
	"go.brendoncarroll.net/p2p/p/p2pmux"
	"go.brendoncarroll.net/p2p/s/fragswarm"
	"go.brendoncarroll.net/p2p/s/memswarm"
	"verifharness/internal/hx"
)

// stack stream: nestings of fragmenting swarms and multiplexer channels over an in-memory base whose datagrams
// the harness captures (Tell) and releases (deliver); compared with Model/Stack.lean.

func init() {
	streams["stack"] = stackStream
	replayers["stack"] = func() replayFn { st := &stackState{}; return st.apply }
}

type stackState struct {
	mu       sync.Mutex
	capture  bool
	captured [][]byte
	sender   dyn
	recvr    dyn
	baseSend *memswarmBase
	dst      p2p.Addr
	got      chan []byte
	cancel   context.CancelFunc
}

type memswarmBase struct {
	s    interface{ Tell(context.Context, memswarm.Addr, p2p.IOVec) error }
	addr memswarm.Addr
}

func buildStack(desc string, base dyn) dyn {
	if desc == "-" {
		return base
	}
	toks := strings.Split(desc, ",")
	s := base
	for i := len(toks) - 1; i >= 0; i-- { // innermost layer is last in the description
		tok := toks[i]
		switch {
		case strings.HasPrefix(tok, "f"):
			n, _ := strconv.Atoi(tok[1:])
			s = fragswarm.New[p2p.Addr](s, n)
		case strings.HasPrefix(tok, "m"):
			kc := strings.SplitN(tok[1:], ":", 2)
			s = openChan2(kc[0], s)(kc[1])
		}
	}
	return s
}

func openChan2(k string, base dyn) func(c string) dyn {
	switch k {
	case "str":
		m := p2pmux.NewStringMux[p2p.Addr](base)
		return func(c string) dyn { return m.Open(string(hx.UnHex(c))) }
	case "varint":
		m := p2pmux.NewVarintMux[p2p.Addr](base)
		return func(c string) dyn { n, _ := strconv.ParseUint(c, 10, 64); return m.Open(n) }
	case "u16":
		m := p2pmux.NewUint16Mux[p2p.Addr](base)
		return func(c string) dyn { n, _ := strconv.ParseUint(c, 10, 16); return m.Open(uint16(n)) }
	case "u32":
		m := p2pmux.NewUint32Mux[p2p.Addr](base)
		return func(c string) dyn { n, _ := strconv.ParseUint(c, 10, 32); return m.Open(uint32(n)) }
	case "u64":
		m := p2pmux.NewUint64Mux[p2p.Addr](base)
		return func(c string) dyn { n, _ := strconv.ParseUint(c, 10, 64); return m.Open(n) }
	}
	panic(k)
}

func (st *stackState) apply(op []string, o *hx.Out) {
	line := strings.Join(op, " ")
	res := hx.Guard(func() string {
		switch op[0] {
		case "stack-new":
			if st.cancel != nil {
				st.cancel()
				st.sender.Close()
				st.recvr.Close()
			}
			*st = stackState{got: make(chan []byte, 64)}
			base, _ := strconv.Atoi(op[2])
			realm := memswarm.NewRealm(memswarm.WithMTU(base), memswarm.WithQueueLen(1024), memswarm.WithTellTransform(func(m *memswarm.Message) bool {
				st.mu.Lock()
				defer st.mu.Unlock()
				if st.capture {
					st.captured = append(st.captured, append([]byte{}, m.Payload...))
					return false
				}
				return true
			}))
			a, b := realm.NewSwarm(), realm.NewSwarm()
			st.baseSend = &memswarmBase{s: a, addr: b.LocalAddr()}
			st.sender = buildStack(op[1], erase[memswarm.Addr](a))
			st.recvr = buildStack(op[1], erase[memswarm.Addr](b))
			st.dst = st.recvr.LocalAddrs()[0]
			ctx, cf := context.WithCancel(context.Background())
			st.cancel = cf
			go func(s dyn, got chan []byte) {
				for {
					if err := s.Receive(ctx, func(m p2p.Message[p2p.Addr]) { got <- append([]byte{}, m.Payload...) }); err != nil {
						return
					}
				}
			}(st.recvr, st.got)
			return fmt.Sprintf("mtu=%d", st.sender.MTU())
		case "stack-tell":
			st.mu.Lock()
			st.capture = true
			st.captured = nil
			st.mu.Unlock()
			ctx, cf := context.WithTimeout(context.Background(), 2*time.Second)
			err := st.sender.Tell(ctx, st.dst, p2p.IOVec{hx.UnHex(op[1])})
			cf()
			st.mu.Lock()
			st.capture = false
			ps := st.captured
			st.mu.Unlock()
			if err != nil {
				st.captured = nil
				if p2p.IsErrMTUExceeded(err) {
					return "err-mtu"
				}
				return "err-other"
			}
			sorted := append([][]byte{}, ps...)
			sort.Slice(sorted, func(i, j int) bool { return bytes.Compare(sorted[i], sorted[j]) < 0 })
			ss := make([]string, len(sorted))
			for i, p := range sorted {
				ss[i] = hx.Hex(p)
			}
			return "pkts " + strings.Join(ss, ",")
		case "stack-deliver":
			st.mu.Lock()
			ps := st.captured
			st.captured = nil
			st.mu.Unlock()
			for _, p := range ps {
				st.baseSend.s.Tell(context.Background(), st.baseSend.addr, p2p.IOVec{p})
			}
			var outs []string
			timeout := time.After(300 * time.Millisecond)
			quiet := time.NewTimer(30 * time.Millisecond)
		loop:
			for {
				select {
				case g := <-st.got:
					outs = append(outs, hx.Hex(g))
					quiet.Reset(15 * time.Millisecond)
				case <-quiet.C:
					break loop
				case <-timeout:
					break loop
				}
			}
			if len(outs) == 0 {
				return "none"
			}
			return strings.Join(outs, ",")
		}
		return "bad-op"
	})
	o.Emit(op[0], op[0] != "stack-new", line, res)
}

func genStackDesc(r *rand.Rand) string {
	var layers []string
	n := r.Intn(4)
	hasFrag := false
	for i := 0; i < n; i++ {
		if !hasFrag && r.Intn(3) == 0 {
			layers = append(layers, fmt.Sprintf("f%d", hx.Pick(r, 50, 300, 1000, 6000)))
			hasFrag = true
			continue
		}
		k := muxKinds[r.Intn(len(muxKinds))]
		c := randChan(r, k)
		if k == "str" && len(c) > 41 {
			c = c[:41]
		}
		layers = append(layers, "m"+k+":"+c)
	}
	if len(layers) == 0 {
		return "-"
	}
	return strings.Join(layers, ",")
}

func stackStream(r *rand.Rand, n int, tier string, o *hx.Out) {
	st := &stackState{}
	total := 0
	exec := func(op string) string { st.apply(strings.Fields(op), o); total++; return o.Last() }
	for total < n {
		desc := genStackDesc(r)
		base := hx.Pick(r, 20, 24, 30, 40, 64, 100, 300, 1200)
		res := exec(fmt.Sprintf("stack-new %s %d", desc, base))
		mtu, _ := strconv.Atoi(strings.TrimPrefix(res, "mtu="))
		for k := 0; k < 6; k++ {
			sizes := []int{0, 1, mtu - 1, mtu, mtu + 1, base - 16, base, 2 * base, r.Intn(max(mtu, 1) + 2), r.Intn(200)}
			sz := sizes[r.Intn(len(sizes))]
			if sz < 0 {
				sz = 0
			}
			if sz > 8000 {
				sz = 8000
			}
			if strings.HasPrefix(exec("stack-tell "+hx.Hex(hx.Bytes(r, sz))), "pkts") {
				exec("stack-deliver")
			}
		}
	}
	if st.cancel != nil {
		st.cancel()
	}
}
