package main

import (
	"crypto/ecdsa"
	"crypto/elliptic"
	crand "crypto/rand"
	"crypto/tls"
	stdx509 "crypto/x509"
	"math/big"
	"strings"

	"context"
	"crypto/ed25519"
	"fmt"
	"github.com/quic-go/quic-go"
	"math/rand"
	"net"
	"sync"
	"time"

	"go.brendoncarroll.net/p2p"
	"go.brendoncarroll.net/p2p/f/x509"
	"go.brendoncarroll.net/p2p/p/p2pke"
	"go.brendoncarroll.net/p2p/s/memswarm"
	"go.brendoncarroll.net/p2p/s/p2pkeswarm"
	"go.brendoncarroll.net/p2p/s/quicswarm"
	"go.brendoncarroll.net/p2p/s/sshswarm"
	"go.brendoncarroll.net/p2p/s/udpswarm"
	"go.brendoncarroll.net/p2p/s/wlswarm"
	realssh "golang.org/x/crypto/ssh"
	evilssh "verifharness/evilssh"
)

// secure oracle: C04 on the three secure swarms over loopback / in-memory transports.

func init() { oracles["secure"] = secureOracle }

func edKey(i byte) ed25519.PrivateKey {
	seed := make([]byte, 32)
	seed[31] = i
	return ed25519.NewKeyFromSeed(seed)
}

func secureOracle(r *rand.Rand, n int, tier string, infile string) (cases int, fails []string) {
	bad := func(f string, a ...any) {
		if len(fails) < 30 {
			fails = append(fails, fmt.Sprintf(f, a...))
		}
	}
	for i := 0; i < n; i++ {
		switch (oracleOffset + i) % 7 {
		case 6:
			cases += whitelistReplayCase(r, bad)
		case 5:
			cases += wlCase(r, bad)
		case 4:
			cases += quicEvilCase(bad)
		case 0:
			cases += p2pkeSwarmCase(r, bad)
		case 1:
			cases += quicSwarmCase(r, bad)
		case 2:
			cases += sshHonestCase(r, bad)
		case 3:
			cases += sshEvilCase(bad)
		}
	}
	return cases, fails
}

// whitelistReplayCase: node A admits only the identity of W. The adversary M holds only its own key and sits at its own
// transport address; it has seen one InitHello of W (W once dialled M's address). M repeats that InitHello to A (the
// whitelist is asked about W's key and says yes), then runs an ordinary handshake with its own key from the same
// transport address and sends. A must deliver nothing: the whitelist decision belongs to the key that completes the
// handshake, not to the first key that was offered from that address.
func whitelistReplayCase(r *rand.Rand, bad func(string, ...any)) int {
	ctx, cf := context.WithTimeout(context.Background(), 6*time.Second)
	defer cf()
	realm := memswarm.NewRealm(memswarm.WithQueueLen(16), memswarm.WithMTU(2000))
	kA, kW, kM := testPrivKey(400+r.Intn(50)), testPrivKey(500+r.Intn(50)), testPrivKey(600+r.Intn(50))
	w := p2pkeswarm.New[memswarm.Addr](realm.NewSwarm(), kW)
	defer w.Close()
	idW := w.LocalAddrs()[0].ID
	a := p2pkeswarm.New[memswarm.Addr](realm.NewSwarm(), kA, p2pkeswarm.WithWhitelist[memswarm.Addr](func(x p2pkeswarm.Addr[memswarm.Addr]) bool {
		return x.ID == idW
	}))
	defer a.Close()
	rawM := realm.NewSwarm()
	defer rawM.Close()
	addrA := a.LocalAddrs()[0].Addr
	addrM := rawM.LocalAddrs()[0]
	// 1. W dials M's transport address; M records W's InitHello
	go func() {
		tctx, tcf := context.WithTimeout(ctx, 500*time.Millisecond)
		defer tcf()
		w.Tell(tctx, p2pkeswarm.Addr[memswarm.Addr]{ID: a.LocalAddrs()[0].ID, Addr: addrM}, p2p.IOVec{[]byte("hello friend")})
	}()
	var helloW []byte
	for helloW == nil {
		var msg p2p.Message[memswarm.Addr]
		if err := p2p.Receive[memswarm.Addr](ctx, rawM, &msg); err != nil {
			return 1 // inconclusive: W's hello never came
		}
		if p2pke.IsInitHello(msg.Payload) {
			helloW = append([]byte{}, msg.Payload...)
		}
	}
	// 2. M repeats it to A and waits for A's answer
	if rawM.Tell(ctx, addrA, p2p.IOVec{helloW}) != nil {
		return 1
	}
	for {
		var msg p2p.Message[memswarm.Addr]
		if err := p2p.Receive[memswarm.Addr](ctx, rawM, &msg); err != nil {
			return 1
		}
		if msg.Src == addrA && p2pke.IsRespHello(msg.Payload) {
			break
		}
	}
	// 3. M runs the protocol with its own key
	chM := p2pke.NewChannel(p2pke.ChannelConfig{
		PrivateKey: kM,
		AcceptKey:  func(*x509.PublicKey) bool { return true },
		Send:       func(x []byte) { rawM.Tell(ctx, addrA, p2p.IOVec{x}) },
	})
	defer chM.Close()
	go func() {
		for {
			var msg p2p.Message[memswarm.Addr]
			if err := p2p.Receive[memswarm.Addr](ctx, rawM, &msg); err != nil {
				return
			}
			if msg.Src == addrA {
				chM.Deliver(nil, msg.Payload)
			}
		}
	}()
	go func() {
		sctx, scf := context.WithTimeout(ctx, 1200*time.Millisecond)
		defer scf()
		chM.Send(sctx, p2p.IOVec{[]byte("from M")})
	}()
	rctx, rcf := context.WithTimeout(ctx, 1500*time.Millisecond)
	defer rcf()
	var got p2p.Message[p2pkeswarm.Addr[memswarm.Addr]]
	if err := p2p.Receive[p2pkeswarm.Addr[memswarm.Addr]](rctx, a, &got); err == nil {
		bad("C04 p2pkeswarm: the whitelist admits only %v, but %q from %v was delivered after a replayed InitHello of the admitted peer", idW, got.Payload, got.Src.ID)
	}
	return 1
}

type seenMsg struct {
	src     p2p.Addr
	payload string
	lookup  string // fingerprint/identity of the key LookupPublicKey returned inside the handler
}

// p2pkeswarm over memswarm: honest pair, wrong-identity destination, whitelist that rejects
func p2pkeSwarmCase(r *rand.Rand, bad func(string, ...any)) int {
	realm := memswarm.NewRealm(memswarm.WithQueueLen(64), memswarm.WithMTU(2000))
	rejectB := r.Intn(2) == 0
	kA, kB, kC := testPrivKey(100+r.Intn(50)), testPrivKey(200+r.Intn(50)), testPrivKey(300+r.Intn(50))
	a := p2pkeswarm.New[memswarm.Addr](realm.NewSwarm(), kA)
	var idA p2p.PeerID
	idA = a.LocalAddrs()[0].ID
	b := p2pkeswarm.New[memswarm.Addr](realm.NewSwarm(), kB, p2pkeswarm.WithWhitelist[memswarm.Addr](func(x p2pkeswarm.Addr[memswarm.Addr]) bool {
		return !(rejectB && x.ID == idA)
	}))
	c := p2pkeswarm.New[memswarm.Addr](realm.NewSwarm(), kC)
	defer a.Close()
	defer b.Close()
	defer c.Close()
	var mu sync.Mutex
	var gotB, gotC []seenMsg
	recv := func(s *p2pkeswarm.Swarm[memswarm.Addr], out *[]seenMsg) {
		go func() {
			for {
				err := s.Receive(context.Background(), func(m p2p.Message[p2pkeswarm.Addr[memswarm.Addr]]) {
					lk := "-"
					lctx, cf := context.WithTimeout(context.Background(), time.Second)
					if pk, err := s.LookupPublicKey(lctx, m.Src); err == nil {
						id := p2pkeswarm.DefaultFingerprinter(&pk)
						lk = id.String()
					}
					cf()
					mu.Lock()
					*out = append(*out, seenMsg{m.Src, string(m.Payload), lk})
					mu.Unlock()
				})
				if err != nil {
					return
				}
			}
		}()
	}
	recv(b, &gotB)
	recv(c, &gotC)
	addrB, addrC := b.LocalAddrs()[0], c.LocalAddrs()[0]
	ctx, cf := context.WithTimeout(context.Background(), 1500*time.Millisecond)
	defer cf()
	errAB := a.Tell(ctx, addrB, p2p.IOVec{[]byte("a->b")})
	// wrong identity: C's id at B's transport address
	wrong := p2pkeswarm.Addr[memswarm.Addr]{ID: addrC.ID, Addr: addrB.Addr}
	wctx, wcf := context.WithTimeout(context.Background(), 400*time.Millisecond)
	errWrong := a.Tell(wctx, wrong, p2p.IOVec{[]byte("for-c-only")})
	wcf()
	time.Sleep(50 * time.Millisecond)
	mu.Lock()
	defer mu.Unlock()
	if errWrong == nil {
		bad("C04 p2pkeswarm: Tell to identity C at B's address reported success")
	}
	for _, m := range append(append([]seenMsg{}, gotB...), gotC...) {
		if strings.HasSuffix(m.payload, "for-c-only") {
			bad("C01,C04 p2pkeswarm: a payload addressed to identity C was handed to a node that does not hold C's key")
		}
	}
	if rejectB {
		if len(gotB) > 0 {
			bad("C04 p2pkeswarm: a peer rejected by the whitelist had a message delivered (%q)", gotB[0].payload)
		}
	} else {
		if errAB != nil {
			bad("C04 p2pkeswarm: honest Tell failed: %v", errAB)
		}
		for _, m := range gotB {
			src := m.src.(p2pkeswarm.Addr[memswarm.Addr])
			if src.ID != idA {
				bad("C04 p2pkeswarm: message from A attributed to identity %v, A's identity is %v", src.ID, idA)
			}
			if m.lookup != idA.String() {
				bad("C04 p2pkeswarm: LookupPublicKey inside the handler returned a key with identity %s, the sender's is %s", m.lookup, idA)
			}
		}
	}
	return 1
}

func quicSwarmCase(r *rand.Rand, bad func(string, ...any)) int {
	mk := func(i int, opts ...quicswarm.Option[udpswarm.Addr]) *quicswarm.Swarm[udpswarm.Addr] {
		s, err := quicswarm.NewOnUDP("127.0.0.1:0", testPrivKey(400+i), opts...)
		if err != nil {
			return nil
		}
		return s
	}
	rejectB := r.Intn(2) == 0
	a := mk(r.Intn(40))
	if a == nil {
		return 1
	}
	defer a.Close()
	idA := a.LocalAddrs()[0].ID
	b := mk(50+r.Intn(40), quicswarm.WithWhilelist[udpswarm.Addr](func(x p2p.Addr) bool {
		return !(rejectB && p2p.ExtractPeerID(x) == idA)
	}))
	c := mk(100 + r.Intn(40))
	if b == nil || c == nil {
		return 1
	}
	defer b.Close()
	defer c.Close()
	var mu sync.Mutex
	var gotB []seenMsg
	go func() {
		for {
			err := b.Receive(context.Background(), func(m p2p.Message[quicswarm.Addr[udpswarm.Addr]]) {
				lk := "-"
				lctx, cf := context.WithTimeout(context.Background(), time.Second)
				if pk, err := b.LookupPublicKey(lctx, m.Src); err == nil {
					lk = quicswarm.DefaultFingerprinter(pk).String()
				}
				cf()
				mu.Lock()
				gotB = append(gotB, seenMsg{m.Src, string(m.Payload), lk})
				mu.Unlock()
			})
			if err != nil {
				return
			}
		}
	}()
	addrB, addrC := b.LocalAddrs()[0], c.LocalAddrs()[0]
	ctx, cf := context.WithTimeout(context.Background(), 2*time.Second)
	defer cf()
	errAB := a.Tell(ctx, addrB, p2p.IOVec{[]byte("a->b")})
	wrong := quicswarm.Addr[udpswarm.Addr]{ID: addrC.ID, Addr: addrB.Addr}
	wctx, wcf := context.WithTimeout(context.Background(), time.Second)
	errWrong := a.Tell(wctx, wrong, p2p.IOVec{[]byte("for-c-only")})
	wcf()
	// the refusal is not a one-off: repeats of the same destination (whatever the first attempt left behind in the
	// dialer's caches), an Ask and a key lookup are refused as well
	go b.ServeAsk(context.Background(), func(_ context.Context, resp []byte, m p2p.Message[quicswarm.Addr[udpswarm.Addr]]) int {
		mu.Lock()
		gotB = append(gotB, seenMsg{m.Src, "ask:" + string(m.Payload), "-"})
		mu.Unlock()
		return 0
	})
	for k := 0; k < 2; k++ {
		wctx, wcf := context.WithTimeout(context.Background(), time.Second)
		if err := a.Tell(wctx, wrong, p2p.IOVec{[]byte("for-c-only")}); err == nil {
			bad("C04 quicswarm: Tell number %d to identity C at B's address reported success (the first was refused: %v)", k+2, errWrong != nil)
		}
		wcf()
	}
	wctx, wcf = context.WithTimeout(context.Background(), time.Second)
	if _, err := a.Ask(wctx, make([]byte, 16), wrong, p2p.IOVec{[]byte("for-c-only")}); err == nil {
		bad("C04 quicswarm: Ask to identity C at B's address, after a refused Tell, was answered")
	}
	wcf()
	wctx, wcf = context.WithTimeout(context.Background(), time.Second)
	if pk, err := a.LookupPublicKey(wctx, wrong); err == nil && quicswarm.DefaultFingerprinter(pk) != addrC.ID {
		bad("C04 quicswarm: LookupPublicKey for identity C at B's address, after a refused Tell, returned the key of %v", quicswarm.DefaultFingerprinter(pk))
	}
	wcf()
	time.Sleep(100 * time.Millisecond)
	mu.Lock()
	defer mu.Unlock()
	if errWrong == nil {
		bad("C04 quicswarm: Tell to identity C at B's address reported success")
	}
	for _, m := range gotB {
		if strings.HasSuffix(m.payload, "for-c-only") {
			bad("C01,C04 quicswarm: a payload addressed to identity C was handed to node B")
		}
	}
	if rejectB {
		if len(gotB) > 0 {
			bad("C04 quicswarm: a peer rejected by the whitelist had a message delivered")
		}
	} else {
		if errAB != nil {
			return 1 // socket trouble: inconclusive
		}
		for _, m := range gotB {
			if strings.HasPrefix(m.payload, "ask:") {
				continue
			}
			src := m.src.(quicswarm.Addr[udpswarm.Addr])
			if src.ID != idA {
				bad("C04 quicswarm: message from A attributed to identity %v, A's identity is %v", src.ID, idA)
			}
			if m.lookup != idA.String() {
				bad("C04 quicswarm: LookupPublicKey inside the handler returned identity %s, the sender's is %s", m.lookup, idA)
			}
		}
	}
	return 1
}

func sshHonestCase(r *rand.Rand, bad func(string, ...any)) int {
	sa, _ := realssh.NewSignerFromSigner(edKey(byte(1 + r.Intn(60))))
	sb, _ := realssh.NewSignerFromSigner(edKey(byte(70 + r.Intn(60))))
	sc, _ := realssh.NewSignerFromSigner(edKey(byte(140 + r.Intn(60))))
	a, err1 := sshswarm.New("127.0.0.1:0", sa)
	b, err2 := sshswarm.New("127.0.0.1:0", sb)
	if err1 != nil || err2 != nil {
		return 1
	}
	defer a.Close()
	defer b.Close()
	got := make(chan seenMsg, 4)
	go func() {
		for {
			err := b.Receive(context.Background(), func(m p2p.Message[sshswarm.Addr]) {
				lk := "-"
				lctx, cf := context.WithTimeout(context.Background(), time.Second)
				if pk, err := b.LookupPublicKey(lctx, m.Src); err == nil {
					lk = realssh.FingerprintSHA256(pk)
				}
				cf()
				got <- seenMsg{m.Src, string(m.Payload), lk}
			})
			if err != nil {
				return
			}
		}
	}()
	addrB := b.LocalAddrs()[0]
	ctx, cf := context.WithTimeout(context.Background(), 3*time.Second)
	defer cf()
	if err := a.Tell(ctx, addrB, p2p.IOVec{[]byte("a->b")}); err != nil {
		return 1
	}
	wrong := addrB
	wrong.Fingerprint = realssh.FingerprintSHA256(sc.PublicKey())
	if err := a.Tell(ctx, wrong, p2p.IOVec{[]byte("for-c-only")}); err == nil {
		bad("C04 sshswarm: Tell to identity C at B's address reported success")
	}
	// identities that no key has, shaped like B's own: a suffix of its fingerprint (with and without the hash name),
	// a prefix, the empty identity, the digest in another case: none of them names B
	fpB := addrB.Fingerprint
	digest := strings.TrimPrefix(fpB, "SHA256:")
	for _, id := range []string{digest, digest[1:], "SHA256:" + digest[len(digest)/2:], digest[len(digest)-6:], fpB[:len(fpB)-1], "", strings.ToLower(fpB), fpB + "A"} {
		if id == fpB {
			continue
		}
		w := addrB
		w.Fingerprint = id
		wctx, wcf := context.WithTimeout(context.Background(), 700*time.Millisecond)
		err := a.Tell(wctx, w, p2p.IOVec{[]byte("for-c-only")})
		wcf()
		if err == nil {
			bad("C04 sshswarm: Tell to identity %q at B's address reported success; B's identity is %q", id, fpB)
			break
		}
	}
	fpA := realssh.FingerprintSHA256(sa.PublicKey())
	timeout := time.After(time.Second)
	for k := 0; k < 2; k++ {
		select {
		case m := <-got:
			if strings.HasSuffix(m.payload, "for-c-only") {
				bad("C01,C04 sshswarm: a payload addressed to identity C was handed to node B")
				continue
			}
			if fp := m.src.(sshswarm.Addr).Fingerprint; fp != fpA {
				bad("C04 sshswarm: message from A attributed to %s, A's fingerprint is %s", fp, fpA)
			}
			if m.lookup != fpA {
				bad("C04 sshswarm: LookupPublicKey inside the handler returned %s, the sender's key is %s", m.lookup, fpA)
			}
		case <-timeout:
			return 1
		}
	}
	return 1
}

// wlCase: wlswarm.WrapSecureAsk around a secure ask swarm (quicswarm over an in-memory transport). Node A's whitelist
// names A itself and B (a list of cluster members) and so rejects C. Whatever reaches A's Receive or ServeAsk callbacks
// must come from an allowed, authenticated sender; C's tells and asks must not, B's must; and A itself cannot tell or
// ask C.
func wlCase(r *rand.Rand, bad func(string, ...any)) int {
	realm := memswarm.NewRealm(memswarm.WithQueueLen(64), memswarm.WithMTU(4096))
	var nodes []*quicswarm.Swarm[memswarm.Addr]
	for i := 0; i < 3; i++ {
		q, err := quicswarm.New[memswarm.Addr](realm.NewSwarm(), testPrivKey(800+10*r.Intn(9)+i))
		if err != nil {
			return 1
		}
		defer q.Close()
		nodes = append(nodes, q)
	}
	idA, idB, idC := nodes[0].LocalAddrs()[0].ID, nodes[1].LocalAddrs()[0].ID, nodes[2].LocalAddrs()[0].ID
	allowSelf := r.Intn(2) == 0
	allowed := func(a quicswarm.Addr[memswarm.Addr]) bool {
		return a.ID == idB || (allowSelf && a.ID == idA)
	}
	wl := wlswarm.WrapSecureAsk[quicswarm.Addr[memswarm.Addr], x509.PublicKey](nodes[0], allowed)
	var mu sync.Mutex
	var tells, asks []p2p.PeerID
	go func() {
		for {
			if err := wl.Receive(context.Background(), func(m p2p.Message[quicswarm.Addr[memswarm.Addr]]) {
				mu.Lock()
				tells = append(tells, m.Src.ID)
				mu.Unlock()
			}); err != nil {
				return
			}
		}
	}()
	go func() {
		for {
			if err := wl.ServeAsk(context.Background(), func(_ context.Context, resp []byte, m p2p.Message[quicswarm.Addr[memswarm.Addr]]) int {
				mu.Lock()
				asks = append(asks, m.Src.ID)
				mu.Unlock()
				return copy(resp, "pong")
			}); err != nil {
				return
			}
		}
	}()
	addrA := nodes[0].LocalAddrs()[0]
	resp := make([]byte, 64)
	for _, who := range []int{1, 2} {
		ctx, cf := context.WithTimeout(context.Background(), 2*time.Second)
		nodes[who].Tell(ctx, addrA, p2p.IOVec{[]byte(fmt.Sprintf("tell-from-%d", who))})
		n, err := nodes[who].Ask(ctx, resp, addrA, p2p.IOVec{[]byte(fmt.Sprintf("ask-from-%d", who))})
		cf()
		if who == 2 && err == nil {
			bad("C04 wlswarm: an Ask by a peer the whitelist rejects was answered (%q)", resp[:n])
		}
		if who == 1 && (err != nil || string(resp[:n]) != "pong") {
			bad("C04 wlswarm: an Ask by an allowed peer was not answered (n=%d err=%v)", n, err)
		}
	}
	time.Sleep(100 * time.Millisecond)
	ctx, cf := context.WithTimeout(context.Background(), time.Second)
	if err := wl.Tell(ctx, nodes[2].LocalAddrs()[0], p2p.IOVec{[]byte("to-c")}); err == nil {
		bad("C04 wlswarm: Tell to a peer the whitelist rejects reported success")
	}
	if _, err := wl.Ask(ctx, resp, nodes[2].LocalAddrs()[0], p2p.IOVec{[]byte("to-c")}); err == nil {
		bad("C04 wlswarm: Ask to a peer the whitelist rejects reported success")
	}
	cf()
	mu.Lock()
	defer mu.Unlock()
	seenB := false
	for _, id := range tells {
		if id == idC {
			bad("C04 wlswarm: a tell from a peer the whitelist rejects reached the Receive callback")
		}
		seenB = seenB || id == idB
	}
	if !seenB {
		bad("C04 wlswarm: the tell of an allowed peer never reached the Receive callback")
	}
	for _, id := range asks {
		if id == idC {
			bad("C04 wlswarm: an ask from a peer the whitelist rejects reached the ServeAsk callback")
		}
	}
	return 1
}

// sshEvilCase: the authentication history [query own key A, query victim's key V, sign with A], emitted by a
// patched copy of the x/crypto/ssh client; the holder of A must be attributed A.
func sshEvilCase(bad func(string, ...any)) int {
	sSigner, _ := realssh.NewSignerFromSigner(edKey(201))
	vSigner, _ := realssh.NewSignerFromSigner(edKey(202))
	srv, err := sshswarm.New("127.0.0.1:0", sSigner)
	if err != nil {
		bad("C04 sshswarm evil case could not run: listen: %v", err)
		return 1
	}
	defer srv.Close()
	got := make(chan seenMsg, 1)
	go srv.Receive(context.Background(), func(m p2p.Message[sshswarm.Addr]) {
		lk := "-"
		lctx, cf := context.WithTimeout(context.Background(), time.Second)
		if pk, err := srv.LookupPublicKey(lctx, m.Src); err == nil {
			lk = realssh.FingerprintSHA256(pk)
		}
		cf()
		got <- seenMsg{m.Src, string(m.Payload), lk}
	})
	laddr := srv.LocalAddrs()[0]
	aSigner, _ := evilssh.NewSignerFromSigner(edKey(203))
	vPub, _ := evilssh.NewPublicKey(edKey(202).Public())
	evilssh.EvilQueryKeys = []evilssh.PublicKey{vPub}
	conn, err := net.Dial("tcp", fmt.Sprintf("%s:%d", laddr.IP, laddr.Port))
	if err != nil {
		bad("C04 sshswarm evil case could not run: dial: %v", err)
		return 1
	}
	defer conn.Close()
	cc, _, _, err := evilssh.NewClientConn(conn, "x", &evilssh.ClientConfig{
		Auth:            []evilssh.AuthMethod{evilssh.PublicKeys(aSigner)},
		HostKeyCallback: evilssh.InsecureIgnoreHostKey(),
		Timeout:         2 * time.Second,
	})
	if err != nil {
		// the holder of A proved A: a server that refuses it is not confused, but the case did not test anything
		bad("C04 sshswarm evil case could not run: the connection of the holder of A was refused: %v", err)
		return 1
	}
	defer cc.Close()
	cc.SendRequest("", false, []byte("hello from the holder of A"))
	aReal, _ := realssh.NewSignerFromSigner(edKey(203))
	fpA, fpV := realssh.FingerprintSHA256(aReal.PublicKey()), realssh.FingerprintSHA256(vSigner.PublicKey())
	select {
	case m := <-got:
		fp := m.src.(sshswarm.Addr).Fingerprint
		if fp != fpA || m.lookup != fpA {
			who := "another key"
			if fp == fpV || m.lookup == fpV {
				who = "the victim's key V, which the sender only asked about"
			}
			bad("C04 sshswarm: after [query A, query V, sign with A] the message of the holder of A is attributed to %s (Src=%s lookup=%s)", who, fp, m.lookup)
		}
	case <-time.After(5 * time.Second):
		bad("C04 sshswarm evil case could not run: the message of the holder of A never arrived")
	}
	return 1
}

var _ = x509.PublicKey{}

// quicEvilCase: a QUIC peer that holds only its own (ECDSA) key proves it with the first certificate of its chain
// and appends a second, self-issued certificate that merely NAMES an honest node's Ed25519 key. Whatever the honest
// listener delivers must be attributed to a key the sender proved, never to the named one (C04).
func quicEvilCase(bad func(string, ...any)) int {
	alice, err := quicswarm.NewOnUDP("127.0.0.1:0", testPrivKey(700))
	if err != nil {
		return 1
	}
	defer alice.Close()
	seed := make([]byte, ed25519.SeedSize)
	seed[0] = 0x77
	victimStd := ed25519.NewKeyFromSeed(seed).Public()
	victimDER, _ := stdx509.MarshalPKIXPublicKey(victimStd)
	victimPub, err := x509.ParsePublicKey(victimDER)
	if err != nil {
		return 1
	}
	victimID := quicswarm.DefaultFingerprinter(victimPub)
	advKey, err := ecdsa.GenerateKey(elliptic.P256(), crand.Reader)
	if err != nil {
		return 1
	}
	tmpl := func(serial int64) *stdx509.Certificate {
		return &stdx509.Certificate{SerialNumber: big.NewInt(serial), NotBefore: time.Now().Add(-time.Hour), NotAfter: time.Now().Add(time.Hour),
			KeyUsage:    stdx509.KeyUsageDigitalSignature | stdx509.KeyUsageCertSign,
			ExtKeyUsage: []stdx509.ExtKeyUsage{stdx509.ExtKeyUsageClientAuth, stdx509.ExtKeyUsageServerAuth}, BasicConstraintsValid: true, IsCA: true}
	}
	leafT := tmpl(1)
	leafDER, err1 := stdx509.CreateCertificate(crand.Reader, leafT, leafT, advKey.Public(), advKey)
	claimDER, err2 := stdx509.CreateCertificate(crand.Reader, tmpl(2), leafT, victimStd, advKey)
	if err1 != nil || err2 != nil {
		return 1
	}
	ctx, cf := context.WithTimeout(context.Background(), 4*time.Second)
	defer cf()
	got := make(chan string, 4)
	go func() {
		for {
			if err := alice.Receive(ctx, func(m p2p.Message[quicswarm.Addr[udpswarm.Addr]]) {
				lk := "-"
				cctx, ccf := context.WithCancel(context.Background())
				ccf()
				if pk, err := alice.LookupPublicKey(cctx, m.Src); err == nil {
					lk = quicswarm.DefaultFingerprinter(pk).String()
				}
				got <- m.Src.ID.String() + " " + lk
			}); err != nil {
				return
			}
		}
	}()
	ua := alice.LocalAddrs()[0].Addr
	for _, chain := range [][][]byte{{leafDER, claimDER}, {claimDER, leafDER}} {
		sess, err := quic.DialAddr(ctx, ua.String(), &tls.Config{
			Certificates:       []tls.Certificate{{Certificate: chain, PrivateKey: advKey}},
			InsecureSkipVerify: true, NextProtos: []string{"p2p"}}, &quic.Config{})
		if err != nil {
			continue // refused: fine
		}
		if st, err := sess.OpenUniStream(); err == nil {
			st.Write([]byte("hello from a peer that only holds an ECDSA key"))
			st.Close()
		}
		select {
		case g := <-got:
			f := strings.Fields(g)
			if f[0] == victimID.String() {
				bad("C04 quicswarm attributes a message to identity %s, a key the sender only named in an appended certificate (it proved possession of an ECDSA key)", f[0])
			}
			if f[1] == victimID.String() {
				bad("C04 quicswarm LookupPublicKey inside the handler returns the key the sender only named in an appended certificate")
			}
		case <-time.After(700 * time.Millisecond):
		}
		sess.CloseWithError(0, "")
	}
	return 1
}
