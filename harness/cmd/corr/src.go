package main

// src stream: the functions that harness/cmd/go2lean translates into lean/P2PVerif/Gen/Src.lean are run here on
// generated inputs; the Lean driver evaluates the REGENERATED definitions on the same inputs. A disagreement means the
// translator (or the runtime library it targets, Src/Rt.lean: integer semantics, slicing, the encoding/binary models)
// does not say what the Go compiler says. This is the translator's own correspondence check.

import (
	"fmt"
	"math/rand"
	"sort"
	"strconv"
	"strings"

	"go.brendoncarroll.net/p2p"
	"go.brendoncarroll.net/p2p/f/x509/oids"
	"go.brendoncarroll.net/p2p/p/kademlia"
	"go.brendoncarroll.net/p2p/p/mbapp"
	"go.brendoncarroll.net/p2p/p/p2pke"
	"go.brendoncarroll.net/p2p/s/fragswarm"
	"go.brendoncarroll.net/p2p/s/memswarm"
	"golang.zx2c4.com/wireguard/replay"
	"verifharness/internal/hx"
)

func init() {
	streams["src"] = srcStream
	replayers["src"] = func() replayFn { return srcReplay }
}

func b2s(b bool) string {
	if b {
		return "1"
	}
	return "0"
}

func srcDo(op []string) string {
	return hx.Guard(func() string {
		a := func(i int) []byte { return hx.Exact(hx.UnHex(op[i])) }
		n := func(i int) int { v, _ := strconv.ParseInt(op[i], 10, 64); return int(v) }
		u := func(i int) uint64 { v, _ := strconv.ParseUint(op[i], 10, 64); return v }
		switch op[0] + " " + op[1] {
		case "vec gather":
			var v p2p.IOVec
			if op[3] != "-" {
				for _, seg := range strings.Split(op[3], ",") {
					v = append(v, hx.Exact(hx.UnHex(seg)))
				}
			}
			return fmt.Sprintf("%d %s", p2p.VecSize(v), hx.Hex(p2p.VecBytes(a(2), v)))
		case "ke gate":
			cs, cr, rd := p2pke.VerifGates(op[2] == "1", uint8(u(3)))
			return b2s(cs) + b2s(cr) + b2s(rd)
		case "oid rt":
			// an algorithm identifier built from arcs and read back: Len, every At, ASN1, IsZero
			var arcs []int
			if op[2] != "-" {
				for _, t := range strings.Split(op[2], ".") {
					v, _ := strconv.ParseInt(t, 10, 64)
					arcs = append(arcs, int(v))
				}
			}
			o := oids.New(arcs...)
			var at []string
			for i := 0; i < o.Len(); i++ {
				at = append(at, strconv.FormatUint(o.At(i), 10))
			}
			var as []string
			for _, x := range o.ASN1() {
				as = append(as, strconv.Itoa(x))
			}
			return fmt.Sprintf("len=%d at=%s asn1=%s zero=%s", o.Len(), strings.Join(at, "."), strings.Join(as, "."), b2s(o.IsZero()))
		case "mtu mb", "mtu frag":
			// MTU() of a real message-box / fragmenting swarm over an in-memory transport of the given MTU
			r := memswarm.NewRealm(memswarm.WithMTU(n(2)))
			base := r.NewSwarm()
			defer base.Close()
			if op[1] == "mb" {
				mb := mbapp.New[memswarm.Addr, struct{}](p2p.ComposeSecureSwarm[memswarm.Addr, struct{}](base, noSecure[memswarm.Addr]{}), n(3))
				defer mb.Close()
				return strconv.Itoa(mb.MTU())
			}
			f := fragswarm.New[memswarm.Addr](base, n(3))
			defer f.Close()
			return strconv.Itoa(f.MTU())
		case "kad dop":
			// kad dop <findnode|join|get|put> <key> <param> <initial> <net>: the four iterative operations against a
			// simulated network (the `dht` stream's cases); here the regenerated definitions are evaluated on the same line,
			// so only the result is compared (a pure Ask cannot record whom it was asked about)
			prm, _ := strconv.Atoi(op[4])
			run := dhtDo(op[2], hx.UnHex(op[3]), prm, parseIDs(op[5]), parseDhtNet(op[6]))
			res := run.result
			if strings.HasPrefix(res, "asks=") {
				res = res[strings.IndexByte(res, ' ')+1:]
			}
			return res
		case "kad iter":
			// kad iter <key> <n> <initial refs> <table>; a node ref is idprefix/info (the id is padded to 32 bytes);
			// table: id=ref;ref:cont|... ; the callback answers from the table and records whom it was called with
			ref := func(t string) kademlia.NodeInfo {
				var ni kademlia.NodeInfo
				parts := strings.SplitN(t, "/", 2)
				copy(ni.ID[:], hx.UnHex(parts[0]))
				if b := hx.UnHex(parts[1]); len(b) > 0 {
					ni.Info = b
				}
				return ni
			}
			refs := func(t string) (out []kademlia.NodeInfo) {
				if t == "-" {
					return nil
				}
				for _, x := range strings.Split(t, ";") {
					out = append(out, ref(x))
				}
				return out
			}
			type ans struct {
				nodes []kademlia.NodeInfo
				cont  bool
			}
			table := map[p2p.PeerID]ans{}
			if op[5] != "-" {
				for _, ent := range strings.Split(op[5], "|") {
					kv := strings.SplitN(ent, "=", 2)
					vc := strings.SplitN(kv[1], ":", 2)
					var id p2p.PeerID
					copy(id[:], hx.UnHex(kv[0]))
					table[id] = ans{refs(vc[0]), vc[1] == "1"}
				}
			}
			var trace []string
			kademlia.VerifDhtIterate(refs(op[4]), a(2), n(3), func(ni kademlia.NodeInfo) ([]kademlia.NodeInfo, bool) {
				trace = append(trace, hx.Hex(ni.ID[:4])+"/"+hx.Hex(ni.Info))
				if an, ok := table[ni.ID]; ok {
					return append([]kademlia.NodeInfo{}, an.nodes...), an.cont
				}
				return nil, true
			})
			return "t=" + strings.Join(trace, ",")
		case "kad lz":
			return strconv.Itoa(kademlia.LeadingZeros(a(2)))
		case "kad xor":
			dst := a(2)
			k := kademlia.XORBytes(dst, a(3), a(4))
			return fmt.Sprintf("%d %s", k, hx.Hex(dst))
		case "kad prefix":
			return b2s(kademlia.HasPrefix(a(2), a(3), n(4)))
		case "kad dist":
			return hx.Hex(kademlia.Distance(a(2), a(3)))
		case "kad cmp":
			return strconv.Itoa(kademlia.DistanceCmp(a(2), a(3), a(4)))
		case "kad lt":
			return b2s(kademlia.DistanceLt(a(2), a(3), a(4)))
		case "kad gt":
			return b2s(kademlia.DistanceGt(a(2), a(3), a(4)))
		case "kad dlz":
			return strconv.Itoa(kademlia.DistanceLz(a(2), a(3)))
		case "frag new":
			return hx.Hex(flat(fragswarm.VerifNewMessage(uint32(u(2)), uint8(u(3)), uint8(u(4)), a(5))))
		case "frag parse":
			id, part, total, data, err := fragswarm.VerifParseMessage(a(2))
			if err != nil {
				return "err"
			}
			return fmt.Sprintf("ok %d %d %d %s", id, part, total, hx.Hex(data))
		case "frag agg":
			var parts, totals []uint8
			var data [][]byte
			if len(op) > 2 {
				for _, p := range strings.Split(op[2], ",") {
					f := strings.SplitN(p, ":", 3)
					a, _ := strconv.Atoi(f[0])
					b, _ := strconv.Atoi(f[1])
					parts, totals, data = append(parts, uint8(a)), append(totals, uint8(b)), append(data, hx.Exact(hx.UnHex(f[2])))
				}
			}
			done, asm := fragswarm.VerifAggregatorRun(parts, totals, data)
			var sb strings.Builder
			for _, d := range done {
				sb.WriteString(b2s(d))
			}
			return fmt.Sprintf("d%s %s", sb.String(), hx.Hex(asm))
		case "ke class":
			x := a(2)
			return b2s(p2pke.IsInitHello(x)) + b2s(p2pke.IsRespHello(x)) + b2s(p2pke.IsHello(x)) + b2s(p2pke.IsPostHandshake(x))
		case "ke nonce":
			m, err := p2pke.ParseMessage(a(2))
			if err != nil {
				return "err"
			}
			return fmt.Sprintf("%d %s %s", m.GetNonce(), hx.Hex(m.HeaderBytes()), hx.Hex(m.Body()))
		case "rp run":
			var f replay.Filter
			var sb strings.Builder
			for _, c := range strings.Split(op[3], ",") {
				v, _ := strconv.ParseUint(c, 10, 64)
				sb.WriteString(b2s(f.ValidateCounter(v, u(2))))
			}
			return sb.String()
		case "mb errcode":
			c, k := mbapp.VerifExtractErrorCode(n(2))
			return fmt.Sprintf("%d %d", c, k)
		case "mb get":
			h, body, err := mbapp.ParseMessage(a(2))
			if err != nil {
				return "err"
			}
			return fmt.Sprintf("%s%s %d %d %d %d %d %d %s", b2s(h.IsAsk()), b2s(h.IsReply()), h.GetErrorCode(), uint32(h.GetOriginTime()),
				h.GetCounter(), h.GetTotalSize(), h.GetPartIndex(), h.GetPartCount(), hx.Hex(body))
		case "mb set":
			h := mbapp.Header(a(2))
			h.SetIsAsk(op[3] == "1")
			h.SetIsReply(op[4] == "1")
			h.SetErrorCode(uint8(u(5)))
			h.SetOriginTime(mbapp.PhaseTime32(u(6)))
			h.SetCounter(uint32(u(7)))
			h.SetTotalSize(uint32(u(8)))
			h.SetPartIndex(uint16(u(9)))
			h.SetPartCount(uint16(u(10)))
			h.SetTimeout(uint32(u(11)))
			return hx.Hex(h)
		case "mb col":
			var idx []int
			var data [][]byte
			if len(op) > 4 {
				for _, p := range strings.Split(op[4], ",") {
					kv := strings.SplitN(p, ":", 2)
					k, _ := strconv.Atoi(kv[0])
					idx = append(idx, k)
					data = append(data, hx.Exact(hx.UnHex(kv[1])))
				}
			}
			errs, complete, buf := mbapp.VerifCollectorRun(n(2), n(3), idx, data)
			var sb strings.Builder
			for _, e := range errs {
				sb.WriteString(b2s(e))
			}
			return fmt.Sprintf("e%s %s %s", sb.String(), b2s(complete), hx.Hex(buf))
		}
		return "bad-op"
	})
}

func srcReplay(op []string, o *hx.Out) {
	switch op[0] {
	case "mux":
		o.Emit("mux", true, strings.Join(op, " "), strings.Fields(muxDo(op[1], op[2], hx.UnHex(op[3])) + " ")[0])
	case "demux":
		o.Emit("demux", true, strings.Join(op, " "), demuxDo(op[1], hx.UnHex(op[2])))
	default:
		o.Emit(op[0]+"/"+op[1], true, strings.Join(op, " "), srcDo(op))
	}
}

// related byte strings: equal, sharing a prefix, differing in one bit, of different lengths
func srcKeys(r *rand.Rand) (x, a, b []byte) {
	x = hx.Bytes(r, hx.Pick(r, 0, 1, 2, 3, 8, 32, r.Intn(40)))
	mk := func() []byte {
		k := append([]byte{}, x...)
		switch r.Intn(6) {
		case 0:
		case 1:
			if len(k) > 0 {
				k[r.Intn(len(k))] ^= byte(1 << uint(r.Intn(8)))
			}
		case 2:
			k = k[:r.Intn(len(k)+1)]
		case 3:
			k = append(k, hx.Bytes(r, 1+r.Intn(3))...)
		case 4:
			k = hx.Bytes(r, r.Intn(36))
		case 5:
			for i := range k {
				if r.Intn(3) == 0 {
					k[i] = 0
				}
			}
		}
		return k
	}
	return x, mk(), mk()
}

func srcStream(r *rand.Rand, n int, tier string, o *hx.Out) {
	emit := func(op string) {
		srcReplay(strings.Fields(op), o)
	}
	u64 := func() uint64 { return hx.EdgeU64(r) }
	for i := 0; i < n; i++ {
		switch r.Intn(16) {
		case 0, 1:
			x, a, b := srcKeys(r)
			emit(fmt.Sprintf("kad %s %s %s %s", hx.Pick(r, "cmp", "lt", "gt"), hx.Hex(x), hx.Hex(a), hx.Hex(b)))
			emit(fmt.Sprintf("kad dist %s %s", hx.Hex(a), hx.Hex(b)))
			emit(fmt.Sprintf("kad dlz %s %s", hx.Hex(a), hx.Hex(b)))
		case 2:
			x, a, b := srcKeys(r)
			emit(fmt.Sprintf("kad xor %s %s %s", hx.Hex(x), hx.Hex(a), hx.Hex(b)))
			z := append(make([]byte, r.Intn(4)), x...)
			emit("kad lz " + hx.Hex(z))
		case 15:
			if r.Intn(4) == 0 {
				var arcs []string
				for k := hx.Pick(r, 0, 1, 2, 3, 7, r.Intn(12)); k > 0; k-- {
					arcs = append(arcs, strconv.Itoa(hx.Pick(r, 0, 1, 2, 3, 101, 112, 127, 128, 129, 200, 255, 256, 840, 113549, 1<<31-1, 1<<31, 1<<32, 1<<62, 1<<63-1, -1, -128, r.Intn(1<<20))))
				}
				a := "-"
				if len(arcs) > 0 {
					a = strings.Join(arcs, ".")
				}
				emit("oid rt " + a)
				break
			}
			if r.Intn(3) == 0 {
				inner := hx.Pick(r, 1, 14, 15, 16, 23, 24, 25, 26, 40, 200, 1200, 65536, r.Intn(300))
				cfg := hx.Pick(r, 0, 1, 100, 255, 256, 65535, 65536, 1<<20, (inner-24)*65535, (inner-24)*65535+1, (inner-15)*255, (inner-15)*255-1, r.Intn(100000))
				if cfg < 0 {
					cfg = 0
				}
				emit(fmt.Sprintf("mtu %s %d %d", hx.Pick(r, "mb", "frag"), inner, cfg))
				break
			}
			dop, dkey, dparam, dinit, dnet := genDhtCase(r)
			emit("kad dop " + strings.TrimPrefix(dhtLine(dop, dkey, dparam, dinit, dnet), "dht "))
		case 14:
			// dhtIterate against a scripted network: ids share prefixes with the key; duplicates (the same id twice, with
			// different info) only in small instances, where slices.SortFunc is an insertion sort
			key := hx.Bytes(r, hx.Pick(r, 32, 32, 32, 4, 1, 0, 33))
			dups := r.Intn(4) == 0
			pool := 3 + r.Intn(28)
			if dups {
				pool = 2 + r.Intn(5)
			}
			var ids []string
			for k := 0; k < pool; k++ {
				id := make([]byte, 4)
				copy(id, key)
				switch r.Intn(4) {
				case 0:
					id[r.Intn(4)] ^= byte(1 << uint(r.Intn(8)))
				case 1:
					id[3] = byte(r.Intn(256))
				case 2:
					copy(id, hx.Bytes(r, 4))
				case 3:
					id[2], id[3] = byte(r.Intn(4)), byte(r.Intn(256))
				}
				if h := hx.Hex(id); !strings.Contains(strings.Join(ids, " "), h) {
					ids = append(ids, h)
				}
			}
			// far ids first: an iteration that starts far away and is sent nearer has many rounds
			sort.Slice(ids, func(i, j int) bool {
				a, b := make([]byte, 32), make([]byte, 32)
				copy(a, hx.UnHex(ids[i]))
				copy(b, hx.UnHex(ids[j]))
				return kademlia.DistanceLt(key, b, a)
			})
			mkRefAt := func(k int) string {
				info := "x"
				if dups || r.Intn(3) == 0 {
					info = hx.Hex(hx.Bytes(r, 1))
				}
				return ids[k] + "/" + info
			}
			mkRefs := func(max, from int) string {
				var out []string
				seen := map[string]bool{}
				for k := r.Intn(max + 1); k > 0; k-- {
					at := r.Intn(len(ids))
					if r.Intn(3) > 0 && from < len(ids) {
						at = from + r.Intn(len(ids)-from) // nearer than the node that answers
					}
					x := mkRefAt(at)
					if !dups && seen[x[:9]] {
						continue
					}
					seen[x[:9]] = true
					out = append(out, x)
				}
				if len(out) == 0 {
					return "-"
				}
				return strings.Join(out, ";")
			}
			var tab []string
			for k, id := range ids {
				if r.Intn(8) > 0 {
					tab = append(tab, fmt.Sprintf("%s=%s:%d", id, mkRefs(hx.Pick(r, 2, 5, 5, 9), k+1), hx.Pick(r, 1, 1, 1, 1, 1, 1, 1, 0)))
				}
			}
			tb := "-"
			if len(tab) > 0 {
				tb = strings.Join(tab, "|")
			}
			nn := hx.Pick(r, 1, 2, 3, 6, 6)
			if !dups {
				nn = hx.Pick(r, 1, 2, 3, 3, 6, 20, 1000, 0, -1)
			}
			init := "-"
			if r.Intn(10) > 0 {
				var ini []string
				for k := 1 + r.Intn(4); k > 0; k-- {
					ini = append(ini, mkRefAt(r.Intn(1+len(ids)/2)))
				}
				if dups || len(ini) == 1 || ini[0][:9] != ini[len(ini)-1][:9] {
					init = strings.Join(ini, ";")
				} else {
					init = ini[0]
				}
			}
			emit(fmt.Sprintf("kad iter %s %d %s %s", hx.Hex(key), nn, init, tb))
		case 3:
			x, p, _ := srcKeys(r)
			nb := hx.Pick(r, 0, 1, 7, 8, 9, len(p)*8-1, len(p)*8, len(p)*8+1, len(x)*8, len(x)*8+1, r.Intn(64))
			if nb < 0 {
				nb = 0
			}
			emit(fmt.Sprintf("kad prefix %s %s %d", hx.Hex(x), hx.Hex(p), nb))
		case 4, 5:
			k := muxKinds[r.Intn(len(muxKinds))]
			c := randChan(r, k)
			p := hx.Bytes(r, hx.SmallLen(r))
			emit(fmt.Sprintf("mux %s %s %s", k, c, hx.Hex(p)))
			fb := hx.UnHex(strings.Fields(muxDo(k, c, p) + " ")[0])
			if r.Intn(3) > 0 {
				fb = mutateFrame(r, fb)
			}
			emit("demux " + k + " " + hx.Hex(fb))
		case 6:
			id, part, total := u64()&0xffffffff, u64()&0xff, u64()&0xff
			data := hx.Bytes(r, hx.SmallLen(r))
			emit(fmt.Sprintf("frag new %d %d %d %s", id, part, total, hx.Hex(data)))
			f := flat(fragswarm.VerifNewMessage(uint32(id), uint8(part), uint8(total), data))
			if r.Intn(2) == 0 {
				f = mutateFrame(r, f)
			}
			emit("frag parse " + hx.Hex(f))
		case 13:
			// fragments for one aggregator: mostly one part count, some contradicting it, duplicates, empty bodies
			total := hx.Pick(r, 1, 2, 3, 4, 8, 255, r.Intn(6))
			var fr []string
			for k := 0; k < r.Intn(total+4); k++ {
				t := total
				if r.Intn(6) == 0 {
					t = hx.Pick(r, 0, 1, total+1, 255, r.Intn(9))
				}
				part := hx.Pick(r, r.Intn(total+1), r.Intn(total+1), total-1, total, 255)
				if part < 0 {
					part = 0
				}
				fr = append(fr, fmt.Sprintf("%d:%d:%s", part, t, hx.Hex(hx.Bytes(r, hx.Pick(r, 0, 1, 2, 5)))))
			}
			op := "frag agg"
			if len(fr) > 0 {
				op += " " + strings.Join(fr, ",")
			}
			emit(op)
		case 7:
			x := hx.Bytes(r, hx.Pick(r, 0, 1, 3, 4, 5, 12, 40))
			if len(x) >= 4 && r.Intn(2) == 0 {
				copy(x, []byte{0, 0, 0, byte(hx.Pick(r, 0, 1, 2, 3, 4, 15, 16, 17))})
			}
			emit("ke class " + hx.Hex(x))
			emit("ke nonce " + hx.Hex(x))
			emit(fmt.Sprintf("ke gate %d %d", r.Intn(2), hx.Pick(r, 0, 1, 2, 3, 4, 8, 255, r.Intn(256))))
			var segs []string
			for k := 0; k < hx.Pick(r, 0, 1, 2, 3, r.Intn(9)); k++ {
				segs = append(segs, hx.Hex(hx.Bytes(r, hx.Pick(r, 0, 0, 1, 2, 5, r.Intn(40)))))
			}
			sv := "-"
			if len(segs) > 0 {
				sv = strings.Join(segs, ",")
			}
			emit(fmt.Sprintf("vec gather %s %s", hx.Hex(hx.Bytes(r, hx.Pick(r, 0, 0, 1, 4))), sv))
		case 8, 9:
			// counters around a moving front: in order, duplicates, behind the window, far jumps, around 2^64
			lim := hx.Pick(r, ^uint64(0), uint64(1)<<32-2, 5000, 0)
			front := hx.Pick(r, uint64(0), 100, 8127, 8128, 8129, 1<<20, 1<<32-70, ^uint64(0)-9000)
			var cs []string
			for k := 0; k < 1+r.Intn(40); k++ {
				var c uint64
				switch r.Intn(8) {
				case 0, 1, 2:
					front += uint64(r.Intn(3))
					c = front
				case 3:
					c = front - uint64(r.Intn(9000))
				case 4:
					front += uint64(hx.Pick(r, 63, 64, 65, 8127, 8128, 8129, 8192, 1<<16))
					c = front
				case 5:
					c = front
				case 6:
					c = u64()
				case 7:
					c = front - uint64(hx.Pick(r, 8127, 8128, 8129, 64, 63))
				}
				cs = append(cs, strconv.FormatUint(c, 10))
			}
			emit(fmt.Sprintf("rp run %d %s", lim, strings.Join(cs, ",")))
		case 10:
			emit(fmt.Sprintf("mb errcode %d", hx.Pick(r, 0, 1, -1, -255, -256, 1<<40, -(1 << 40), r.Intn(100000)-50000)))
		case 11, 12:
			pkt := hx.Bytes(r, hx.Pick(r, 0, 23, 24, 25, 60))
			if len(pkt) >= 24 && r.Intn(2) == 0 {
				pkt[0] = byte(hx.Pick(r, 0, 0x80, 0x40, 0xc0, 0xff))
			}
			emit("mb get " + hx.Hex(pkt))
			h := hx.Bytes(r, 24)
			emit(fmt.Sprintf("mb set %s %d %d %d %d %d %d %d %d %d", hx.Hex(h), r.Intn(2), r.Intn(2), u64()&0xff, u64()&0xffffffff,
				u64()&0xffffffff, u64()&0xffffffff, u64()&0xffff, u64()&0xffff, u64()&0xffffffff))
		default:
			pc := hx.Pick(r, 0, 1, 2, 3, 7, 8, 9, 16, 17, r.Intn(40))
			part := hx.Pick(r, 0, 1, 2, 5)
			ts := hx.Pick(r, 0, 1, pc*part, pc*part-1, pc*part+1, r.Intn(60))
			if ts < 0 {
				ts = 0
			}
			var parts []string
			for k := 0; k < r.Intn(pc+4); k++ {
				idx := hx.Pick(r, r.Intn(pc+1), r.Intn(pc+1), pc-1, pc, pc+1, 65535)
				if idx < 0 {
					idx = 0
				}
				parts = append(parts, fmt.Sprintf("%d:%s", idx, hx.Hex(hx.Bytes(r, hx.Pick(r, part, part, 0, 1, part+1, ts, ts+1)))))
			}
			op := fmt.Sprintf("mb col %d %d", pc, ts)
			if len(parts) > 0 {
				op += " " + strings.Join(parts, ",")
			}
			emit(op)
		}
	}
}
