package main

import (
	"bytes"
	"encoding/base64"
	"fmt"
	"math/rand"
	"net/netip"
	"strconv"
	"strings"

	realssh "golang.org/x/crypto/ssh"

	"go.brendoncarroll.net/p2p"
	"go.brendoncarroll.net/p2p/s/memswarm"
	"go.brendoncarroll.net/p2p/s/multiswarm"
	"go.brendoncarroll.net/p2p/s/p2pkeswarm"
	"go.brendoncarroll.net/p2p/s/quicswarm"
	"go.brendoncarroll.net/p2p/s/sshswarm"
	"go.brendoncarroll.net/p2p/s/udpswarm"
	"verifharness/internal/hx"
)

func init() {
	streams["addr"] = addrStream
	replayers["addr"] = func() replayFn { return addrReplay }
	oracles["addr"] = addrOracle
}

type anyParser = p2p.AddrParser[p2p.Addr]

// ---- grammar terms: m | u | s | i(g) | k(g) | x[namehex=g,...]

type gram struct {
	kind  byte // m u s i k x
	inner *gram
	names []string
	subs  []*gram
}

func (g *gram) String() string {
	switch g.kind {
	case 'm', 'u', 's':
		return string(g.kind)
	case 'i', 'k':
		return "i(" + g.inner.String() + ")"
	default:
		var parts []string
		for i := range g.names {
			parts = append(parts, hx.Hex([]byte(g.names[i]))+"="+g.subs[i].String())
		}
		return "x[" + strings.Join(parts, ",") + "]"
	}
}

func (g *gram) parser() anyParser {
	switch g.kind {
	case 'm':
		return func(b []byte) (p2p.Addr, error) { return memswarm.ParseAddr(b) }
	case 'u':
		return func(b []byte) (p2p.Addr, error) { return udpswarm.ParseAddr(b) }
	case 's':
		return func(b []byte) (p2p.Addr, error) { return sshswarm.ParseAddr(b) }
	case 'i':
		in := g.inner.parser()
		return func(b []byte) (p2p.Addr, error) { return quicswarm.ParseAddr[p2p.Addr](in, b) }
	case 'k':
		in := g.inner.parser()
		return func(b []byte) (p2p.Addr, error) { return p2pkeswarm.ParseAddr[p2p.Addr](in, b) }
	default:
		m := map[string]anyParser{}
		for i := range g.names {
			m[g.names[i]] = g.subs[i].parser()
		}
		sch := multiswarm.VerifNewSchema(m)
		return func(b []byte) (p2p.Addr, error) { return sch.ParseAddr(b) }
	}
}

// ---- address terms

func addrTerm(a p2p.Addr) string {
	switch a := a.(type) {
	case memswarm.Addr:
		return "m:" + strconv.Itoa(a.N)
	case udpswarm.Addr:
		return fmt.Sprintf("u:%s:%d", hx.Hex([]byte(a.IP.String())), a.Port)
	case sshswarm.Addr:
		return fmt.Sprintf("s:%s:%s:%d", hx.Hex([]byte(a.Fingerprint)), hx.Hex([]byte(a.IP.String())), a.Port)
	case quicswarm.Addr[p2p.Addr]:
		return fmt.Sprintf("i:%s(%s)", hx.Hex(a.ID[:]), addrTerm(a.Addr))
	case p2pkeswarm.Addr[p2p.Addr]:
		return fmt.Sprintf("i:%s(%s)", hx.Hex(a.ID[:]), addrTerm(a.Addr))
	case multiswarm.Addr:
		return fmt.Sprintf("c:%s(%s)", hx.Hex([]byte(a.Scheme)), addrTerm(a.Addr))
	}
	return fmt.Sprintf("?%T", a)
}

var ipPool = []string{"1.2.3.4", "0.0.0.0", "255.255.255.255", "127.0.0.1", "10.0.0.200", "::1", "::", "2001:db8::1",
	"fe80::1%eth0", "::ffff:1.2.3.4", "2001:db8:0:1:1:1:1:1", "1:2:3:4:5:6:7:8", "ff02::2%1", "::2:3:4:5:6:7:8"}

var schemePool = []string{"udp", "quic", "ssh", "mem", "a", "x-y", "u.d.p", "p2pke+udp", "a:", "a:/", "Z9"}

func genFingerprint(r *rand.Rand) string {
	return "SHA256:" + base64.RawStdEncoding.EncodeToString(hx.Bytes(r, 32))
}

// genAddr builds a random grammar and an address that grammar produces, at nesting depth <= d.
func genAddr(r *rand.Rand, d int) (*gram, p2p.Addr) {
	k := r.Intn(7)
	if d == 0 {
		k = r.Intn(3)
	}
	switch k {
	case 0:
		n := hx.Pick(r, 0, 1, -1, 7, 1<<31, -(1 << 40), r.Intn(100000))
		return &gram{kind: 'm'}, memswarm.Addr{N: n}
	case 1:
		ip := netip.MustParseAddr(ipPool[r.Intn(len(ipPool))])
		return &gram{kind: 'u'}, udpswarm.Addr{IP: ip, Port: uint16(hx.Pick(r, 0, 1, 80, 8080, 65535, r.Intn(65536)))}
	case 2:
		ip := netip.MustParseAddr(ipPool[r.Intn(len(ipPool))])
		return &gram{kind: 's'}, sshswarm.Addr{Fingerprint: genFingerprint(r), IP: ip, Port: uint16(hx.Pick(r, 0, 22, 65535, r.Intn(65536)))}
	case 3, 4:
		g, a := genAddr(r, d-1)
		id := pid(genPid(r))
		if k == 3 {
			return &gram{kind: 'i', inner: g}, quicswarm.Addr[p2p.Addr]{ID: id, Addr: a}
		}
		return &gram{kind: 'k', inner: g}, p2pkeswarm.Addr[p2p.Addr]{ID: id, Addr: a}
	default:
		g, a := genAddr(r, d-1)
		n := 1 + r.Intn(3)
		x := &gram{kind: 'x'}
		used := map[string]bool{}
		for len(x.names) < n {
			nm := schemePool[r.Intn(len(schemePool))]
			if used[nm] {
				continue
			}
			used[nm] = true
			sub := g
			if len(x.names) > 0 {
				sub, _ = genAddr(r, 0)
			}
			x.names = append(x.names, nm)
			x.subs = append(x.subs, sub)
		}
		// the address uses the first scheme; shuffle so that it is not always first in the table
		j := r.Intn(n)
		x.names[0], x.names[j] = x.names[j], x.names[0]
		x.subs[0], x.subs[j] = x.subs[j], x.subs[0]
		return x, multiswarm.Addr{Scheme: x.names[j], Addr: a}
	}
}

func ipTable(text []byte) string {
	seen := map[string]string{}
	var parts []string
	for i := 0; i < len(text); i++ {
		for j := i + 1; j <= len(text) && j-i <= 64; j++ {
			s := string(text[i:j])
			if _, ok := seen[s]; ok {
				continue
			}
			if ip, err := netip.ParseAddr(s); err == nil {
				seen[s] = ip.String()
				parts = append(parts, hx.Hex([]byte(s))+"="+hx.Hex([]byte(ip.String())))
			}
		}
	}
	if len(parts) == 0 {
		return "-"
	}
	return strings.Join(parts, ",")
}

func scanPort(text []byte) string {
	i := bytes.LastIndexByte(text, ':')
	if i < 0 {
		return "-"
	}
	var p uint16
	if _, err := fmt.Sscan(string(text[i+1:]), &p); err != nil {
		return "-"
	}
	return strconv.Itoa(int(p))
}

func addrParseDo(g *gram, text []byte) string {
	return hx.Guard(func() string {
		a, err := g.parser()(hx.Exact(text))
		if err != nil {
			return "err"
		}
		return "ok " + addrTerm(a)
	})
}

func mutateAddrText(r *rand.Rand, t []byte) []byte {
	t = append([]byte{}, t...)
	chars := "@:/[]%+-_. \n0aZ9"
	for k := 1 + r.Intn(2); k > 0; k-- {
		switch r.Intn(9) {
		case 0:
			if len(t) > 0 {
				i := r.Intn(len(t))
				t = append(t[:i], t[i+1:]...)
			}
		case 1:
			i := r.Intn(len(t) + 1)
			t = append(t[:i], append([]byte{chars[r.Intn(len(chars))]}, t[i:]...)...)
		case 2:
			if len(t) > 0 {
				t[r.Intn(len(t))] = chars[r.Intn(len(chars))]
			}
		case 3: // port variants
			if i := bytes.LastIndexByte(t, ':'); i >= 0 {
				t = append(t[:i+1], hx.Pick(r, "080", "+80", "0x50", "80 ", " 80", "65536", "99999", "8_0", "", "-1", "80abc", "0b11", "0o17", "1e3")...)
			}
		case 4: // non-canonical / odd IP spellings
			s := string(t)
			for _, p := range [][2]string{{"::1", "::0001"}, {"1.2.3.4", "1.2.3.004"}, {"2001:db8::1", "2001:DB8:0:0:0:0:0:1"}, {"::", "0:0:0:0:0:0:0:0"}, {"127.0.0.1", "127.1"}} {
				if strings.Contains(s, p[0]) {
					s = strings.Replace(s, p[0], p[1], 1)
					break
				}
			}
			t = []byte(s)
		case 5:
			t = t[:r.Intn(len(t)+1)]
		case 6:
			t = append(t, hx.Pick(r, "@", ":", "://", ":80", "\n", "]")...)
		case 7:
			t = append([]byte(hx.Pick(r, "[", "@", "://", "x://", "+5", "-")), t...)
		case 8:
			t = hx.Bytes(r, r.Intn(12))
		}
	}
	return t
}

func addrStream(r *rand.Rand, n int, tier string, o *hx.Out) {
	for i := 0; i < n; i++ {
		g, a := genAddr(r, hx.Pick(r, 0, 1, 2, 3, 4))
		text, err := a.MarshalText()
		res := hx.Hex(text)
		if err != nil {
			res = "err"
		}
		o.Emit("addr-marshal", true, "addr-marshal "+addrTerm(a), res)
		if r.Intn(2) == 0 {
			text = mutateAddrText(r, text)
		}
		kind := "addr-parse/" + string(g.kind)
		o.Emit(kind, true, fmt.Sprintf("addr-parse %s %s %s %s", g.String(), hx.Hex(text), ipTable(text), scanPort(text)), addrParseDo(g, text))
	}
}

// ---- replay: grammar and address terms are parsed back

func parseGramTerm(s string) *gram {
	switch {
	case s == "m" || s == "u" || s == "s":
		return &gram{kind: s[0]}
	case strings.HasPrefix(s, "i("):
		return &gram{kind: 'i', inner: parseGramTerm(s[2 : len(s)-1])}
	case strings.HasPrefix(s, "x["):
		g := &gram{kind: 'x'}
		for _, item := range splitTop(s[2:len(s)-1], ',') {
			if item == "" {
				continue
			}
			kv := splitTop(item, '=')
			g.names = append(g.names, string(hx.UnHex(kv[0])))
			g.subs = append(g.subs, parseGramTerm(strings.Join(kv[1:], "=")))
		}
		return g
	}
	panic("bad gram " + s)
}

func splitTop(s string, c byte) (ret []string) {
	depth, start := 0, 0
	for i := 0; i < len(s); i++ {
		switch {
		case s[i] == '(' || s[i] == '[':
			depth++
		case s[i] == ')' || s[i] == ']':
			depth--
		case s[i] == c && depth == 0:
			ret = append(ret, s[start:i])
			start = i + 1
		}
	}
	return append(ret, s[start:])
}

func parseAddrTerm(s string) p2p.Addr {
	switch s[0] {
	case 'm':
		n, _ := strconv.Atoi(s[2:])
		return memswarm.Addr{N: n}
	case 'u':
		f := strings.Split(s[2:], ":")
		p, _ := strconv.Atoi(f[1])
		return udpswarm.Addr{IP: netip.MustParseAddr(string(hx.UnHex(f[0]))), Port: uint16(p)}
	case 's':
		f := strings.Split(s[2:], ":")
		p, _ := strconv.Atoi(f[2])
		return sshswarm.Addr{Fingerprint: string(hx.UnHex(f[0])), IP: netip.MustParseAddr(string(hx.UnHex(f[1]))), Port: uint16(p)}
	case 'i':
		j := strings.IndexByte(s, '(')
		return quicswarm.Addr[p2p.Addr]{ID: pid(hx.UnHex(s[2:j])), Addr: parseAddrTerm(s[j+1 : len(s)-1])}
	case 'c':
		j := strings.IndexByte(s, '(')
		return multiswarm.Addr{Scheme: string(hx.UnHex(s[2:j])), Addr: parseAddrTerm(s[j+1 : len(s)-1])}
	}
	panic("bad addr " + s)
}

func addrReplay(op []string, o *hx.Out) {
	line := strings.Join(op, " ")
	switch op[0] {
	case "addr-marshal":
		text, err := parseAddrTerm(op[1]).MarshalText()
		res := hx.Hex(text)
		if err != nil {
			res = "err"
		}
		o.Emit("addr-marshal", true, line, res)
	case "addr-parse":
		g := parseGramTerm(op[1])
		o.Emit("addr-parse/"+string(g.kind), true, line, addrParseDo(g, hx.UnHex(op[2])))
	}
}

// addrOracle: C16 stated on the implementation: parse(marshal(a)) = a for every generated address, and
// whatever arbitrary text parses to marshals to text that parses to the same address; no panics.
func addrOracle(r *rand.Rand, n int, tier string, infile string) (cases int, fails []string) {
	fail := func(f string, a ...any) {
		if len(fails) < 30 {
			fails = append(fails, fmt.Sprintf(f, a...))
		}
	}
	roundTrip := func(g *gram, a p2p.Addr) {
		cases++
		text, err := a.MarshalText()
		if err != nil {
			fail("MarshalText fails for %s: %v", addrTerm(a), err)
			return
		}
		if got := addrParseDo(g, text); got != "ok "+addrTerm(a) {
			fail("address %s marshals to %q which parses to %s (grammar %s)", addrTerm(a), text, got, g.String())
		}
	}
	arbitrary := func(g *gram, text []byte) {
		cases++
		got := addrParseDo(g, text)
		if got == "fault" {
			fail("ParseAddr panics on %q (grammar %s): %s", text, g.String(), hx.LastPanic)
			return
		}
		if got == "err" {
			return
		}
		a, _ := g.parser()(text)
		back, err := a.MarshalText()
		if err != nil {
			fail("text %q parses to %s which cannot be marshalled", text, got)
			return
		}
		if again := addrParseDo(g, back); again != got {
			fail("text %q parses to %s, which marshals to %q, which parses to %s", text, got, back, again)
		}
		// C17: the text of a peer identity is canonical (43 symbols, one text per identity): when an address with an
		// identity layer parses, the identity part of the text is the encoding of the identity it parsed to — text that
		// is not a valid encoding is rejected instead of yielding some other identity
		if g.kind == 'i' || g.kind == 'k' {
			i, j := bytes.IndexByte(text, '@'), bytes.IndexByte(back, '@')
			if i >= 0 && j >= 0 && !bytes.Equal(text[:i], back[:j]) {
				fail("address text %q was accepted and parsed to the identity %q, which its identity part %q does not encode", text, back[:j], text[:i])
			}
		}
	}
	for _, op := range readOps(infile) {
		switch op[0] {
		case "addr-parse":
			arbitrary(parseGramTerm(op[1]), hx.UnHex(op[2]))
		}
	}
	// the laws the theorems assume of the standard library (EnvOK): the canonical text of a parsed IP is
	// non-empty, parses to itself, and contains no newline or bracket; scanning the decimal text of a 16-bit
	// number yields it
	envLaws := func(text string) {
		cases++
		ip, err := netip.ParseAddr(text)
		if err != nil {
			return
		}
		c := ip.String()
		if ip2, err := netip.ParseAddr(c); err != nil || ip2.String() != c || c == "" || strings.ContainsAny(c, "\n[]") {
			fail("EnvOK law broken by net/netip: %q parses to canonical %q", text, c)
		}
	}
	for _, t := range ipPool {
		envLaws(t)
	}
	for i := 0; i < 300; i++ {
		b := hx.Bytes(r, hx.Pick(r, 4, 16))
		ip, _ := netip.AddrFromSlice(b)
		envLaws(ip.String())
		p := uint16(r.Intn(65536))
		var q uint16
		if _, err := fmt.Sscan(strconv.Itoa(int(p)), &q); err != nil || q != p {
			fail("EnvOK law broken by fmt.Sscan: %d scans to %d (%v)", p, q, err)
		}
	}
	if oracleOffset == 0 {
		cases += wildcardLocalAddrs(fail)
	}
	for i := 0; i < n; i++ {
		g, a := genAddr(r, hx.Pick(r, 0, 1, 2, 3, 4))
		roundTrip(g, a)
		text, _ := a.MarshalText()
		arbitrary(g, mutateAddrText(r, text))
	}
	return cases, fails
}

// wildcardLocalAddrs (C16, "local addresses"): a node that listens on the unspecified address lists one local address
// per interface address of the host (v4 and v6). Every one of them survives MarshalText and the node's own ParseAddr. The same for the layers that wrap such a transport.
func wildcardLocalAddrs(fail func(string, ...any)) (cases int) {
	check := func(name string, las []p2p.Addr, parse func([]byte) (p2p.Addr, error)) {
		cases++
		if len(las) == 0 {
			fail("%s lists no local address", name)
		}
		for _, a := range las {
			txt, err := a.MarshalText()
			if err != nil {
				fail("%s: MarshalText of the local address %v fails: %v", name, a, err)
				continue
			}
			back, err := parse(txt)
			if err != nil {
				fail("%s lists the local address %q, which its own ParseAddr rejects: %v", name, txt, err)
				continue
			}
			if txt2, _ := back.MarshalText(); string(txt2) != string(txt) || fmt.Sprint(back) != fmt.Sprint(a) {
				fail("%s: local address %q parses to %q", name, txt, txt2)
			}
		}
	}
	for _, laddr := range []string{"0.0.0.0:0", "[::]:0", ":0"} {
		if u, err := udpswarm.New(laddr); err == nil {
			check("udpswarm on "+laddr, anyAddrs(u.LocalAddrs()), func(b []byte) (p2p.Addr, error) { return u.ParseAddr(b) })
			u.Close()
		}
		if q, err := quicswarm.NewOnUDP(laddr, testPrivKey(77)); err == nil {
			check("quicswarm on udp "+laddr, anyAddrs(q.LocalAddrs()), func(b []byte) (p2p.Addr, error) { return q.ParseAddr(b) })
			q.Close()
		}
		if u, err := udpswarm.New(laddr); err == nil {
			k := p2pkeswarm.New[udpswarm.Addr](u, testPrivKey(78))
			check("p2pkeswarm on udp "+laddr, anyAddrs(k.LocalAddrs()), func(b []byte) (p2p.Addr, error) { return k.ParseAddr(b) })
			k.Close()
		}
		signer, _ := realssh.NewSignerFromSigner(edKey(33))
		if sw, err := sshswarm.New(laddr, signer); err == nil {
			check("sshswarm on "+laddr, anyAddrs(sw.LocalAddrs()), func(b []byte) (p2p.Addr, error) { return sw.ParseAddr(b) })
			sw.Close()
		}
	}
	return cases
}

func anyAddrs[A p2p.Addr](xs []A) (ret []p2p.Addr) {
	for _, x := range xs {
		ret = append(ret, x)
	}
	return ret
}
