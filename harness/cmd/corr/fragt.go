//go:build go1.25

package main

// fragt: the frag stream (fragswarm and mbapp reassembly) under the fake clock, with the clock stepping between
// operations so that the minute-ticker clean-up loops of both layers run at known times.

import (
	"fmt"
	"math/rand"
	"strconv"
	"strings"
	"time"

	"go.brendoncarroll.net/p2p/p/mbapp"
	"go.brendoncarroll.net/p2p/s/fragswarm"
	"verifharness/internal/hx"
)

func init() {
	streams["fragt"] = fragtStream
	replayers["fragt"] = func() replayFn { st := &fragtState{t0: time.Now()}; return st.apply }
	needBubble["fragt"] = true
}

type fragtState struct {
	fragState
	t0 time.Time
}

func (st *fragtState) apply(op []string, o *hx.Out) {
	if op[0] != "frag-tick" && op[0] != "mb-tick" {
		st.fragState.apply(op, o)
		bubbleWait()
		return
	}
	d, _ := strconv.Atoi(op[1])
	res := hx.Guard(func() string {
		time.Sleep(ms(d))
		bubbleWait()
		n := 0
		if op[0] == "frag-tick" && st.frecv != nil {
			n = fragswarm.VerifNumAggregators(st.frecv)
		} else if st.mrecv != nil {
			n = mbapp.VerifNumCollectors(st.mrecv)
		}
		return fmt.Sprintf("now=%d n=%d", time.Since(st.t0).Milliseconds(), n)
	})
	o.Emit(op[0], true, strings.Join(op, " "), res)
}

func fragtStream(r *rand.Rand, n int, tier string, o *hx.Out) {
	st := &fragtState{t0: time.Now()}
	defer st.reset()
	for o.N < n {
		kind := hx.Pick(r, "frag", "mb")
		fragScenario(r, kind, r.Intn(3) > 0, func(op string) string {
			st.apply(strings.Fields(op), o)
			res := o.Last()
			if strings.HasSuffix(strings.Fields(op)[0], "-recv") && r.Intn(5) == 0 {
				st.apply([]string{kind + "-tick", strconv.Itoa(hx.Pick(r, 1, 5000, 9999, 10000, 10001, 30000, 49999, 50000, 50001, 59999, 60000, 60001, 120000))}, o)
			}
			return res
		})
	}
}
