module verifharness

go 1.21

require (
	github.com/flynn/noise v1.0.0
	github.com/quic-go/quic-go v0.37.4
	go.brendoncarroll.net/p2p v0.0.0
	go.uber.org/zap v1.24.0
	golang.org/x/crypto v0.9.0
	golang.zx2c4.com/wireguard v0.0.0-20220920152132-bb719d3a6e2c
	google.golang.org/protobuf v1.28.0
)

require (
	github.com/davecgh/go-spew v1.1.1 // indirect
	github.com/golang/protobuf v1.5.3 // indirect
	github.com/pkg/errors v0.9.1 // indirect
	github.com/pmezard/go-difflib v1.0.0 // indirect
	github.com/stretchr/testify v1.8.4 // indirect
	go.brendoncarroll.net/exp v0.0.0-20241118183830-280772e567eb // indirect
	go.brendoncarroll.net/stdctx v0.0.0-20241118190518-40d09f4d11e7 // indirect
	go.brendoncarroll.net/tai64 v0.0.0-20241118171318-6e12d283d5e4 // indirect
	go.uber.org/atomic v1.7.0 // indirect
	go.uber.org/multierr v1.6.0 // indirect
	golang.org/x/exp v0.0.0-20230522175609-2e198f4a06a1 // indirect
	golang.org/x/net v0.10.0 // indirect
	golang.org/x/sync v0.2.0 // indirect
	golang.org/x/sys v0.8.0 // indirect
	gopkg.in/yaml.v3 v3.0.1 // indirect
)

replace go.brendoncarroll.net/p2p => /repo
