// Package hx holds what every correspondence stream shares: the line-protocol writer with
// input-distribution accounting, hex tokens, panic capture and the seeded PRNG helpers.
package hx

import (
	"bufio"
	"encoding/hex"
	"encoding/json"
	"fmt"
	"hash/fnv"
	"math/rand"
	"os"
	"strings"
)

type Out struct {
	w        *bufio.Writer
	f        *os.File
	N        int
	Mix      map[string]int
	Results  map[string]int
	distinct map[uint64]struct{}
	Samples  []string
	Notes    map[string]any
	rng      *rand.Rand
	last     string
}

func NewOut(path string, seed int64) *Out {
	var f *os.File
	if path == "" || path == "-" {
		f = os.Stdout
	} else {
		var err error
		f, err = os.Create(path)
		if err != nil {
			panic(err)
		}
	}
	return &Out{w: bufio.NewWriterSize(f, 1<<20), f: f, Mix: map[string]int{}, Results: map[string]int{},
		distinct: map[uint64]struct{}{}, Notes: map[string]any{}, rng: rand.New(rand.NewSource(seed ^ 0x5eed))}
}

// Emit writes one protocol line `op | result`. kind is the op-mix bucket, nontrivial says whether the
// case counts towards distinct_nontrivial (by the stream's stated rule).
func (o *Out) Emit(kind string, nontrivial bool, op string, result string) {
	line := op + " | " + result
	o.last = result
	o.w.WriteString(line)
	o.w.WriteByte('\n')
	o.N++
	o.Mix[kind]++
	rk := result
	if i := strings.IndexByte(rk, ' '); i >= 0 {
		rk = rk[:i]
	}
	if i := strings.IndexByte(rk, '='); i >= 0 {
		if rk[i+1:] == "-" {
			rk = rk[:i] + "=-"
		} else {
			rk = rk[:i] + "=*"
		}
	}
	if len(rk) > 12 || (len(rk) > 1 && rk[0] == 'x') {
		rk = "value"
	}
	o.Results[kind+"→"+rk]++
	if nontrivial {
		h := fnv.New64a()
		h.Write([]byte(op))
		o.distinct[h.Sum64()] = struct{}{}
	}
	if len(o.Samples) < 6 {
		o.Samples = append(o.Samples, trunc(line))
	} else if o.rng.Intn(o.N) < 6 {
		o.Samples[o.rng.Intn(len(o.Samples))] = trunc(line)
	}
}

func trunc(s string) string {
	if len(s) > 300 {
		return s[:300] + "…"
	}
	return s
}

type Stats struct {
	Evaluations        int            `json:"evaluations"`
	DistinctNontrivial int            `json:"distinct_nontrivial"`
	OpMix              map[string]int `json:"op_mix"`
	Results            map[string]int `json:"results"`
	Samples            []string       `json:"samples"`
	Notes              map[string]any `json:"notes,omitempty"`
}

func (o *Out) Close(statsPath string) {
	o.w.Flush()
	if o.f != os.Stdout {
		o.f.Close()
	}
	if statsPath != "" {
		st := Stats{Evaluations: o.N, DistinctNontrivial: len(o.distinct), OpMix: o.Mix, Results: o.Results, Samples: o.Samples, Notes: o.Notes}
		data, _ := json.MarshalIndent(st, "", " ")
		os.WriteFile(statsPath, data, 0o644)
	}
}

func Hex(b []byte) string { return "x" + hex.EncodeToString(b) }

func UnHex(s string) []byte {
	b, err := hex.DecodeString(strings.TrimPrefix(s, "x"))
	if err != nil {
		panic(err)
	}
	return b
}

// Guard runs f and turns a panic into the result token "fault".
func Guard(f func() string) (res string) {
	defer func() {
		if r := recover(); r != nil {
			res = "fault"
			LastPanic = fmt.Sprint(r)
		}
	}()
	return f()
}

var LastPanic string

// Exact returns a copy of b whose capacity equals its length, so that an out-of-range slice
// expression faults exactly when the model's length check says it does.
func Exact(b []byte) []byte {
	c := make([]byte, len(b))
	copy(c, b)
	return c[:len(b):len(b)]
}

var lent [][]byte

// Lend is Exact for a buffer that is only lent to the library for the duration of one call (a message handed to
// a receive callback or to Deliver): Reclaim, called when that call has returned, overwrites it, as a transport
// that reuses its receive buffers would. A layer that keeps a reference instead of a copy then shows up as
// corrupted output.
func Lend(b []byte) []byte {
	c := Exact(b)
	lent = append(lent, c)
	return c
}

func Reclaim() {
	for _, b := range lent {
		for i := range b {
			b[i] = 0xEE
		}
	}
	lent = lent[:0]
}

func Bytes(r *rand.Rand, n int) []byte {
	b := make([]byte, n)
	r.Read(b)
	return b
}

// Pick returns one of xs.
func Pick[T any](r *rand.Rand, xs ...T) T { return xs[r.Intn(len(xs))] }

// SmallLen is a length distribution concentrated on boundaries.
func SmallLen(r *rand.Rand) int {
	switch r.Intn(10) {
	case 0:
		return 0
	case 1:
		return 1
	case 2:
		return r.Intn(4)
	case 3:
		return 127 + r.Intn(3)
	case 4:
		return r.Intn(300)
	default:
		return r.Intn(40)
	}
}

// EdgeU64 is a 64-bit value distribution concentrated on varint and word boundaries.
func EdgeU64(r *rand.Rand) uint64 {
	switch r.Intn(8) {
	case 0:
		return uint64(r.Intn(3))
	case 1:
		k := uint(7 * (1 + r.Intn(9)))
		return (uint64(1) << k) + uint64(r.Intn(3)) - 1
	case 2:
		k := uint(8 * (1 + r.Intn(7)))
		return (uint64(1) << k) + uint64(r.Intn(3)) - 1
	case 3:
		return ^uint64(0) - uint64(r.Intn(3))
	case 4:
		return uint64(1)<<63 + uint64(r.Intn(3)) - 1
	case 5:
		return uint64(r.Intn(70000))
	default:
		return r.Uint64() >> uint(r.Intn(64))
	}
}

// Last returns the result part of the most recently emitted line.
func (o *Out) Last() string { return o.last }
